package rules

import (
	"go/ast"
	"go/token"
	"go/types"
	"strings"

	"hv/core"
)

func init() { register("C21", c21) }

const (
	pkgSettings = "app/core/settings"
	pkgSetting  = "app/core/settings/setting"
)

// mapRangeEscapes inspects one `range` over a map and reports order-dependent selections:
// an early exit (return/break) that carries a value derived from the iteration, or an
// assignment to an outer variable that is not protected by a total tie-break.
func mapRangeEscapes(info *types.Info, fn ast.Node, rs *ast.RangeStmt) (bad []ast.Node, why []string) {
	iterObjs := map[types.Object]bool{}
	for _, e := range []ast.Expr{rs.Key, rs.Value} {
		if id, ok := e.(*ast.Ident); ok && id.Name != "_" {
			if o := info.Defs[id]; o != nil {
				iterObjs[o] = true
			} else if o := info.Uses[id]; o != nil {
				iterObjs[o] = true
			}
		}
	}
	// locals defined inside the loop from iteration variables count as derived
	derived := func(n ast.Node) bool {
		d := false
		ast.Inspect(n, func(x ast.Node) bool {
			if id, ok := x.(*ast.Ident); ok && iterObjs[info.Uses[id]] {
				d = true
			}
			return !d
		})
		return d
	}
	ast.Inspect(rs.Body, func(x ast.Node) bool {
		if as, ok := x.(*ast.AssignStmt); ok && as.Tok == token.DEFINE {
			for i, l := range as.Lhs {
				if id, ok := l.(*ast.Ident); ok {
					var r ast.Node = as
					if len(as.Lhs) == len(as.Rhs) {
						r = as.Rhs[i]
					}
					if derived(r) {
						if o := info.Defs[id]; o != nil {
							iterObjs[o] = true
						}
					}
				}
			}
		}
		return true
	})
	var walk func(n ast.Node, conds []ast.Expr)
	walk = func(n ast.Node, conds []ast.Expr) {
		switch v := n.(type) {
		case nil:
			return
		case *ast.FuncLit:
			return
		case *ast.ReturnStmt:
			for _, r := range v.Results {
				if derived(r) {
					bad = append(bad, v)
					why = append(why, "returns a value of the first matching map entry (map iteration order is random)")
					return
				}
			}
		case *ast.AssignStmt:
			if v.Tok == token.DEFINE {
				return
			}
			for i, l := range v.Lhs {
				id, ok := core.Unparen(l).(*ast.Ident)
				if !ok {
					continue
				}
				obj := info.Uses[id]
				if obj == nil || (obj.Pos() >= rs.Pos() && obj.Pos() < rs.End()) {
					continue // loop-local
				}
				var r ast.Node = v
				if len(v.Lhs) == len(v.Rhs) {
					r = v.Rhs[i]
				}
				if !derived(r) {
					continue
				}
				// accepted: guarded by a condition containing an ordered comparison of strings (total tie-break on the key)
				tie := false
				for _, c := range conds {
					ast.Inspect(c, func(y ast.Node) bool {
						if be, ok := y.(*ast.BinaryExpr); ok && (be.Op == token.LSS || be.Op == token.GTR || be.Op == token.LEQ || be.Op == token.GEQ) {
							if b, ok := info.TypeOf(be.X).Underlying().(*types.Basic); ok && b.Info()&types.IsString != 0 {
								tie = true
							}
						}
						return true
					})
				}
				if !tie {
					bad = append(bad, v)
					why = append(why, "assigns an outer variable from a map entry without a total tie-break (result depends on iteration order)")
				}
			}
		case *ast.IfStmt:
			walk(v.Init, conds)
			walk(v.Body, append(append([]ast.Expr{}, conds...), v.Cond))
			walk(v.Else, conds)
			return
		case *ast.BlockStmt:
			for _, s := range v.List {
				walk(s, conds)
			}
			return
		case *ast.ForStmt:
			walk(v.Body, conds)
			return
		case *ast.RangeStmt:
			walk(v.Body, conds)
			return
		case *ast.SwitchStmt:
			walk(v.Body, conds)
			return
		case *ast.CaseClause:
			for _, s := range v.Body {
				walk(s, conds)
			}
			return
		}
	}
	walk(rs.Body, nil)
	return
}

func c21(c *core.Ctx) {
	p := c.P
	c.Explain = "Static necessary conditions for deterministic settings resolution: no value escapes from a map iteration in the settings lookup in an order-dependent way; ComparePattern evaluated exhaustively over the 27 abstract cases (each part equal / different / wildcard) equals the specified matcher (sanctuary exact, '*' honoured only for realm and swamp); each of in-memory flag, idle timeout and write interval is written to the persisted model by RegisterPattern and restored from it on load."
	c.NotCovered = []string{"that the most specific pattern wins for every pattern set (value-level)", "JSON round-trip of the settings file", "concurrent registration"}

	rPure := c.Rule("C21.pure", "the resolver (GetBySwampName) depends only on the registered patterns: besides the pattern map and its lock it reads no field of the settings object that is written after construction, unless every function that changes the pattern map resets that field unconditionally; and every ComparePattern call has the concrete swamp name as receiver and the pattern as argument", 2)
	{
		resolver := c.Fn(pkgSettings + ".settings.GetBySwampName")
		_, st := p.StructOf(pkgSettings, "settings")
		fields := core.StructFields(st)
		patternsF := fields["patterns"]
		if patternsF == nil {
			core.Failf("settings.patterns not found")
		}
		all := map[*types.Var]bool{}
		for _, f := range fields {
			all[f] = true
		}
		// fields written outside constructors
		mutable := map[*types.Var][]string{}
		patternWriters := map[*core.Func]bool{}
		for _, f := range p.FuncsIn(pkgSettings) {
			if f.Decl.Body == nil || f.Decl.Recv == nil {
				continue // constructors are plain functions
			}
			for _, a := range core.Accesses(f.Info(), f.Decl.Body, all, true) {
				if a.Write {
					mutable[a.Field] = append(mutable[a.Field], f.Key)
					if a.Field == patternsF {
						patternWriters[f] = true
					}
				}
			}
		}
		// unconditional reset of field F in function w (top-level statement): s.F = <composite/make> or s.F.Clear()
		resets := func(w *core.Func, F *types.Var, depth int) bool {
			var rec func(g *core.Func, d int) bool
			rec = func(g *core.Func, d int) bool {
				for _, stn := range g.Decl.Body.List {
					switch v := stn.(type) {
					case *ast.AssignStmt:
						for _, l := range v.Lhs {
							if core.FieldOf(g.Info(), l) == F {
								return true
							}
						}
					case *ast.ExprStmt:
						if call, ok := v.X.(*ast.CallExpr); ok {
							if fo := core.Callee(g.Info(), call); fo != nil {
								if fo.Name() == "Clear" && core.FieldOf(g.Info(), core.RecvExpr(call)) == F {
									return true
								}
								if id, isB := core.Unparen(call.Fun).(*ast.Ident); isB && id.Name == "clear" && len(call.Args) == 1 && core.FieldOf(g.Info(), call.Args[0]) == F {
									return true
								}
								if t := p.ByObj[fo]; t != nil && d > 0 && t.Decl.Body != nil && rec(t, d-1) {
									return true
								}
							}
						}
					}
				}
				return false
			}
			return rec(w, depth)
		}
		info := resolver.Info()
		seen := map[*types.Var]bool{}
		for _, a := range core.Accesses(info, resolver.Decl.Body, all, true) {
			if a.Field == patternsF || seen[a.Field] || len(mutable[a.Field]) == 0 {
				continue
			}
			if n := namedOf(a.Field.Type()); n != nil && n.Obj().Pkg() != nil && n.Obj().Pkg().Path() == "sync" && (n.Obj().Name() == "RWMutex" || n.Obj().Name() == "Mutex") {
				continue
			}
			seen[a.Field] = true
			okReset := len(patternWriters) > 0
			for w := range patternWriters {
				if !resets(w, a.Field, 1) {
					okReset = false
				}
			}
			rPure.Check(okReset, resolver.Key+":reads:"+a.Field.Name(), a.Node.Pos(), "state reset whenever the patterns change", "the resolver reads settings."+a.Field.Name()+", which is written after construction and is not reset unconditionally by every function that changes the pattern map: the answer depends on which swamps were resolved before a pattern changed, not only on the registered patterns")
		}
		rPure.Ok(resolver.Key+":state-read", resolver.Decl.Pos(), "fields read by the resolver scanned")
		// ComparePattern direction
		nameT := p.Named(pkgName, "Name")
		_ = nameT
		patternRole := func(g *core.Func, obj types.Object) bool {
			if obj == nil || g.Decl.Body == nil {
				return false
			}
			role := false
			ast.Inspect(g.Decl.Body, func(x ast.Node) bool {
				if ix, ok := x.(*ast.IndexExpr); ok && core.FieldOf(g.Info(), ix.X) == patternsF {
					if call, isCall := core.Unparen(ix.Index).(*ast.CallExpr); isCall && core.ObjOf(g.Info(), core.RecvExpr(call)) == obj {
						role = true
					}
				}
				if call, ok := x.(*ast.CallExpr); ok {
					if id, isB := core.Unparen(call.Fun).(*ast.Ident); isB && id.Name == "delete" && len(call.Args) == 2 && core.FieldOf(g.Info(), call.Args[0]) == patternsF {
						if kc, isCall := core.Unparen(call.Args[1]).(*ast.CallExpr); isCall && core.ObjOf(g.Info(), core.RecvExpr(kc)) == obj {
							role = true
						}
					}
				}
				return true
			})
			return role
		}
		cg := c.CG()
		nCmp := 0
		for _, g := range p.FuncsIn(pkgSettings) {
			if g.Decl.Body == nil {
				continue
			}
			gi := g.Info()
			core.Calls(g.Decl.Body, true, func(call *ast.CallExpr) {
				fo := core.Callee(gi, call)
				if fo == nil || fo.Name() != "ComparePattern" || len(call.Args) != 1 {
					return
				}
				nCmp++
				c.Touch(g)
				recv := core.ObjOf(gi, core.RecvExpr(call))
				bad := patternRole(g, recv)
				if !bad && recv != nil {
					// a parameter that every caller fills with a pattern-role value
					sig := g.Obj.Type().(*types.Signature)
					for i := 0; i < sig.Params().Len(); i++ {
						if sig.Params().At(i) != recv {
							continue
						}
						callers := cg.In[g]
						allPat := len(callers) > 0
						for _, cs := range callers {
							if cs.Caller == nil || i >= len(cs.Call.Args) || !patternRole(cs.Caller, core.ObjOf(cs.Caller.Info(), cs.Call.Args[i])) {
								allPat = false
							}
						}
						bad = allPat
					}
				}
				rPure.Check(!bad, g.Key+":ComparePattern:receiver", call.Pos(), "receiver is a concrete name", "ComparePattern is called on the pattern with the swamp name as argument: wildcards are honoured only in the argument, so a wildcard pattern never matches the swamps it covers")
			})
		}
		if nCmp == 0 {
			rPure.Bad(pkgSettings+":ComparePattern", token.NoPos, "the settings package no longer matches names with ComparePattern")
		}
	}

	rOrd := c.Rule("C21.order", "no order-dependent selection from a map in the settings package: no early exit carrying an iteration value, no unguarded best-candidate assignment", 1)
	nRanges := 0
	for _, f := range p.FuncsIn(pkgSettings) {
		if f.Decl.Body == nil {
			continue
		}
		info := f.Info()
		ast.Inspect(f.Decl.Body, func(x ast.Node) bool {
			rs, ok := x.(*ast.RangeStmt)
			if !ok {
				return true
			}
			if _, isMap := info.TypeOf(rs.X).Underlying().(*types.Map); !isMap {
				return true
			}
			nRanges++
			c.Touch(f)
			bad, why := mapRangeEscapes(info, f.Decl.Body, rs)
			construct := f.Key + ":range(" + core.ExprStr(rs.X) + ")"
			if len(bad) == 0 {
				rOrd.Ok(construct, rs.Pos(), "no order-dependent escape")
			}
			for i, b := range bad {
				rOrd.Bad(construct, b.Pos(), why[i]+": with overlapping patterns (exact + wildcard) the applied settings differ between calls and restarts")
			}
			return true
		})
	}

	// C21.pattern: exhaustive abstract evaluation of ComparePattern
	rPat := c.Rule("C21.pattern", "ComparePattern(name, pattern) is true exactly when the sanctuary is equal and each of realm, swamp is equal or the pattern part is '*' (27 abstract cases evaluated)", 27)
	cmp := c.Fn(pkgName + ".name.ComparePattern")
	{
		info := cmp.Info()
		parts := []string{"Sanctuary", "Realm", "Swamp"}
		// state per part: 0 equal, 1 different (pattern not wildcard), 2 pattern is wildcard (and differs from the name part)
		for code := 0; code < 27; code++ {
			st := []int{code % 3, (code / 3) % 3, (code / 9) % 3}
			atom := func(e ast.Expr) (bool, bool) {
				be, ok := core.Unparen(e).(*ast.BinaryExpr)
				if !ok || (be.Op != token.EQL && be.Op != token.NEQ) {
					return false, false
				}
				txt := core.ExprStr(be.X) + " " + core.ExprStr(be.Y)
				part := -1
				for i, pn := range parts {
					if strings.Contains(txt, pn) {
						part = i
					}
				}
				if part < 0 {
					return false, false
				}
				var eq bool
				lit := ""
				if bl, ok := core.Unparen(be.Y).(*ast.BasicLit); ok {
					lit = bl.Value
				} else if bl, ok := core.Unparen(be.X).(*ast.BasicLit); ok {
					lit = bl.Value
				}
				if lit != "" {
					if lit != `"*"` {
						return false, false
					}
					// which side is compared with "*": the pattern's getter (call) or the receiver field
					other := be.X
					if _, isLit := core.Unparen(be.X).(*ast.BasicLit); isLit {
						other = be.Y
					}
					if _, isCall := core.Unparen(other).(*ast.CallExpr); isCall {
						eq = st[part] == 2 // pattern part is "*"
					} else {
						eq = false // the concrete name's part is never "*" in this abstraction
					}
				} else {
					eq = st[part] == 0
				}
				if be.Op == token.NEQ {
					return !eq, true
				}
				return eq, true
			}
			out := core.SimStmts(info, cmp.Decl.Body.List, atom, nil)
			want := st[0] == 0 && (st[1] == 0 || st[1] == 2) && (st[2] == 0 || st[2] == 2)
			construct := cmp.Key + ":case(" + []string{"eq", "ne", "wild"}[st[0]] + "," + []string{"eq", "ne", "wild"}[st[1]] + "," + []string{"eq", "ne", "wild"}[st[2]] + ")"
			if out.Unknown || !out.Returned || len(out.Ret.Results) != 1 {
				// the rule is that the match is decided part by part; a decision taken any other way (string
				// prefixes of the joined path, type assertions, helper calls) cannot be shown to equal the
				// part-wise matcher and in general does not: "s/order/*" as a prefix also covers realm "orders"
				rPat.Bad(construct, cmp.Decl.Pos(), "ComparePattern no longer decides the match by comparing the three parts ("+out.Why+"): a match computed from the joined path or through another shortcut is not the specified matcher - e.g. a prefix test lets the pattern s/order/* also match swamps of realm 'orders'")
				continue
			}
			got, ok := core.BoolLit(info, out.Ret.Results[0])
			if !ok {
				rPat.Undecided(construct, out.Ret.Pos(), "non-constant result")
				continue
			}
			rPat.Check(got == want, construct, out.Ret.Pos(), "matches specification", "ComparePattern returns "+b2s(got)+" but the specified matcher says "+b2s(want))
		}
	}

	// C21.onesection: what is live and what is persisted change together.
	rOne := c.Rule("C21.onesection", "a function that changes both the live pattern table and the persisted pattern model changes them inside one critical section of the settings lock: the lock is write-held at both writes and is not released between them. Two concurrent registrations of one pattern otherwise leave the live table with one caller's setting and settings.json with the other's, and the swamp changes its configuration at the next restart", 2)
	{
		_, sst := p.StructOf(pkgSettings, "settings")
		liveF := core.StructFields(sst)["patterns"]
		modelStructF := core.StructFields(sst)["model"]
		var modelPatF *types.Var
		if modelStructF != nil {
			if mst, ok := modelStructF.Type().Underlying().(*types.Struct); ok {
				modelPatF = core.StructFields(mst)["Patterns"]
			} else if pt, ok := modelStructF.Type().(*types.Pointer); ok {
				if mst, ok := pt.Elem().Underlying().(*types.Struct); ok {
					modelPatF = core.StructFields(mst)["Patterns"]
				}
			}
		}
		if liveF == nil || modelPatF == nil {
			rOne.Bad(pkgSettings+".settings:tables", token.NoPos, "cannot identify the live pattern table and the persisted pattern model (rule needs review)")
		} else {
			n := 0
			for _, f := range p.FuncsIn(pkgSettings) {
				if f.Decl.Body == nil {
					continue
				}
				info := f.Info()
				var liveW, modelW []ast.Node
				for _, a := range core.Accesses(info, f.Decl.Body, map[*types.Var]bool{liveF: true, modelPatF: true}, true) {
					if !a.Write || a.Form == "assign" {
						continue // wholesale (re)initialisation at load time is not an update of one pattern
					}
					if a.Field == liveF {
						liveW = append(liveW, a.Node)
					} else {
						modelW = append(modelW, a.Node)
					}
				}
				if len(liveW) == 0 || len(modelW) == 0 {
					continue
				}
				n++
				c.Touch(f)
				fl := core.NewFlow(p, info, f.Decl.Body)
				lk := fl.LockAnalysis(nil)
				// statement of the main body that contains a node (the model write may sit in an immediately invoked literal)
				top := func(nd ast.Node) ast.Node {
					var out ast.Node = nd
					for _, st := range core.PathTo(f.Decl.Body, nd) {
						if _, ok := fl.Locate(st); ok {
							out = st
							break
						}
					}
					return out
				}
				lockKey := ""
				okHeld := true
				for _, w := range append(append([]ast.Node{}, liveW...), modelW...) {
					held, ok := lk.HeldAtNode(top(w))
					found := false
					if ok {
						for k, m := range held {
							if m == 2 && (lockKey == "" || lockKey == k) && !strings.Contains(k, "odel") {
								lockKey, found = k, true
							}
						}
					}
					if !found {
						okHeld = false
					}
				}
				released := false
				if okHeld {
					core.Calls(f.Decl.Body, false, func(call *ast.CallExpr) {
						fo := core.Callee(info, call)
						if fo == nil || fo.Name() != "Unlock" || core.ExprStr(core.RecvExpr(call)) != lockKey || underDefer(f.Decl.Body, call) {
							return
						}
						lu, ok := fl.Locate(call)
						if !ok {
							return
						}
						for _, a := range liveW {
							for _, b := range modelW {
								la, ok1 := fl.Locate(top(a))
								lb, ok2 := fl.Locate(top(b))
								if !ok1 || !ok2 {
									continue
								}
								r1, _ := fl.CanReach(la, nil, nil, core.ContainsNode(call))
								r2, _ := fl.CanReach(lu, nil, nil, core.ContainsNode(top(b)))
								r3, _ := fl.CanReach(lb, nil, nil, core.ContainsNode(call))
								r4, _ := fl.CanReach(lu, nil, nil, core.ContainsNode(top(a)))
								if (r1 && r2) || (r3 && r4) {
									released = true
								}
							}
						}
					})
				}
				rOne.Check(okHeld && !released, f.Key+":live-and-persisted-in-one-section", f.Decl.Pos(), "both writes under one acquisition of "+lockKey,
					"the live pattern table and the persisted model are not changed in one critical section (lock held at both writes="+b2s(okHeld)+", released in between="+b2s(released)+"): concurrent registrations of one pattern can leave the live setting and settings.json disagreeing, and the swamp's configuration flips at the next restart")
			}
			if n == 0 {
				rOne.Bad(pkgSettings+":updaters", token.NoPos, "no function updates both the live table and the persisted model")
			}
		}
	}

	// C21.persist
	rPer := c.Rule("C21.persist", "in-memory flag, idle timeout and write interval given to RegisterPattern are stored in the persisted PatternModel, and loadSettingsFromFilesystem restores each into the live setting from the same model field", 6)
	reg := c.Fn(pkgSettings + ".settings.RegisterPattern")
	load := c.Fn(pkgSettings + ".settings.loadSettingsFromFilesystem")
	{
		info := reg.Info()
		// model field <- parameter (directly or through the filesystemSettings struct field of the same name)
		want := map[string]string{"InMemory": "inMemorySwamp", "CloseAfterIdleSec": "closeAfterIdleSec", "WriteIntervalSec": "WriteIntervalSec"}
		got := map[string]bool{}
		pmT := p.Named(pkgSettings, "PatternModel")
		record := func(field string, rhs ast.Expr) {
			src, ok := want[field]
			if !ok {
				return
			}
			if mentionsName(rhs, src) {
				got[field] = true
			}
		}
		ast.Inspect(reg.Decl.Body, func(x ast.Node) bool {
			switch v := x.(type) {
			case *ast.CompositeLit:
				if tv, ok := info.Types[v]; ok && namedOf(tv.Type) == pmT {
					for _, el := range v.Elts {
						if kv, ok := el.(*ast.KeyValueExpr); ok {
							record(kv.Key.(*ast.Ident).Name, kv.Value)
						}
					}
				}
			case *ast.AssignStmt:
				if len(v.Lhs) == 1 && len(v.Rhs) == 1 {
					if f := core.FieldOf(info, v.Lhs[0]); f != nil {
						if s, ok := core.Unparen(v.Lhs[0]).(*ast.SelectorExpr); ok {
							if tv, ok := info.Types[s.X]; ok && namedOf(tv.Type) == pmT {
								record(f.Name(), v.Rhs[0])
							}
						}
					}
				}
			}
			return true
		})
		// the model entry must be stored and saved
		stored := len(core.FindCalls(reg.Decl.Body, true, func(call *ast.CallExpr) bool {
			return core.IsWsCallTo(info, call, pkgSettings+".settings.SaveSettingsToFilesystem")
		})) > 0
		for _, f := range []string{"InMemory", "CloseAfterIdleSec", "WriteIntervalSec"} {
			rPer.Check(got[f] && stored, reg.Key+":PatternModel."+f, reg.Decl.Pos(), "persisted from "+want[f], "RegisterPattern does not persist "+f+" (after a restart the pattern resolves to different settings)")
		}
		linfo := load.Info()
		ssT := p.Named(pkgSetting, "SwampSetting")
		restore := map[string]string{"InMemory": "InMemory", "CloseAfterIdleSec": "CloseAfterIdleSec", "WriteIntervalSec": "WriteIntervalSec"}
		gotR := map[string]bool{}
		ast.Inspect(load.Decl.Body, func(x ast.Node) bool {
			if v, ok := x.(*ast.CompositeLit); ok {
				if tv, ok := linfo.Types[v]; ok && namedOf(tv.Type) == ssT {
					for _, el := range v.Elts {
						if kv, ok := el.(*ast.KeyValueExpr); ok {
							k := kv.Key.(*ast.Ident).Name
							if src, ok := restore[k]; ok {
								// value must read PatternModel.<src>
								ast.Inspect(kv.Value, func(y ast.Node) bool {
									if s, ok := y.(*ast.SelectorExpr); ok {
										if f := core.FieldOf(linfo, s); f != nil && f.Name() == src {
											if tv, ok := linfo.Types[s.X]; ok && namedOf(tv.Type) == pmT {
												gotR[k] = true
											}
										}
									}
									return true
								})
							}
						}
					}
				}
			}
			return true
		})
		for _, f := range []string{"InMemory", "CloseAfterIdleSec", "WriteIntervalSec"} {
			rPer.Check(gotR[f], load.Key+":SwampSetting."+f, load.Decl.Pos(), "restored from PatternModel."+f, "load does not restore "+f+" from the persisted model")
		}
	}
	if nRanges == 0 {
		rOrd.Bad(pkgSettings+":no-map-range", reg.Decl.Pos(), "settings lookup no longer iterates the pattern map (rule needs review)")
	}
}
