package compressor

import "testing"

// Damaged gzip data must produce an error, never (nil, nil) (C24).
func TestDemoGzipCorruptionHidden(t *testing.T) {
	c := New(Gzip)
	comp, err := c.Compress([]byte("hello hello hello hello hello hello"))
	if err != nil {
		t.Fatal(err)
	}
	// 1. not gzip at all
	if out, err := c.Decompress([]byte("definitely not gzip")); err == nil {
		t.Errorf("garbage input: got (%q, nil), want an error", out)
	}
	// 2. truncated stream
	if out, err := c.Decompress(comp[:len(comp)-6]); err == nil {
		t.Errorf("truncated input: got (%q, nil), want an error", out)
	}
	// 3. flipped payload byte
	bad := append([]byte{}, comp...)
	bad[len(bad)/2] ^= 0xff
	if out, err := c.Decompress(bad); err == nil && string(out) != "hello hello hello hello hello hello" {
		t.Errorf("bit-flipped input: got (%q, nil), want an error or the original", out)
	}
}
