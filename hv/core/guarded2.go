package core

import "go/types"

// ownerParam finds the name through which a function receives the owner value: its receiver
// (index -1) or its first parameter of the owner type (index >= 0). "" when there is none.
func ownerParam(f *Func, isOwner func(types.Type) bool) (string, int) {
	sig := f.Obj.Type().(*types.Signature)
	if r := sig.Recv(); r != nil && isOwner(r.Type()) {
		return r.Name(), -1
	}
	for i := 0; i < sig.Params().Len(); i++ {
		if isOwner(sig.Params().At(i).Type()) {
			return sig.Params().At(i).Name(), i
		}
	}
	return "", -1
}
