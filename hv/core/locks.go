package core

import (
	"go/ast"
	"sort"
	"strings"
)

// LockMode: 1 = read lock, 2 = write lock.
type LockSet map[string]int

func (s LockSet) clone() LockSet {
	o := LockSet{}
	for k, v := range s {
		o[k] = v
	}
	return o
}

func (s LockSet) String() string {
	var ks []string
	for k, v := range s {
		if v == 1 {
			ks = append(ks, k+"(R)")
		} else {
			ks = append(ks, k)
		}
	}
	sort.Strings(ks)
	return "{" + strings.Join(ks, ",") + "}"
}

func meet(a, b LockSet) LockSet {
	o := LockSet{}
	for k, v := range a {
		if w, ok := b[k]; ok {
			if w < v {
				v = w
			}
			o[k] = v
		}
	}
	return o
}

func equalLS(a, b LockSet) bool {
	if len(a) != len(b) {
		return false
	}
	for k, v := range a {
		if b[k] != v {
			return false
		}
	}
	return true
}

// lockOp classifies a call as a lock operation on a receiver expression.
// op: +2 Lock, +1 RLock, -2 Unlock, -1 RUnlock, 0 none.
func (fl *Flow) lockOp(call *ast.CallExpr) (key string, op int) {
	f := Callee(fl.Info, call)
	if f == nil {
		return "", 0
	}
	recv := RecvExpr(call)
	if recv == nil {
		return "", 0
	}
	switch QName(f) {
	case "sync.Mutex.Lock", "sync.RWMutex.Lock", "sync.Locker.Lock":
		return ExprStr(recv), 2
	case "sync.RWMutex.RLock":
		return ExprStr(recv), 1
	case "sync.Mutex.Unlock", "sync.RWMutex.Unlock", "sync.Locker.Unlock":
		return ExprStr(recv), -2
	case "sync.RWMutex.RUnlock":
		return ExprStr(recv), -1
	case "sync.Mutex.TryLock", "sync.RWMutex.TryLock", "sync.RWMutex.TryRLock":
		return "", 0
	}
	return "", 0
}

// applyNode updates the lockset with the lock operations a CFG node performs (in source order).
// Deferred unlocks keep the lock held until exit; function literals are opaque.
// (*sync.Cond).Wait releases and re-acquires its lock, net effect none.
func (fl *Flow) applyNode(n ast.Node, s LockSet) {
	if _, ok := n.(*ast.DeferStmt); ok {
		return
	}
	if _, ok := n.(*ast.GoStmt); ok {
		return
	}
	Calls(n, false, func(c *ast.CallExpr) {
		k, op := fl.lockOp(c)
		switch {
		case op > 0:
			s[k] = op
		case op < 0:
			delete(s, k)
		}
	})
}

// Locks is the result of the must-held (or may-held) analysis of one body.
type Locks struct {
	fl  *Flow
	in  []LockSet
	may bool
}

func join(a, b LockSet) LockSet {
	o := a.clone()
	for k, v := range b {
		if o[k] < v {
			o[k] = v
		}
	}
	return o
}

// MayLockAnalysis computes the locks possibly held (union over paths). Use it for
// "must not hold" rules; LockAnalysis (intersection) is for "must hold" rules.
func (fl *Flow) MayLockAnalysis(entry LockSet) *Locks { return fl.lockAnalysis(entry, true) }

// LockAnalysis computes, for every block, the locks definitely held on entry, given the
// locks held at function entry.
func (fl *Flow) LockAnalysis(entry LockSet) *Locks { return fl.lockAnalysis(entry, false) }

func (fl *Flow) lockAnalysis(entry LockSet, may bool) *Locks {
	n := len(fl.G.Blocks)
	in := make([]LockSet, n)
	if entry == nil {
		entry = LockSet{}
	}
	if n == 0 {
		return &Locks{fl, in, may}
	}
	in[0] = entry.clone()
	changed := true
	for changed {
		changed = false
		for _, b := range fl.rpo {
			if in[b] == nil {
				continue
			}
			out := in[b].clone()
			for _, nd := range fl.G.Blocks[b].Nodes {
				fl.applyNode(nd, out)
			}
			for _, s := range fl.G.Blocks[b].Succs {
				si := int(s.Index)
				if in[si] == nil {
					in[si] = out.clone()
					changed = true
				} else {
					m := meet(in[si], out)
					if may {
						m = join(in[si], out)
					}
					if !equalLS(m, in[si]) {
						in[si] = m
						changed = true
					}
				}
			}
		}
	}
	return &Locks{fl, in, may}
}

// HeldBefore returns the locks definitely held just before the node at l executes.
// When inner is non-nil, lock operations that precede inner (by source position) inside
// the node itself are applied too.
func (lk *Locks) HeldBefore(l Loc, inner ast.Node) LockSet {
	if lk.in[l.B] == nil {
		return LockSet{}
	}
	s := lk.in[l.B].clone()
	blk := lk.fl.G.Blocks[l.B]
	for i := 0; i < l.I && i < len(blk.Nodes); i++ {
		lk.fl.applyNode(blk.Nodes[i], s)
	}
	if inner != nil && l.I >= 0 && l.I < len(blk.Nodes) {
		n := blk.Nodes[l.I]
		if _, isDefer := n.(*ast.DeferStmt); !isDefer {
			Calls(n, false, func(c *ast.CallExpr) {
				if c.End() <= inner.Pos() {
					k, op := lk.fl.lockOp(c)
					switch {
					case op > 0:
						s[k] = op
					case op < 0:
						delete(s, k)
					}
				}
			})
		}
	}
	return s
}

// HeldAtNode returns the locks held when the (sub)node n of this body executes.
func (lk *Locks) HeldAtNode(n ast.Node) (LockSet, bool) {
	l, ok := lk.fl.Locate(n)
	if !ok {
		return nil, false
	}
	return lk.HeldBefore(l, n), true
}

// HeldAtExit returns the locks definitely held at every return of the body
// (used to recognise helpers that return with a lock held).
func (lk *Locks) HeldAtExit() LockSet {
	var acc LockSet
	for _, bi := range lk.fl.rpo {
		blk := lk.fl.G.Blocks[bi]
		for i, n := range blk.Nodes {
			if _, ok := n.(*ast.ReturnStmt); ok {
				s := lk.HeldBefore(Loc{bi, i}, nil)
				if acc == nil {
					acc = s
				} else {
					acc = meet(acc, s)
				}
			}
		}
	}
	if acc == nil {
		return LockSet{}
	}
	return acc
}
