package rules

import (
	"fmt"
	"go/ast"
	"go/token"
	"go/types"
	"strings"

	"hv/core"
)

// condWait describes one (*sync.Cond).Wait site and what the analysis derived for it.
type condWait struct {
	Fn        *core.Func
	Call      *ast.CallExpr
	CondField *types.Var   // the struct field holding the *sync.Cond
	Owner     *types.Named // struct that owns the cond field
	LockAlias *types.Var   // sibling mutex field passed to sync.NewCond, if any
	Loop      *ast.ForStmt
	Pred      map[*types.Var]bool // owner fields read by the loop predicate (one call level deep)
	Body      *ast.BlockStmt      // innermost body holding the Wait
}

func namedOf(t types.Type) *types.Named {
	if p, ok := t.(*types.Pointer); ok {
		t = p.Elem()
	}
	n, _ := t.(*types.Named)
	return n
}

// findCondWaits discovers every sync.Cond.Wait in the workspace (non-test code).
func findCondWaits(c *core.Ctx) []*condWait {
	p := c.P
	var out []*condWait
	for _, f := range p.Order {
		if f.Decl.Body == nil {
			continue
		}
		info := f.Info()
		core.Calls(f.Decl.Body, true, func(call *ast.CallExpr) {
			if !core.IsCallTo(info, call, "sync.Cond.Wait") {
				return
			}
			w := &condWait{Fn: f, Call: call, Pred: map[*types.Var]bool{}}
			recv := core.RecvExpr(call)
			w.CondField = core.FieldOf(info, recv)
			if w.CondField != nil {
				if s, ok := core.Unparen(recv).(*ast.SelectorExpr); ok {
					if tv, ok := info.Types[s.X]; ok {
						w.Owner = namedOf(tv.Type)
					}
				}
			}
			w.Body = core.BodyContaining(f.Decl, call)
			for _, n := range core.PathTo(w.Body, call) {
				if fs, ok := n.(*ast.ForStmt); ok {
					w.Loop = fs
				}
			}
			out = append(out, w)
		})
	}
	// lock alias: sync.NewCond(&x.mu) stored into the cond field
	for _, w := range out {
		if w.CondField == nil || w.Owner == nil {
			continue
		}
		for _, f := range p.Order {
			if f.Pkg.Types != w.Owner.Obj().Pkg() || f.Decl.Body == nil {
				continue
			}
			info := f.Info()
			check := func(lhsField *types.Var, rhs ast.Expr) {
				if lhsField != w.CondField {
					return
				}
				call, ok := core.Unparen(rhs).(*ast.CallExpr)
				if !ok || !core.IsCallTo(info, call, "sync.NewCond") || len(call.Args) != 1 {
					return
				}
				if u, ok := core.Unparen(call.Args[0]).(*ast.UnaryExpr); ok && u.Op == token.AND {
					if fld := core.FieldOf(info, u.X); fld != nil {
						w.LockAlias = fld
					}
				}
			}
			ast.Inspect(f.Decl.Body, func(x ast.Node) bool {
				switch v := x.(type) {
				case *ast.AssignStmt:
					if len(v.Lhs) == len(v.Rhs) {
						for i := range v.Lhs {
							check(core.FieldOf(info, v.Lhs[i]), v.Rhs[i])
						}
					}
				case *ast.KeyValueExpr:
					if id, ok := v.Key.(*ast.Ident); ok {
						if fld, ok := info.Uses[id].(*types.Var); ok && fld.IsField() {
							check(fld, v.Value)
						}
					}
				}
				return true
			})
		}
	}
	// predicate fields
	for _, w := range out {
		if w.Loop == nil || w.Loop.Cond == nil || w.Owner == nil {
			continue
		}
		info := w.Fn.Info()
		st, _ := w.Owner.Underlying().(*types.Struct)
		if st == nil {
			continue
		}
		own := map[*types.Var]bool{}
		for i := 0; i < st.NumFields(); i++ {
			own[st.Field(i)] = true
		}
		for _, a := range core.Accesses(info, w.Loop.Cond, own, false) {
			if a.Field != w.CondField {
				w.Pred[a.Field] = true
			}
		}
		core.Calls(w.Loop.Cond, false, func(call *ast.CallExpr) {
			callee := core.Callee(info, call)
			if callee == nil {
				return
			}
			tgt := p.ByObj[callee]
			if tgt == nil || tgt.Decl.Body == nil || tgt.Decl.Recv == nil {
				return
			}
			if namedOf(callee.Type().(*types.Signature).Recv().Type()) != w.Owner {
				return
			}
			c.Touch(tgt)
			for _, a := range core.Accesses(tgt.Info(), tgt.Decl.Body, own, true) {
				if a.Field != w.CondField {
					w.Pred[a.Field] = true
				}
			}
		})
	}
	return out
}

func (w *condWait) name() string {
	if w.Owner == nil || w.CondField == nil {
		return w.Fn.Key
	}
	return core.Short(w.Owner.Obj().Pkg().Path()) + "." + w.Owner.Obj().Name() + "." + w.CondField.Name()
}

// lockHeld reports whether the cond's lock (cond.L or its alias mutex on the same base) is write-held.
func (w *condWait) lockHeld(ls core.LockSet, base string) bool {
	if ls[base+"."+w.CondField.Name()+".L"] == 2 {
		return true
	}
	if w.LockAlias != nil && ls[base+"."+w.LockAlias.Name()] == 2 {
		return true
	}
	return false
}

// nonEnabling reports whether a write form can never make a waiter's predicate false
// (so it needs no signal): tail append, positive add/increment, assigning true to a
// wait-while-true flag.
func nonEnabling(form string) bool {
	switch form {
	case "append", "add+", "incdec+", "assign-true":
		return true
	}
	return false
}

// condWriterRules checks, for every writer of a wait predicate, the lost-wake-up discipline:
//
//	(1) the write happens with the cond's lock held, or a Broadcast/Signal issued while the
//	    lock is held follows the write on every path to the function's exit;
//	(2) a write that can enable a waiter is followed by a Broadcast/Signal on every path.
func condWriterRules(c *core.Ctx, w *condWait, rLock, rSignal *core.Rule) {
	p := c.P
	for _, f := range p.Order {
		if f.Pkg.Types != w.Owner.Obj().Pkg() || f.Decl.Body == nil {
			continue
		}
		info := f.Info()
		for _, body := range core.Bodies(f.Decl) {
			accs := core.Accesses(info, body, w.Pred, false)
			var writes []core.Access
			for _, a := range accs {
				if !a.Write {
					continue
				}
				// the base must be a value of the owner type
				if tv, ok := info.Types[a.Sel.X]; !ok || namedOf(tv.Type) != w.Owner {
					continue
				}
				writes = append(writes, a)
			}
			if len(writes) == 0 {
				continue
			}
			c.Touch(f)
			fl := core.NewFlow(p, info, body)
			// a helper that receives the owner as a parameter runs under its callers' locks: when every
			// call site holds the cond's lock on the argument, the helper's body starts with it held
			entry := core.LockSet{}
			if body == f.Decl.Body {
				sig := f.Obj.Type().(*types.Signature)
				cg := c.CG()
				for i := 0; i < sig.Params().Len(); i++ {
					if namedOf(sig.Params().At(i).Type()) != w.Owner {
						continue
					}
					callers := cg.In[f]
					all := len(callers) > 0
					for _, cs := range callers {
						if cs.Caller == nil || cs.Caller.Decl.Body == nil || i >= len(cs.Call.Args) {
							all = false
							continue
						}
						cb := core.BodyContaining(cs.Caller.Decl, cs.Call)
						cfl := core.NewFlow(p, cs.Caller.Info(), cb)
						clk := cfl.LockAnalysis(nil)
						held, ok := clk.HeldAtNode(cs.Call)
						if !ok || !w.lockHeld(held, core.ExprStr(cs.Call.Args[i])) {
							all = false
						}
					}
					if all {
						entry[sig.Params().At(i).Name()+"."+w.CondField.Name()+".L"] = 2
					}
				}
			}
			lk := fl.LockAnalysis(entry)
			// callees that signal this cond on every path (one level)
			signals := func(call *ast.CallExpr) bool {
				t := p.ByObj[core.Callee(info, call)]
				if t == nil || t.Decl.Body == nil || t == f {
					return false
				}
				ti := t.Info()
				tfl := core.NewFlow(p, ti, t.Decl.Body)
				return !tfl.ExitWithout(tfl.Entry(), nil, false, func(n ast.Node) bool {
					if _, isDefer := n.(*ast.DeferStmt); isDefer {
						return false
					}
					hit := false
					core.Calls(n, false, func(c2 *ast.CallExpr) {
						if core.IsCallTo(ti, c2, "sync.Cond.Broadcast", "sync.Cond.Signal") && core.FieldOf(ti, core.RecvExpr(c2)) == w.CondField {
							hit = true
						}
					})
					return hit
				})
			}
			for _, a := range writes {
				base := core.ExprStr(a.Sel.X)
				construct := fmt.Sprintf("%s:%s:%s", f.Key, a.Field.Name(), a.Form)
				loc, ok := fl.Locate(a.Node)
				if !ok {
					rLock.Undecided(construct, a.Node.Pos(), "write not located in CFG")
					continue
				}
				held := lk.HeldBefore(loc, a.Node)
				isSignal := func(n ast.Node, needLock bool) bool {
					if _, isDefer := n.(*ast.DeferStmt); isDefer {
						return false
					}
					found := false
					core.Calls(n, false, func(call *ast.CallExpr) {
						if !core.IsCallTo(info, call, "sync.Cond.Broadcast", "sync.Cond.Signal") {
							// a helper that signals the cond on all of its paths, called here
							if signals(call) {
								if needLock {
									l2, ok := fl.Locate(call)
									if !ok || !w.lockHeld(lk.HeldBefore(l2, call), base) {
										return
									}
								}
								found = true
							}
							return
						}
						r := core.RecvExpr(call)
						if core.FieldOf(info, r) != w.CondField {
							return
						}
						if needLock {
							l2, ok := fl.Locate(call)
							if !ok {
								return
							}
							if !w.lockHeld(lk.HeldBefore(l2, call), base) {
								return
							}
						}
						found = true
					})
					return found
				}
				underLock := w.lockHeld(held, base)
				lockedSignalFollows := !fl.ExitWithout(loc, nil, false, func(n ast.Node) bool { return isSignal(n, true) })
				anySignalFollows := !fl.ExitWithout(loc, nil, false, func(n ast.Node) bool { return isSignal(n, false) })
				if nonEnabling(a.Form) {
					rLock.Ok(construct, a.Node.Pos(), "write form "+a.Form+" cannot enable a waiter; locks held "+held.String())
					continue
				}
				rLock.Check(underLock || lockedSignalFollows, construct, a.Node.Pos(),
					fmt.Sprintf("underLock=%v lockedSignalFollows=%v held=%s", underLock, lockedSignalFollows, held),
					fmt.Sprintf("predicate field %s of %s is changed without %s.L held and no Broadcast/Signal under that lock follows on every path: a waiter between its predicate test and Wait misses the wake-up (held=%s)",
						a.Field.Name(), w.name(), w.CondField.Name(), held))
				rSignal.Check(anySignalFollows, construct, a.Node.Pos(),
					"Broadcast/Signal follows the write on every path",
					fmt.Sprintf("write that can enable a waiter of %s is not followed by Broadcast/Signal on every path to exit", w.name()))
			}
		}
	}
}

// condWaitShape checks one wait site: in a for loop with a predicate, lock held at Wait.
func condWaitShape(c *core.Ctx, w *condWait, r *core.Rule) {
	construct := w.Fn.Key + ":Wait:" + w.name()
	if w.CondField == nil || w.Owner == nil {
		r.Undecided(construct, w.Call.Pos(), "cond is not a struct field; idiom not modelled")
		return
	}
	if w.Loop == nil || w.Loop.Cond == nil {
		r.Bad(construct, w.Call.Pos(), "Wait is not inside a for loop that re-tests a predicate")
		return
	}
	if len(w.Pred) == 0 {
		r.Bad(construct, w.Call.Pos(), "loop predicate reads no state of the cond's owner")
		return
	}
	fl := core.NewFlow(c.P, w.Fn.Info(), w.Body)
	lk := fl.LockAnalysis(nil)
	held, ok := lk.HeldAtNode(w.Call)
	if !ok {
		r.Undecided(construct, w.Call.Pos(), "Wait not located in CFG")
		return
	}
	base := core.ExprStr(core.RecvExpr(w.Call).(*ast.SelectorExpr).X)
	var preds []string
	for f := range w.Pred {
		preds = append(preds, f.Name())
	}
	r.Check(w.lockHeld(held, base), construct, w.Call.Pos(),
		"in for loop, lock held "+held.String()+", predicate fields "+strings.Join(preds, ","),
		"cond lock not held at Wait: "+held.String())
}
