package core

import (
	"fmt"
	"go/ast"
	"go/types"
	"sort"
	"strings"
)

// GuardSpec names struct fields and the sibling lock(s) that are supposed to cover them.
type GuardSpec struct {
	Pkg    string   // short package path
	Type   string   // struct type name
	Fields []string // covered fields
	Locks  []string // acceptable lock paths relative to the struct value, e.g. "mu", "cond.L"
	// ReadsNeedLock: when false only writes are checked (fields read through atomics etc.).
	ReadsNeedLock bool
	// Exempt: function key -> reason; accesses inside are not checked (frozen, hand-confirmed).
	Exempt map[string]string
}

// GuardSite is one checked access.
type GuardSite struct {
	Fn     *Func
	Acc    Access
	Held   LockSet
	OK     bool
	Via    string // how it was discharged: "held", "callers-hold", "constructor", "exempt"
	Detail string
}

// syncCallee: callees that invoke a function-literal argument synchronously.
func syncInvoker(info *types.Info, call *ast.CallExpr) bool {
	f := Callee(info, call)
	if f == nil || f.Pkg() == nil {
		return false
	}
	switch f.Pkg().Path() {
	case "sort", "slices":
		return true
	case "sync":
		return f.Name() == "Range" || f.Name() == "Do"
	}
	return false
}

// litEntry computes the lockset a function literal starts with: the enclosing body's lockset
// at the literal when it is invoked synchronously there, otherwise empty.
func litEntryLocks(p *Prog, info *types.Info, encl *ast.BlockStmt, lk *Locks, fl *Flow, lit *ast.FuncLit) LockSet {
	ls, _ := litEntryLocksSync(p, info, encl, lk, fl, lit)
	return ls
}

// litEntryLocksSync also reports whether the literal runs synchronously inside its host body.
func litEntryLocksSync(p *Prog, info *types.Info, encl *ast.BlockStmt, lk *Locks, fl *Flow, lit *ast.FuncLit) (LockSet, bool) {
	sync := false
	var at ast.Node = lit
	for _, n := range PathTo(encl, lit) {
		switch v := n.(type) {
		case *ast.CallExpr:
			if Unparen(v.Fun) == ast.Expr(lit) {
				sync = true
				at = v
			}
			for _, a := range v.Args {
				if Unparen(a) == ast.Expr(lit) && syncInvoker(info, v) {
					sync = true
					at = v
				}
			}
		case *ast.GoStmt:
			if v.Call != nil && Unparen(v.Call.Fun) == ast.Expr(lit) {
				return LockSet{}, false
			}
		case *ast.DeferStmt:
			if v.Call != nil && Unparen(v.Call.Fun) == ast.Expr(lit) {
				// runs at exit: only locks whose release is itself deferred earlier would still be held; be conservative
				return LockSet{}, false
			}
		}
	}
	if !sync {
		// a literal bound to a local that is only ever called in this body (`ts := func(i int) ...;
		// ... ts(k) ...`, also from literals handed to synchronous invokers such as sort.Search):
		// it runs under whatever is held where it is called; use the locks held at every call
		if held, ok := localClosureLocks(info, encl, lk, lit); ok {
			return held, true
		}
		return LockSet{}, false
	}
	if held, ok := lk.HeldAtNode(at); ok {
		return held, true
	}
	return LockSet{}, true
}

// localClosureLocks handles `x := func(...) {...}` where x is used only as the function of call
// expressions inside encl: the meet of the locksets at the definition and at every call that sits
// directly in encl (calls inside nested literals are covered by the definition's lockset when the
// must-held set cannot shrink in between, which the caller-holds helpers this is used for satisfy).
func localClosureLocks(info *types.Info, encl *ast.BlockStmt, lk *Locks, lit *ast.FuncLit) (LockSet, bool) {
	var obj types.Object
	var def ast.Node
	ast.Inspect(encl, func(x ast.Node) bool {
		if as, ok := x.(*ast.AssignStmt); ok && len(as.Lhs) == 1 && len(as.Rhs) == 1 && Unparen(as.Rhs[0]) == ast.Expr(lit) {
			if id, isId := as.Lhs[0].(*ast.Ident); isId {
				if o := info.Defs[id]; o != nil {
					obj, def = o, as
				}
			}
		}
		return true
	})
	if obj == nil {
		return nil, false
	}
	onlyCalled := true
	var calls []*ast.CallExpr
	var stack []ast.Node
	ast.Inspect(encl, func(x ast.Node) bool {
		if x == nil {
			stack = stack[:len(stack)-1]
			return true
		}
		stack = append(stack, x)
		id, ok := x.(*ast.Ident)
		if !ok || info.Uses[id] != obj {
			return true
		}
		parent := stack[len(stack)-2]
		if call, isCall := parent.(*ast.CallExpr); isCall && Unparen(call.Fun) == ast.Expr(id) {
			// not under go / defer
			for _, n := range stack {
				switch n.(type) {
				case *ast.GoStmt, *ast.DeferStmt:
					onlyCalled = false
				}
			}
			calls = append(calls, call)
			return true
		}
		onlyCalled = false
		return true
	})
	if !onlyCalled || len(calls) == 0 {
		return nil, false
	}
	held, ok := lk.HeldAtNode(def)
	if !ok {
		return nil, false
	}
	acc := held
	for _, call := range calls {
		if h, found := lk.HeldAtNode(call); found {
			acc = meet(acc, h)
		}
	}
	return acc, true
}

// CheckGuarded runs the lockset discipline for one spec and returns every access site with its verdict.
func CheckGuarded(p *Prog, spec GuardSpec) []GuardSite {
	named, st := p.StructOf(spec.Pkg, spec.Type)
	fields := map[*types.Var]bool{}
	fm := StructFields(st)
	for _, n := range spec.Fields {
		f := fm[n]
		if f == nil {
			Failf("unresolved anchor: field %s.%s.%s", spec.Pkg, spec.Type, n)
		}
		fields[f] = true
	}
	for _, l := range spec.Locks {
		root := strings.Split(l, ".")[0]
		if fm[root] == nil {
			Failf("unresolved anchor: lock field %s.%s.%s", spec.Pkg, spec.Type, root)
		}
	}
	isOwner := func(info *types.Info, e ast.Expr) bool {
		tv, ok := info.Types[e]
		if !ok {
			return false
		}
		t := tv.Type
		if pt, ok := t.(*types.Pointer); ok {
			t = pt.Elem()
		}
		nt, _ := t.(*types.Named)
		return nt != nil && nt.Origin() == named
	}
	isOwnerType := func(t types.Type) bool {
		if pt, ok := t.(*types.Pointer); ok {
			t = pt.Elem()
		}
		nt, _ := t.(*types.Named)
		return nt != nil && nt.Origin() == named
	}
	heldOK := func(ls LockSet, base string, write bool) bool {
		for _, l := range spec.Locks {
			m := ls[base+"."+l]
			if m == 2 || (!write && m == 1) {
				return true
			}
		}
		return false
	}
	var sites []GuardSite
	// unprotected accesses per function whose base is the receiver: candidates for "callers hold the lock"
	needCaller := map[*Func][]int{}
	for _, f := range p.FuncsIn(spec.Pkg) {
		if f.Decl.Body == nil {
			continue
		}
		info := f.Info()
		if reason, ok := spec.Exempt[f.Key]; ok {
			for _, a := range Accesses(info, f.Decl.Body, fields, true) {
				if isOwner(info, a.Sel.X) {
					sites = append(sites, GuardSite{Fn: f, Acc: a, OK: true, Via: "exempt", Detail: reason})
				}
			}
			continue
		}
		// locals initialised from a composite literal of the owner type: not yet shared
		fresh := map[types.Object]bool{}
		ast.Inspect(f.Decl.Body, func(x ast.Node) bool {
			as, ok := x.(*ast.AssignStmt)
			if !ok || len(as.Lhs) != len(as.Rhs) {
				return true
			}
			for i, r := range as.Rhs {
				r = Unparen(r)
				if u, ok := r.(*ast.UnaryExpr); ok {
					r = u.X
				}
				if cl, ok := r.(*ast.CompositeLit); ok && isOwner(info, cl) {
					if o := ObjOf(info, as.Lhs[i]); o != nil {
						fresh[o] = true
					}
				}
			}
			return true
		})
		bodies := Bodies(f.Decl)
		flows := map[*ast.BlockStmt]*Flow{}
		locks := map[*ast.BlockStmt]*Locks{}
		syncBody := map[*ast.BlockStmt]bool{f.Decl.Body: true}
		// outer body first, literals afterwards (entry lockset derived from their host)
		for _, body := range bodies {
			fl := NewFlow(p, info, body)
			flows[body] = fl
			entry := LockSet{}
			if body != f.Decl.Body {
				// find the literal and its host body
				var lit *ast.FuncLit
				for _, l := range AllLits(f.Decl.Body) {
					if l.Body == body {
						lit = l
					}
				}
				host := f.Decl.Body
				for _, b := range bodies {
					if b != body && b.Pos() <= lit.Pos() && lit.End() <= b.End() && (b.End()-b.Pos()) < (host.End()-host.Pos()) {
						host = b
					}
				}
				if locks[host] != nil {
					var isSync bool
					entry, isSync = litEntryLocksSync(p, info, host, locks[host], flows[host], lit)
					syncBody[body] = isSync && syncBody[host]
				}
			}
			locks[body] = fl.LockAnalysis(entry)
		}
		for _, body := range bodies {
			fl, lk := flows[body], locks[body]
			for _, a := range Accesses(info, body, fields, false) {
				if !isOwner(info, a.Sel.X) {
					continue
				}
				if !a.Write && !spec.ReadsNeedLock {
					continue
				}
				base := ExprStr(a.Sel.X)
				if o := ObjOf(info, a.Sel.X); o != nil && fresh[o] {
					sites = append(sites, GuardSite{Fn: f, Acc: a, OK: true, Via: "constructor", Detail: "value is a fresh composite literal, not yet shared"})
					continue
				}
				loc, ok := fl.Locate(a.Node)
				if !ok {
					continue // dead code
				}
				held := lk.HeldBefore(loc, a.Node)
				if heldOK(held, base, a.Write) {
					sites = append(sites, GuardSite{Fn: f, Acc: a, Held: held, OK: true, Via: "held"})
					continue
				}
				gs := GuardSite{Fn: f, Acc: a, Held: held, OK: false,
					Detail: fmt.Sprintf("%s of %s.%s with none of {%s} held (held=%s)", map[bool]string{true: "write", false: "read"}[a.Write], spec.Type, a.Field.Name(), strings.Join(spec.Locks, ","), held)}
				sites = append(sites, gs)
				if pn, _ := ownerParam(f, isOwnerType); base == pn && pn != "" && syncBody[body] {
					needCaller[f] = append(needCaller[f], len(sites)-1)
				}
			}
		}
	}
	// helpers whose every static caller holds the lock on the receiver expression
	cg := p.CallGraph()
	var callersHold func(f *Func, write bool, depth int) (bool, string)
	callersHold = func(f *Func, write bool, depth int) (bool, string) {
		if depth > 3 {
			return false, "caller chain too deep"
		}
		callers := cg.CallersOf(f)
		if len(callers) == 0 {
			return false, "no callers"
		}
		for _, s := range callers {
			if s.Dynamic {
				return false, "called dynamically from " + s.Caller.Key
			}
			_, pidx := ownerParam(f, isOwnerType)
			var recv ast.Expr
			if pidx < 0 {
				recv = RecvExpr(s.Call)
			} else if pidx < len(s.Call.Args) {
				recv = s.Call.Args[pidx]
			}
			if recv == nil {
				return false, "owner value not passed at the call"
			}
			body := BodyContaining(s.Caller.Decl, s.Call)
			fl := NewFlow(p, s.Caller.Info(), body)
			lk := fl.LockAnalysis(nil)
			held, ok := lk.HeldAtNode(s.Call)
			if !ok {
				continue
			}
			if heldOK(held, ExprStr(recv), write) {
				continue
			}
			// the caller may itself be a helper
			if cpn, _ := ownerParam(s.Caller, isOwnerType); cpn != "" && ExprStr(recv) == cpn {
				if ok2, _ := callersHold(s.Caller, write, depth+1); ok2 {
					continue
				}
			}
			return false, fmt.Sprintf("caller %s at %s does not hold the lock (held=%s)", s.Caller.Key, p.Pos(s.Call.Pos()), held)
		}
		return true, ""
	}
	var fs []*Func
	for f := range needCaller {
		fs = append(fs, f)
	}
	sort.Slice(fs, func(i, j int) bool { return fs[i].Key < fs[j].Key })
	for _, f := range fs {
		for _, ix := range needCaller[f] {
			ok, why := callersHold(f, sites[ix].Acc.Write, 0)
			if ok {
				sites[ix].OK = true
				sites[ix].Via = "callers-hold"
				sites[ix].Detail = "every static caller holds the lock on the receiver at the call"
			} else {
				sites[ix].Detail += "; " + why
			}
		}
	}
	return sites
}

// ReportGuarded turns guard sites into obligations, one per (function, field, read/write-form).
func ReportGuarded(c *Ctx, r *Rule, sites []GuardSite) {
	for _, s := range sites {
		c.Touch(s.Fn)
		kind := "read"
		if s.Acc.Write {
			kind = "write:" + s.Acc.Form
		}
		construct := fmt.Sprintf("%s:%s:%s", s.Fn.Key, s.Acc.Field.Name(), kind)
		if s.OK {
			r.Ok(construct, s.Acc.Node.Pos(), s.Via+" "+s.Held.String()+" "+s.Detail)
		} else {
			r.Bad(construct, s.Acc.Node.Pos(), s.Detail)
		}
	}
}
