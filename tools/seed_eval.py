#!/usr/bin/env python3
"""Evaluates one seeded change (NOT a registered check; uses scratch copies only).
usage: seed_eval.py <seed-id> <prop> <patch.diff> <demo-file> <dest-path-in-repo> <go test cmd...> [--needs TEXT] [--full]
Steps: scratch copy of /repo -> demo passes on the unchanged tree -> apply patch -> builds -> demo fails ->
(optional --full: baseline suite with the patch) -> run every claimed hv check against the patched copy and
record which rules fire. Writes /verif/seeded/<seed-id>/{patch.diff,<demo>,meta.json}."""
import json, os, shutil, subprocess, sys, tempfile, time
args = sys.argv[1:]
full = "--full" in args
if full: args.remove("--full")
needs = ""
if "--needs" in args:
    i = args.index("--needs"); needs = args[i+1]; del args[i:i+2]
sid, prop, patch, demo, dest = args[:5]
cmd = args[5:]
tmp = tempfile.mkdtemp(prefix="seed_", dir="/tmp")
repo = os.path.join(tmp, "repo"); verif = os.path.join(tmp, "verif"); os.makedirs(verif)
env = {k: v for k, v in os.environ.items() if k not in ("GOFLAGS", "GOWORK", "GOTOOLCHAIN", "GOSUMDB")}
def run(c, cwd=repo, **kw):
    return subprocess.run(c, cwd=cwd, env=env, capture_output=True, text=True, **kw)
meta = {"seed": sid, "property": prop, "needs": needs, "ran": [], "at_repo_commit": subprocess.check_output(["git", "-C", "/repo", "log", "--format=%h", "-1"], text=True).strip()}
try:
    subprocess.check_call(["rsync", "-a", "--exclude", ".git", "/repo/", repo + "/"])
    shutil.copy("/verif/known_findings.json", verif)
    os.makedirs(os.path.dirname(os.path.join(repo, dest)), exist_ok=True)
    shutil.copy(demo, os.path.join(repo, dest))
    r0 = run(cmd)
    meta["demo_unchanged"] = "pass" if r0.returncode == 0 else "FAIL"
    meta["ran"].append({"cmd": " ".join(cmd), "tree": "unchanged", "exit": r0.returncode})
    a = run(["patch", "-p1", "-s", "--no-backup-if-mismatch", "-i", os.path.abspath(patch)])
    if a.returncode != 0:
        print("PATCH DOES NOT APPLY", a.stdout, a.stderr); sys.exit(2)
    b = run(["go", "build", "./..."]); b2 = run(["go", "build", "./..."], cwd=os.path.join(repo, "sdk/go/hydraidego"))
    meta["builds"] = b.returncode == 0 and b2.returncode == 0
    r1 = run(cmd)
    meta["demo_patched"] = "fail" if r1.returncode != 0 else "PASS"
    meta["ran"].append({"cmd": " ".join(cmd), "tree": "patched", "exit": r1.returncode, "tail": (r1.stdout + r1.stderr)[-600:]})
    if full:
        os.remove(os.path.join(repo, dest))
        rb = subprocess.run(["python3", "/verif/tools/run_baseline.py", repo], capture_output=True, text=True)
        meta["baseline_patched"] = rb.stdout.strip().splitlines()[:6]
        meta["ran"].append({"cmd": "tools/run_baseline.py <patched tree>", "exit": rb.returncode})
        shutil.copy(demo, os.path.join(repo, dest))
    os.remove(os.path.join(repo, dest))
    claimed = sorted(json.load(open("/verif/tools/claims.json")).keys())
    henv = dict(os.environ, HV_REPO=repo, HV_VERIF=verif)
    fired = {}
    t0 = time.time()
    procs = {p: subprocess.Popen(["/verif/bin/hv", "check", "-prop", p], env=henv, stdout=subprocess.PIPE, stderr=subprocess.STDOUT, text=True) for p in claimed}
    for p, pr in procs.items():
        out, _ = pr.communicate()
        rules = sorted({l.split("rule=")[1].split()[0] + " " + l.split("construct=")[1].split(" at ")[0] for l in out.splitlines() if l.strip().startswith("rule=") and "KNOWN-FINDING" not in l and not l.startswith("KNOWN")})
        viol = [l for l in out.splitlines() if l.startswith("VIOLATION")]
        if pr.returncode != 0 or viol:
            fired[p] = {"exit": pr.returncode, "rules": rules[:12]}
    meta["hv_fired"] = fired
    meta["detected_by_target_property"] = prop in fired and fired[prop]["exit"] == 1
    meta["detected_by_any"] = any(v["exit"] == 1 for v in fired.values())
    meta["hv_wall_s"] = round(time.time() - t0, 1)
finally:
    shutil.rmtree(tmp, ignore_errors=True)
out = f"/verif/seeded/{sid}"; os.makedirs(out, exist_ok=True)
shutil.copy(patch, os.path.join(out, "patch.diff")); shutil.copy(demo, os.path.join(out, os.path.basename(demo)))
meta["demo_file"] = os.path.basename(demo); meta["demo_dest"] = dest
json.dump(meta, open(os.path.join(out, "meta.json"), "w"), indent=1)
print(json.dumps({k: meta[k] for k in ("seed", "demo_unchanged", "builds", "demo_patched", "detected_by_target_property", "detected_by_any", "hv_fired")}, indent=1))
if full: print(meta.get("baseline_patched"))
