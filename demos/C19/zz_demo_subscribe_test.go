package gateway

import (
	"context"
	"fmt"
	"sync"
	"sync/atomic"
	"testing"
	"time"

	hydrapb "github.com/hydraide/hydraide/sdk/go/hydraidego/v3/hydraidepbgo"
	"github.com/stretchr/testify/assert"
	"github.com/stretchr/testify/require"
	"google.golang.org/grpc"
)

// demoRecordingStream is a fake server stream. Like a real grpc-go server
// stream it must not have SendMsg called concurrently from different
// goroutines; it records whether that ever happened.
type demoRecordingStream struct {
	grpc.ServerStream
	ctx context.Context

	inFlight   atomic.Int32
	overlapped atomic.Bool
	hold       time.Duration

	mu   sync.Mutex
	msgs []any
}

func (s *demoRecordingStream) Context() context.Context { return s.ctx }

func (s *demoRecordingStream) SendMsg(m any) error {
	if s.inFlight.Add(1) > 1 {
		s.overlapped.Store(true)
	}
	time.Sleep(s.hold)
	s.mu.Lock()
	s.msgs = append(s.msgs, m)
	s.mu.Unlock()
	s.inFlight.Add(-1)
	return nil
}

func (s *demoRecordingStream) received() []any {
	s.mu.Lock()
	defer s.mu.Unlock()
	return append([]any(nil), s.msgs...)
}

type demoEventStream struct{ *demoRecordingStream }

func (s demoEventStream) Send(m *hydrapb.SubscribeToEventsResponse) error { return s.SendMsg(m) }

type demoInfoStream struct{ *demoRecordingStream }

func (s demoInfoStream) Send(m *hydrapb.SubscribeToInfoResponse) error { return s.SendMsg(m) }

func demoSet(t *testing.T, rig *gatewayPatchTestRig, swampName, key, val string) {
	t.Helper()
	_, err := rig.gw.Set(context.Background(), &hydrapb.SetRequest{
		Swamps: []*hydrapb.SwampRequest{{
			IslandID:         rig.islandID,
			SwampName:        swampName,
			CreateIfNotExist: true,
			Overwrite:        true,
			KeyValues:        []*hydrapb.KeyValuePair{{Key: key, StringVal: &val}},
		}},
	})
	assert.NoError(t, err)
}

// startDemoSubscription runs fn (a blocking Subscribe* RPC handler) in a
// goroutine and returns a stop function that cancels the stream context and
// waits for the handler to return.
func startDemoSubscription(t *testing.T, fn func(ctx context.Context) error) (stop func()) {
	t.Helper()
	ctx, cancel := context.WithCancel(context.Background())
	done := make(chan error, 1)
	go func() { done <- fn(ctx) }()
	// let the handler register its callback with hydra
	time.Sleep(100 * time.Millisecond)
	return func() {
		cancel()
		select {
		case err := <-done:
			assert.NoError(t, err)
		case <-time.After(5 * time.Second):
			t.Error("subscription handler did not return after context cancel")
		}
	}
}

// D3: the EventTime delivered to subscribers must be the wall-clock time of
// the change.
func TestDemo_SubscribeToEvents_EventTimeIsWallClock(t *testing.T) {
	rig := newGatewayPatchTestRig(t, "zz-demo-sub", "eventtime", "any")
	swampName := "zz-demo-sub/eventtime/any"
	demoFreshSwamp(t, rig, swampName)

	// the swamp must exist so that event sending is switched on for it
	demoSet(t, rig, swampName, "seed", "x")

	rec := &demoRecordingStream{}
	stop := startDemoSubscription(t, func(ctx context.Context) error {
		rec.ctx = ctx
		return rig.gw.SubscribeToEvents(&hydrapb.SubscribeToEventsRequest{IslandID: rig.islandID, SwampName: swampName}, demoEventStream{rec})
	})

	before := time.Now()
	demoSet(t, rig, swampName, "k1", "v1")
	after := time.Now()
	stop()

	msgs := rec.received()
	require.NotEmpty(t, msgs, "subscriber received no event")
	ev, ok := msgs[0].(*hydrapb.SubscribeToEventsResponse)
	require.True(t, ok)
	got := ev.GetEventTime().AsTime()
	assert.WithinRange(t, got, before.Add(-2*time.Second), after.Add(2*time.Second),
		"EventTime sent to the subscriber is not the time of the change")
}

// D4: one subscription == one gRPC server stream; SendMsg on it must never
// be entered concurrently even when several writers change the swamp at once.
func TestDemo_SubscribeToEvents_NoConcurrentSendMsg(t *testing.T) {
	rig := newGatewayPatchTestRig(t, "zz-demo-sub", "concurrent-events", "any")
	swampName := "zz-demo-sub/concurrent-events/any"
	demoFreshSwamp(t, rig, swampName)
	demoSet(t, rig, swampName, "seed", "x")

	rec := &demoRecordingStream{hold: 20 * time.Millisecond}
	stop := startDemoSubscription(t, func(ctx context.Context) error {
		rec.ctx = ctx
		return rig.gw.SubscribeToEvents(&hydrapb.SubscribeToEventsRequest{IslandID: rig.islandID, SwampName: swampName}, demoEventStream{rec})
	})

	const writers = 8
	var wg sync.WaitGroup
	start := make(chan struct{})
	for i := 0; i < writers; i++ {
		wg.Add(1)
		go func(i int) {
			defer wg.Done()
			<-start
			demoSet(t, rig, swampName, fmt.Sprintf("w-%d", i), "v")
		}(i)
	}
	close(start)
	wg.Wait()
	stop()

	assert.Len(t, rec.received(), writers, "every write must still be delivered")
	assert.False(t, rec.overlapped.Load(), "SendMsg was called concurrently on one server stream")
}

func TestDemo_SubscribeToInfo_NoConcurrentSend(t *testing.T) {
	rig := newGatewayPatchTestRig(t, "zz-demo-sub", "concurrent-info", "any")
	swampName := "zz-demo-sub/concurrent-info/any"
	demoFreshSwamp(t, rig, swampName)
	demoSet(t, rig, swampName, "seed", "x")

	rec := &demoRecordingStream{hold: 20 * time.Millisecond}
	stop := startDemoSubscription(t, func(ctx context.Context) error {
		rec.ctx = ctx
		return rig.gw.SubscribeToInfo(&hydrapb.SubscribeToInfoRequest{IslandID: rig.islandID, SwampName: swampName}, demoInfoStream{rec})
	})

	const writers = 8
	var wg sync.WaitGroup
	start := make(chan struct{})
	for i := 0; i < writers; i++ {
		wg.Add(1)
		go func(i int) {
			defer wg.Done()
			<-start
			demoSet(t, rig, swampName, fmt.Sprintf("w-%d", i), "v")
		}(i)
	}
	close(start)
	wg.Wait()
	stop()

	assert.NotEmpty(t, rec.received(), "subscriber received no info message")
	assert.False(t, rec.overlapped.Load(), "Send was called concurrently on one server stream")
}
