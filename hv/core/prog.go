// Package core holds the program loader and the reusable analysis helpers
// (resolved callees, per-function CFG with dominators, must-held lock sets,
// a CHA-style call graph over the workspace) used by the per-property rules.
package core

import (
	"fmt"
	"go/ast"
	"go/token"
	"go/types"
	"os"
	"path/filepath"
	"sort"
	"strings"

	"golang.org/x/tools/go/packages"
	"golang.org/x/tools/go/ssa"
)

const (
	ModRoot = "github.com/hydraide/hydraide/"
	SDKRoot = "github.com/hydraide/hydraide/sdk/go/hydraidego/v3"
)

// RepoDir is the tree that is analysed. It is /repo unless HV_REPO is set
// (used only by the self-test, which analyses scratch copies).
func RepoDir() string {
	if d := os.Getenv("HV_REPO"); d != "" {
		return d
	}
	return "/repo"
}

// Fatal aborts the run with exit code 2: the checker could not decide.
// It is never a verdict about the property.
type Fatal struct{ Msg string }

func (f Fatal) Error() string { return f.Msg }

func Failf(format string, a ...any) {
	panic(Fatal{fmt.Sprintf(format, a...)})
}

// Func is one source function of the workspace.
type Func struct {
	Pkg  *packages.Package
	File *ast.File
	Decl *ast.FuncDecl
	Obj  *types.Func
	Key  string // short key, e.g. app/core/hydra/swamp/vigil.vigil.CeaseVigil
}

func (f *Func) Info() *types.Info { return f.Pkg.TypesInfo }

// Prog is the loaded, type-checked workspace.
type Prog struct {
	Fset    *token.FileSet
	Roots   []*packages.Package          // workspace packages (both modules)
	ByPath  map[string]*packages.Package // every package, dependencies included
	Funcs   map[string]*Func             // by short key
	ByObj   map[*types.Func]*Func
	Order   []*Func // deterministic order
	Dir     string
	nfiles  int
	cg      *CG
	ssaProg *ssa.Program
}

// Short strips the module prefix from an import path.
func Short(path string) string {
	if strings.HasPrefix(path, SDKRoot) {
		return "sdk" + strings.TrimPrefix(path, SDKRoot)
	}
	return strings.TrimPrefix(path, ModRoot)
}

// Long is the inverse of Short.
func Long(short string) string {
	if short == "sdk" || strings.HasPrefix(short, "sdk/") {
		return SDKRoot + strings.TrimPrefix(short, "sdk")
	}
	return ModRoot + short
}

// Load type-checks both workspace modules from source (dependencies too).
func Load() *Prog {
	dir := RepoDir()
	// go/packages resolves "go" through this process's PATH: put the 1.26 toolchain first.
	os.Setenv("PATH", "/opt/veriftools/go1.26.8/bin:"+os.Getenv("PATH"))
	env := []string{}
	for _, e := range os.Environ() {
		k := e
		if i := strings.IndexByte(e, '='); i >= 0 {
			k = e[:i]
		}
		switch k {
		case "GOFLAGS", "GOWORK", "GOSUMDB", "GOTOOLCHAIN", "GOPROXY", "PATH", "GOOS", "GOARCH", "CGO_ENABLED":
			continue
		}
		env = append(env, e)
	}
	env = append(env,
		"GOFLAGS=", "GOTOOLCHAIN=local", "GOPROXY=off", "GOOS=linux", "GOARCH=amd64",
		"PATH="+os.Getenv("PATH"))
	cfg := &packages.Config{
		Mode: packages.NeedName | packages.NeedFiles | packages.NeedCompiledGoFiles |
			packages.NeedImports | packages.NeedTypes | packages.NeedTypesSizes |
			packages.NeedSyntax | packages.NeedTypesInfo | packages.NeedDeps | packages.NeedModule,
		Dir: dir,
		Env: env,
	}
	pkgs, err := packages.Load(cfg, "./...", "./sdk/go/hydraidego/...")
	if err != nil {
		Failf("load: %v", err)
	}
	if len(pkgs) == 0 {
		Failf("load: zero packages")
	}
	p := &Prog{
		ByPath: map[string]*packages.Package{},
		Funcs:  map[string]*Func{},
		ByObj:  map[*types.Func]*Func{},
		Dir:    dir,
	}
	packages.Visit(pkgs, nil, func(pk *packages.Package) {
		p.ByPath[pk.PkgPath] = pk
		if p.Fset == nil && pk.Fset != nil {
			p.Fset = pk.Fset
		}
	})
	sort.Slice(pkgs, func(i, j int) bool { return pkgs[i].PkgPath < pkgs[j].PkgPath })
	for _, pk := range pkgs {
		if !strings.HasPrefix(pk.PkgPath, ModRoot) {
			continue
		}
		for _, e := range pk.Errors {
			Failf("type/load error in %s: %v", pk.PkgPath, e)
		}
		if pk.IllTyped {
			Failf("package %s is ill-typed", pk.PkgPath)
		}
		p.Roots = append(p.Roots, pk)
		for _, f := range pk.Syntax {
			p.nfiles++
			for _, d := range f.Decls {
				fd, ok := d.(*ast.FuncDecl)
				if !ok {
					continue
				}
				obj, _ := pk.TypesInfo.Defs[fd.Name].(*types.Func)
				if obj == nil {
					continue
				}
				fn := &Func{Pkg: pk, File: f, Decl: fd, Obj: obj, Key: FuncKey(obj)}
				if fd.Name.Name == "init" || fd.Name.Name == "_" {
					fn.Key = fmt.Sprintf("%s#%d", fn.Key, p.Fset.Position(fd.Pos()).Line)
				}
				p.Funcs[fn.Key] = fn
				p.ByObj[obj] = fn
				p.Order = append(p.Order, fn)
			}
		}
	}
	if len(p.Roots) < 60 {
		Failf("load: only %d workspace packages (expected >= 60)", len(p.Roots))
	}
	return p
}

// FuncKey renders the short key of a function object.
func FuncKey(obj *types.Func) string {
	pkg := ""
	if obj.Pkg() != nil {
		pkg = Short(obj.Pkg().Path())
	}
	sig, _ := obj.Type().(*types.Signature)
	if sig != nil && sig.Recv() != nil {
		return pkg + "." + RecvName(sig.Recv().Type()) + "." + obj.Name()
	}
	return pkg + "." + obj.Name()
}

// RecvName is the bare type name of a receiver (pointer and type args stripped).
func RecvName(t types.Type) string {
	if p, ok := t.(*types.Pointer); ok {
		t = p.Elem()
	}
	switch n := t.(type) {
	case *types.Named:
		return n.Obj().Name()
	case *types.Alias:
		return n.Obj().Name()
	}
	return t.String()
}

// Fn resolves an anchor; an unresolved anchor aborts the run (exit 2).
func (p *Prog) Fn(key string) *Func {
	f := p.Funcs[key]
	if f == nil {
		Failf("unresolved anchor: function %s", key)
	}
	return f
}

// FnOpt resolves an optional anchor.
func (p *Prog) FnOpt(key string) *Func { return p.Funcs[key] }

// Pkg resolves a workspace package by short path.
func (p *Prog) Pkg(short string) *packages.Package {
	pk := p.ByPath[Long(short)]
	if pk == nil {
		Failf("unresolved anchor: package %s", short)
	}
	return pk
}

// Named resolves a named type by short package path and name.
func (p *Prog) Named(short, name string) *types.Named {
	pk := p.Pkg(short)
	o := pk.Types.Scope().Lookup(name)
	if o == nil {
		Failf("unresolved anchor: type %s.%s", short, name)
	}
	n, ok := o.Type().(*types.Named)
	if !ok {
		Failf("anchor %s.%s is not a named type", short, name)
	}
	return n
}

// StructOf resolves a named struct type.
func (p *Prog) StructOf(short, name string) (*types.Named, *types.Struct) {
	n := p.Named(short, name)
	s, ok := n.Underlying().(*types.Struct)
	if !ok {
		Failf("anchor %s.%s is not a struct", short, name)
	}
	return n, s
}

// Const resolves a package-level constant.
func (p *Prog) Const(short, name string) *types.Const {
	pk := p.Pkg(short)
	c, _ := pk.Types.Scope().Lookup(name).(*types.Const)
	if c == nil {
		Failf("unresolved anchor: const %s.%s", short, name)
	}
	return c
}

// FuncsIn lists the functions of the given packages (short paths) in a stable order.
func (p *Prog) FuncsIn(shorts ...string) []*Func {
	want := map[string]bool{}
	for _, s := range shorts {
		p.Pkg(s)
		want[Long(s)] = true
	}
	var out []*Func
	for _, f := range p.Order {
		if want[f.Pkg.PkgPath] {
			out = append(out, f)
		}
	}
	return out
}

// FuncsUnder lists the functions of every workspace package whose short path has the prefix.
func (p *Prog) FuncsUnder(prefix string) []*Func {
	var out []*Func
	for _, f := range p.Order {
		if strings.HasPrefix(Short(f.Pkg.PkgPath), prefix) {
			out = append(out, f)
		}
	}
	return out
}

// Pos renders a position relative to the analysed tree.
func (p *Prog) Pos(pos token.Pos) string {
	if !pos.IsValid() {
		return "-"
	}
	ps := p.Fset.Position(pos)
	rel, err := filepath.Rel(p.Dir, ps.Filename)
	if err != nil || strings.HasPrefix(rel, "..") {
		rel = ps.Filename
	}
	return fmt.Sprintf("%s:%d", rel, ps.Line)
}

// Line is the line number of a position.
func (p *Prog) Line(pos token.Pos) int { return p.Fset.Position(pos).Line }

// FileOf is the repo-relative file of a position.
func (p *Prog) FileOf(pos token.Pos) string {
	ps := p.Fset.Position(pos)
	rel, err := filepath.Rel(p.Dir, ps.Filename)
	if err != nil {
		return ps.Filename
	}
	return rel
}

// NumFiles is the number of workspace source files parsed.
func (p *Prog) NumFiles() int { return p.nfiles }

// EnclosingFunc finds the workspace function whose declaration contains pos.
func (p *Prog) EnclosingFunc(pos token.Pos) *Func {
	for _, f := range p.Order {
		if f.Decl.Pos() <= pos && pos < f.Decl.End() {
			return f
		}
	}
	return nil
}
