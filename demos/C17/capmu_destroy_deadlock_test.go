package swamp

import (
	"sync"
	"testing"
	"time"

	"github.com/hydraide/hydraide/app/core/hydra/swamp/treasure"
	"github.com/hydraide/hydraide/app/core/hydra/swamp/treasure/msgpackpatch"
	"github.com/stretchr/testify/require"
)

// TestDemoCapMuDestroyDeadlock demonstrates a lock-order deadlock between
// the Cap serialisation mutex (capMu) and the vigil drain in Destroy().
//
// Two Cap-bearing operations run on the same swamp, each wrapped in
// BeginVigil / CeaseVigil exactly like the gateway does:
//
//	A: CloneAndDeleteMatchingTreasures(capPredicate != nil) that shifts the
//	   LAST record out of the swamp, so the auto-destroy tail
//	   (CeaseVigil + Destroy) runs.
//	B: PatchExpired(capPredicate != nil), which starts with capMu.Lock().
//
// Ordering is forced without sleeps: A's selection predicate runs while A
// holds capMu; inside it we let B begin its vigil and only then let A
// continue. From that point B cannot obtain capMu before A releases it.
// If A calls Destroy() while still holding capMu, Destroy waits forever
// for B's vigil and B waits forever for capMu.
//
// The test only asserts that both operations finish within a timeout, so
// it passes on any implementation that does not deadlock.
func TestDemoCapMuDestroyDeadlock(t *testing.T) {
	// patchTestSwamp already called BeginVigil() once; that vigil stands in
	// for the gateway's BeginVigil() of operation A (A's goroutine defers
	// the matching CeaseVigil below).
	s := patchTestSwamp(t, "capmu", "destroy-deadlock")
	seedMsgpack(t, s, "only-one", map[string]any{"claimed": false})

	aHoldsCapMu := make(chan struct{})
	bVigilBegun := make(chan struct{})
	var once sync.Once

	// Selection predicate of A: invoked by beacon.ShiftMatching, i.e. after
	// CloneAndDeleteMatchingTreasures acquired capMu.
	predicate := func(_ treasure.Treasure) bool {
		once.Do(func() {
			close(aHoldsCapMu)
			<-bVigilBegun
		})
		return true
	}
	capPredicate := func(_ treasure.Treasure) bool { return false }
	patchOps := []msgpackpatch.Op{{Kind: msgpackpatch.OpSet, Path: "claimed", Value: encMsgpack(t, true)}}

	aDone := make(chan struct{})
	bDone := make(chan struct{})

	var (
		aShifted []treasure.Treasure
		aErr     error
		bErr     error
	)

	// Operation A (gateway ShiftMatching flow).
	go func() {
		defer close(aDone)
		defer s.CeaseVigil() // gateway: defer swampInterface.CeaseVigil()
		aShifted, _, aErr = s.CloneAndDeleteMatchingTreasures(
			BeaconTypeKey, IndexOrderAsc, 100, predicate, capPredicate, 10,
		)
	}()

	// Operation B (gateway PatchExpired flow with Cap).
	go func() {
		defer close(bDone)
		<-aHoldsCapMu
		s.BeginVigil()
		defer s.CeaseVigil()
		close(bVigilBegun)
		_, _, bErr = s.PatchExpired(10, patchOps, nil, nil, nil, capPredicate, 10)
	}()

	const timeout = 5 * time.Second
	deadline := time.After(timeout)
	aFinished, bFinished := false, false
	for !(aFinished && bFinished) {
		select {
		case <-aDone:
			aFinished = true
			aDone = nil
		case <-bDone:
			bFinished = true
			bDone = nil
		case <-deadline:
			// Break the cycle so the stuck goroutines do not leak into the
			// rest of the package's tests: compensate B's vigil, which lets
			// A's Destroy() return and release capMu, which unblocks B.
			s.CeaseVigil()
			unwound := true
			if !aFinished {
				select {
				case <-aDone:
				case <-time.After(timeout):
					unwound = false
				}
			}
			if !bFinished {
				select {
				case <-bDone:
				case <-time.After(timeout):
					unwound = false
				}
			}
			t.Fatalf("DEADLOCK: after %s CloneAndDeleteMatchingTreasures finished=%v, PatchExpired finished=%v "+
				"(Destroy() called under capMu waits for the vigil of an operation blocked on capMu); "+
				"goroutines unwound after forced CeaseVigil=%v",
				timeout, aFinished, bFinished, unwound)
		}
	}

	require.NoError(t, aErr)
	require.NoError(t, bErr)
	require.Len(t, aShifted, 1, "A must have shifted the only record")
}
