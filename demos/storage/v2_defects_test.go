package v2

import (
	"bytes"
	"fmt"
	"os"
	"os/signal"
	"path/filepath"
	"runtime"
	"strings"
	"syscall"
	"testing"
)

func demoWrite(t *testing.T, path string, entries []Entry, flushEach bool) {
	t.Helper()
	w, err := NewFileWriterWithName(path, DefaultMaxBlockSize, "demo/storage/swamp")
	if err != nil {
		t.Fatal(err)
	}
	for _, e := range entries {
		if err := w.WriteEntry(e); err != nil {
			t.Fatal(err)
		}
		if flushEach {
			if err := w.Flush(); err != nil {
				t.Fatal(err)
			}
		}
	}
	if err := w.Close(); err != nil {
		t.Fatal(err)
	}
}

func demoLoad(t *testing.T, path string) (map[string][]byte, error) {
	t.Helper()
	r, err := NewFileReader(path)
	if err != nil {
		return nil, err
	}
	defer r.Close()
	idx, _, err := r.LoadIndex()
	return idx, err
}

// C03: a leftover .compact temp file from an interrupted compaction must not leak into the compacted file.
func TestDemoCompactAppendsToStaleTemp(t *testing.T) {
	dir := t.TempDir()
	path := filepath.Join(dir, "s.hyd")
	demoWrite(t, path, []Entry{{OpInsert, "a", []byte("1")}, {OpInsert, "b", []byte("2")}, {OpDelete, "a", nil}, {OpInsert, "c", []byte("3")}, {OpDelete, "c", nil}}, false)
	// leftover temp of an earlier, interrupted compaction (old state that contained key "ghost")
	demoWrite(t, GetCompactionTempPath(path), []Entry{{OpInsert, "ghost", []byte("old")}, {OpInsert, "b", []byte("stale")}}, false)
	c := NewCompactor(path, DefaultMaxBlockSize, 0.1)
	res, err := c.ForceCompact()
	if err != nil || res == nil || !res.Compacted {
		t.Fatalf("compaction did not run: %v %+v", err, res)
	}
	idx, err := demoLoad(t, path)
	if err != nil {
		t.Fatal(err)
	}
	if len(idx) != 1 || string(idx["b"]) != "2" {
		keys := []string{}
		for k, v := range idx {
			keys = append(keys, k+"="+string(v))
		}
		t.Fatalf("state changed by compaction: got {%s}, want {b=2}", strings.Join(keys, ","))
	}
}

// C01: a key the format cannot encode (>65535 bytes) must be rejected, not stored in a form that reads back differently.
func TestDemoOversizedKeyCorruptsFile(t *testing.T) {
	dir := t.TempDir()
	path := filepath.Join(dir, "s.hyd")
	w, err := NewFileWriterWithName(path, DefaultMaxBlockSize, "demo/storage/swamp")
	if err != nil {
		t.Fatal(err)
	}
	big := strings.Repeat("k", 70000)
	_ = w.WriteEntry(Entry{OpInsert, "small", []byte("v")})
	werr := w.WriteEntry(Entry{OpInsert, big, []byte("payload")})
	_ = w.WriteEntry(Entry{OpInsert, "after", []byte("w")})
	if err := w.Close(); err != nil {
		t.Fatal(err)
	}
	idx, lerr := demoLoad(t, path)
	if werr != nil {
		// rejected: the rest must be intact
		if lerr != nil || string(idx["small"]) != "v" || string(idx["after"]) != "w" || len(idx) != 2 {
			t.Fatalf("oversized key rejected (%v) but file does not read back: err=%v n=%d", werr, lerr, len(idx))
		}
		return
	}
	if lerr != nil {
		t.Fatalf("oversized key was accepted and the whole file is now unreadable: %v", lerr)
	}
	if string(idx[big]) != "payload" || string(idx["small"]) != "v" || string(idx["after"]) != "w" {
		t.Fatalf("oversized key was accepted but reads back differently (n=%d)", len(idx))
	}
}

// C01: more entries in one block than the 16-bit entry count can hold.
func TestDemoEntryCountOverflow(t *testing.T) {
	dir := t.TempDir()
	path := filepath.Join(dir, "s.hyd")
	w, err := NewFileWriterWithName(path, 4*1024*1024, "demo/storage/swamp") // large block: > 65535 tiny entries fit
	if err != nil {
		t.Fatal(err)
	}
	const n = 70000
	for i := 0; i < n; i++ {
		if err := w.WriteEntry(Entry{OpInsert, fmt.Sprintf("k%05d", i), []byte{1}}); err != nil {
			t.Fatal(err)
		}
	}
	if err := w.Close(); err != nil {
		t.Fatal(err)
	}
	idx, err := demoLoad(t, path)
	if err != nil {
		t.Fatalf("load failed: %v", err)
	}
	if len(idx) != n {
		t.Fatalf("wrote %d entries, read back %d (block entry count wrapped at 16 bits)", n, len(idx))
	}
}

// C02: a torn tail (crash in the middle of the last block write) must read as end-of-data, and
// writes made after that recovery must be readable.
func TestDemoTornTail(t *testing.T) {
	dir := t.TempDir()
	path := filepath.Join(dir, "s.hyd")
	payload := bytes.Repeat([]byte("0123456789abcdef"), 64)
	demoWrite(t, path, []Entry{{OpInsert, "a", payload}, {OpInsert, "b", payload}, {OpInsert, "c", payload}}, true)
	fi, _ := os.Stat(path)
	if err := os.Truncate(path, fi.Size()-20); err != nil { // tear the last block
		t.Fatal(err)
	}
	idx, err := demoLoad(t, path)
	if err != nil {
		t.Fatalf("torn tail makes the swamp unloadable: %v", err)
	}
	if len(idx) != 2 || idx["a"] == nil || idx["b"] == nil {
		t.Fatalf("torn tail: got %d records, want the 2 complete ones", len(idx))
	}
	// recovery: append after the crash
	w, err := NewFileWriter(path, DefaultMaxBlockSize)
	if err != nil {
		t.Fatal(err)
	}
	if err := w.WriteEntry(Entry{OpInsert, "d", []byte("after-crash")}); err != nil {
		t.Fatal(err)
	}
	if err := w.Close(); err != nil {
		t.Fatal(err)
	}
	idx, err = demoLoad(t, path)
	if err != nil {
		t.Fatalf("file written after recovery is unreadable: %v", err)
	}
	if string(idx["d"]) != "after-crash" || len(idx) != 3 {
		t.Fatalf("write made after recovery is lost: n=%d d=%q", len(idx), idx["d"])
	}
}

// C04: a forged block size must not make the loader allocate memory out of proportion to the file.
func TestDemoForgedBlockSizeAllocation(t *testing.T) {
	dir := t.TempDir()
	path := filepath.Join(dir, "s.hyd")
	demoWrite(t, path, []Entry{{OpInsert, "a", []byte("1")}}, false)
	data, _ := os.ReadFile(path)
	r, _ := NewFileReader(path)
	off := r.GetHeader().DataStartOffset()
	r.Close()
	// CompressedSize := 0x7FFFFFF0
	data[off+0], data[off+1], data[off+2], data[off+3] = 0xF0, 0xFF, 0xFF, 0x7F
	if err := os.WriteFile(path, data, 0644); err != nil {
		t.Fatal(err)
	}
	var m0, m1 runtime.MemStats
	runtime.ReadMemStats(&m0)
	_, _ = demoLoad(t, path)
	runtime.ReadMemStats(&m1)
	if grown := m1.TotalAlloc - m0.TotalAlloc; grown > 64<<20 {
		t.Fatalf("loading a %d-byte file allocated %d MiB", len(data), grown>>20)
	}
}

// C25: a partially performed block write (disk full) must not hide records written after the fault cleared.
func TestDemoPartialWriteHidesLaterRecords(t *testing.T) {
	dir := t.TempDir()
	path := filepath.Join(dir, "s.hyd")
	signal.Ignore(syscall.SIGXFSZ)
	w, err := NewFileWriterWithName(path, DefaultMaxBlockSize, "demo/storage/swamp")
	if err != nil {
		t.Fatal(err)
	}
	if err := w.WriteEntry(Entry{OpInsert, "before", []byte("1")}); err != nil {
		t.Fatal(err)
	}
	if err := w.Flush(); err != nil {
		t.Fatal(err)
	}
	fi, _ := os.Stat(path)
	// "disk full" 24 bytes into the next block: header (16) + 8 bytes of data get written, the rest fails
	var old syscall.Rlimit
	syscall.Getrlimit(syscall.RLIMIT_FSIZE, &old)
	lim := syscall.Rlimit{Cur: uint64(fi.Size()) + 24, Max: old.Max}
	if err := syscall.Setrlimit(syscall.RLIMIT_FSIZE, &lim); err != nil {
		t.Skip("cannot set RLIMIT_FSIZE:", err)
	}
	incompressible := make([]byte, 4096)
	for i := range incompressible {
		incompressible[i] = byte(i*131 + i/7)
	}
	_ = w.WriteEntry(Entry{OpInsert, "during", incompressible})
	ferr := w.Flush()
	syscall.Setrlimit(syscall.RLIMIT_FSIZE, &old) // the fault clears
	if ferr == nil {
		t.Skip("the limited write did not fail")
	}
	if err := w.WriteEntry(Entry{OpInsert, "later", []byte("2")}); err != nil {
		t.Fatalf("write after the fault cleared failed: %v", err)
	}
	if err := w.Close(); err != nil {
		t.Fatalf("close after the fault cleared failed: %v", err)
	}
	idx, err := demoLoad(t, path)
	if err != nil {
		t.Fatalf("after a partial write the file is unreadable (earlier and later records hidden): %v", err)
	}
	if string(idx["before"]) != "1" || string(idx["later"]) != "2" {
		t.Fatalf("records hidden after a partial write: before=%q later=%q", idx["before"], idx["later"])
	}
}
