package rules

import (
	"go/token"
	"strings"
	"go/ast"
	"go/types"

	"hv/core"
)

func init() { register("C23", c23) }

const (
	pkgMigrator = "app/core/hydra/swamp/chronicler/v2/migrator"
	pkgTreasure = "app/core/hydra/swamp/treasure"
)

// gobTypesOf lists the static types handed to gob Encode/Decode calls in a function.
func gobTypesOf(f *core.Func, method string) []types.Type {
	info := f.Info()
	var out []types.Type
	core.Calls(f.Decl.Body, true, func(call *ast.CallExpr) {
		fo := core.Callee(info, call)
		if fo == nil || fo.Name() != method || len(call.Args) != 1 {
			return
		}
		q := core.QName(fo)
		if q != "encoding/gob.Encoder.Encode" && q != "encoding/gob.Decoder.Decode" {
			return
		}
		t := info.TypeOf(call.Args[0])
		if pt, ok := t.(*types.Pointer); ok {
			t = pt.Elem()
		}
		out = append(out, t)
	})
	return out
}

func c23(c *core.Ctx) {
	p := c.P
	c.Explain = "Static necessary conditions for a safe V1->V2 migration: the legacy files are deleted only after writeV2File succeeded and, when verification is enabled, only after verifyMigration succeeded; a failed verification removes the new file; writeV2File reports success only after the writer's Close (fsync) succeeded and removes the partial file on failure; the migrator decodes legacy records with the same Go type the engine encodes, and passes the swamp name read from the legacy meta file to the new file."
	c.NotCovered = []string{"equality of the migrated records with what the legacy loader would load (both resolve duplicate keys by directory / map iteration order)", "injected read/write failures at run time", "a pre-existing .hyd at the target path (it is appended to)"}

	mig := c.Fn(pkgMigrator + ".Migrator.migrateSwamp")
	info := mig.Info()
	fl := core.NewFlow(p, info, mig.Decl.Body)
	var write, verify *ast.CallExpr
	var deletes []*ast.CallExpr
	core.Calls(mig.Decl.Body, false, func(call *ast.CallExpr) {
		switch {
		case core.IsWsCallTo(info, call, pkgMigrator+".Migrator.writeV2File"):
			write = call
		case core.IsWsCallTo(info, call, pkgMigrator+".Migrator.verifyMigration"):
			verify = call
		case core.IsWsCallTo(info, call, pkgMigrator+".Migrator.deleteV1Files"):
			deletes = append(deletes, call)
		}
	})
	r := c.Rule("C23.order", "deleteV1Files for a non-empty swamp is reachable only after writeV2File succeeded and not from the failure branch of verifyMigration; the verify-failure branch removes the new .hyd file; the empty-swamp deletion is guarded by the entry count being zero", 4)
	if write == nil || verify == nil || len(deletes) == 0 {
		r.Bad(mig.Key+":steps", mig.Decl.Pos(), "migrateSwamp no longer has write, verify and delete steps")
	} else {
		lw := fl.MustLocate(write)
		for _, d := range deletes {
			ld := fl.MustLocate(d)
			if fl.Dominates(lw, ld) {
				ok, why := fl.OnlyAfterSuccess(mig.Decl.Body, write, d)
				r.Check(ok, mig.Key+":write->delete", d.Pos(), "legacy files deleted only after the new file was written successfully", "legacy files can be deleted although writing the new file failed ("+why+")")
				// not reachable from verify's failure edges
				edges, okE := fl.FailEdgesOfCall(mig.Decl.Body, verify)
				bad, _ := fl.RunsWithoutSuccess(mig.Decl.Body, verify, d)
				bad = bad || !okE
				r.Check(!bad, mig.Key+":verify->delete", d.Pos(), "not reachable when verification failed", "legacy files can be deleted although verification of the new file failed")
				// verify failure removes the new file
				removed := okE
				for e := range edges {
					tgt := int(fl.G.Blocks[e.From].Succs[e.Succ].Index)
					if fl.ExitWithout(core.Loc{B: tgt, I: -1}, nil, false, core.NodeHasCall(func(c2 *ast.CallExpr) bool { return core.IsCallTo(info, c2, "os.Remove") })) {
						removed = false
					}
				}
				r.Check(removed, mig.Key+":verify-failure-removes-new-file", verify.Pos(), "os.Remove(new file) on every path after a failed verification", "a new file that failed verification is left in place next to the legacy data")
			} else {
				// the empty-swamp branch: must be guarded by len(entries) == 0
				guarded := holdsAt(fl, mig.Decl.Body, ld, func(ft core.Fact) bool {
					return ft.Truth && core.ExprStr(ft.Expr) == "len(entries) == 0"
				})
				r.Check(guarded, mig.Key+":empty-swamp-delete", d.Pos(), "only when nothing was loaded", "legacy files are deleted before the new file exists on a branch that is not the empty-swamp case")
			}
		}
	}

	rW := c.Rule("C23.write", "writeV2File returns nil only after writer.Close() succeeded, removes the partial file on every failing exit, and receives the swamp name loaded from the legacy meta file", 3)
	{
		w := c.Fn(pkgMigrator + ".Migrator.writeV2File")
		winfo := w.Info()
		wfl := core.NewFlow(p, winfo, w.Decl.Body)
		var cl *ast.CallExpr
		core.Calls(w.Decl.Body, false, func(call *ast.CallExpr) {
			if core.IsWsCallTo(winfo, call, pkgV2+".FileWriter.Close") && core.ErrObjOfCall(winfo, w.Decl.Body, call) != nil {
				cl = call
			}
		})
		ok := cl != nil
		leak := false
		wfl.Nodes(func(l core.Loc, n ast.Node) {
			ret, isRet := n.(*ast.ReturnStmt)
			if !isRet || len(ret.Results) != 1 {
				return
			}
			if core.IsNilIdent(winfo, ret.Results[0]) {
				if cl == nil {
					return
				}
				if good, _ := wfl.OnlyAfterSuccess(w.Decl.Body, cl, ret); !good {
					ok = false
				}
				return
			}
		})
		rW.Check(ok, w.Key+":nil-only-after-close", w.Decl.Pos(), "success only after Close (flush + fsync) succeeded", "writeV2File can report success although the new file was not closed/synced successfully: the legacy data is then deleted")
		// failing exits after the writer exists remove the file
		var mk *ast.CallExpr
		core.Calls(w.Decl.Body, false, func(call *ast.CallExpr) {
			if core.IsWsCallTo(winfo, call, pkgV2+".NewFileWriterWithName") {
				mk = call
			}
		})
		if mk != nil {
			lm := wfl.MustLocate(mk)
			mkEdges, _ := wfl.FailEdgesOfCall(w.Decl.Body, mk)
			wfl.Nodes(func(l core.Loc, n ast.Node) {
				ret, isRet := n.(*ast.ReturnStmt)
				if !isRet || len(ret.Results) != 1 || core.IsNilIdent(winfo, ret.Results[0]) || !wfl.Dominates(lm, l) {
					return
				}
				for e := range mkEdges {
					if wfl.BlockDom(int(wfl.G.Blocks[e.From].Succs[e.Succ].Index), l.B) {
						return // creation itself failed
					}
				}
				found := false
				wfl.Nodes(func(l2 core.Loc, n2 ast.Node) {
					if core.NodeHasCall(func(c2 *ast.CallExpr) bool { return core.IsCallTo(winfo, c2, "os.Remove") })(n2) && wfl.Dominates(l2, l) && wfl.Dominates(lm, l2) {
						found = true
					}
				})
				if !found {
					leak = true
				}
			})
		}
		rW.Check(mk != nil && !leak, w.Key+":failing-exits-remove-file", w.Decl.Pos(), "partial file removed on failure", "a failing exit of writeV2File leaves a partial .hyd behind")
		// name propagation in migrateSwamp
		nameOK := false
		if write != nil && len(write.Args) == 3 {
			if obj := core.ObjOf(info, write.Args[2]); obj != nil {
				ast.Inspect(mig.Decl.Body, func(x ast.Node) bool {
					if as, ok := x.(*ast.AssignStmt); ok && len(as.Rhs) == 1 && len(as.Lhs) >= 1 && core.ObjOf(info, as.Lhs[0]) == obj {
						if call, ok := core.Unparen(as.Rhs[0]).(*ast.CallExpr); ok && core.IsWsCallTo(info, call, pkgMigrator+".Migrator.loadSwampNameFromMeta") {
							nameOK = true
						}
					}
					return true
				})
			}
		}
		rW.Check(nameOK, mig.Key+":name-from-meta", mig.Decl.Pos(), "swamp name from the legacy meta file", "the migrated file does not carry the swamp name of the legacy swamp")
	}

	rA := c.Rule("C23.alias", "the record bytes the migrator keeps (Entry.Data) own their memory: every byte-slice reader method of the migrator returns a fresh copy, or - when one returns a window of its input - every buffer handed to a decoder in the migrator is fresh per call (no caller-supplied, reused destination buffer)", 2)
	{
		// reader methods returning []byte from a []byte field
		aliasing := []string{}
		nReaders := 0
		for _, f := range p.FuncsIn(pkgMigrator) {
			if f.Decl.Body == nil || f.Decl.Recv == nil {
				continue
			}
			sig := f.Obj.Type().(*types.Signature)
			if sig.Results().Len() == 0 || sig.Results().At(0).Type().String() != "[]byte" {
				continue
			}
			fi := f.Info()
			// receiver has a []byte field that is sliced in the body
			ast.Inspect(f.Decl.Body, func(x ast.Node) bool {
				ret, ok := x.(*ast.ReturnStmt)
				if !ok || len(ret.Results) == 0 {
					return true
				}
				e := core.Unparen(ret.Results[0])
				if id, isId := e.(*ast.Ident); isId {
					if def := localDef(fi, f.Decl.Body, fi.Uses[id]); def != nil {
						e = core.Unparen(def)
					}
				}
				if se, isSlice := e.(*ast.SliceExpr); isSlice {
					if fld := core.FieldOf(fi, se.X); fld != nil && fld.Type().String() == "[]byte" {
						aliasing = append(aliasing, f.Key)
					}
				}
				return true
			})
			touches := false
			ast.Inspect(f.Decl.Body, func(x ast.Node) bool {
				if se, ok := x.(*ast.SliceExpr); ok {
					if fld := core.FieldOf(fi, se.X); fld != nil && fld.Type().String() == "[]byte" {
						touches = true
					}
				}
				return true
			})
			if touches {
				nReaders++
				c.Touch(f)
			}
		}
		// decoders with caller-supplied destination
		reused := []string{}
		for _, f := range p.FuncsIn(pkgMigrator) {
			if f.Decl.Body == nil {
				continue
			}
			fi := f.Info()
			core.Calls(f.Decl.Body, true, func(call *ast.CallExpr) {
				fo := core.Callee(fi, call)
				if fo == nil || fo.Pkg() == nil || p.ByObj[fo] != nil {
					return
				}
				// library decode functions of the shape f(dst, src []byte) ([]byte, error)
				sg, _ := fo.Type().(*types.Signature)
				if sg == nil || sg.Params().Len() < 2 || sg.Results().Len() < 1 {
					return
				}
				if sg.Params().At(0).Type().String() != "[]byte" || sg.Params().At(1).Type().String() != "[]byte" || sg.Results().At(0).Type().String() != "[]byte" {
					return
				}
				if !strings.Contains(strings.ToLower(fo.Name()), "decode") && !strings.Contains(strings.ToLower(fo.Name()), "decompress") && !strings.Contains(strings.ToLower(fo.Name()), "uncompress") {
					return
				}
				if !core.IsNilIdent(fi, call.Args[0]) {
					reused = append(reused, f.Key+":"+core.QName(fo))
				}
			})
		}
		rA.Check(nReaders >= 1, pkgMigrator+":byte-readers", token.NoPos, "byte-slice readers found", "no byte-slice reader found in the migrator")
		bad := len(aliasing) > 0 && len(reused) > 0
		rA.Check(!bad, pkgMigrator+":record-bytes-own-their-memory", token.NoPos, "readers copy, or decode buffers are fresh per call", "record bytes are windows of the decode buffer ("+strings.Join(aliasing, ", ")+" returns a sub-slice) and that buffer is supplied by the caller and reused ("+strings.Join(reused, ", ")+"): the next chunk overwrites the Data of records collected from earlier chunks; keys stay right, so key-only verification passes and the legacy files may be deleted")
	}

	rT := c.Rule("C23.type", "the migrator gob-decodes legacy records into the same Go type (treasure.Model) that treasure.ConvertToByte encodes and treasure.LoadFromByte decodes", 3)
	model := p.Named(pkgTreasure, "Model")
	for _, it := range []struct{ key, method string }{
		{pkgTreasure + ".treasure.ConvertToByte", "Encode"},
		{pkgTreasure + ".treasure.LoadFromByte", "Decode"},
		{pkgMigrator + ".Migrator.extractKeyFromTreasure", "Decode"},
	} {
		f := c.Fn(it.key)
		ts := gobTypesOf(f, it.method)
		if it.key == pkgMigrator+".Migrator.extractKeyFromTreasure" {
			// uses its own decoder wrapper: look at the variable decoded into
			finfo := f.Info()
			ts = nil
			core.Calls(f.Decl.Body, false, func(call *ast.CallExpr) {
				if fo := core.Callee(finfo, call); fo != nil && fo.Name() == "Decode" && len(call.Args) == 1 {
					t := finfo.TypeOf(call.Args[0])
					if pt, ok := t.(*types.Pointer); ok {
						t = pt.Elem()
					}
					ts = append(ts, t)
				}
			})
		}
		ok := len(ts) == 1 && namedOf(ts[0]) == model
		rT.Check(ok, it.key+":gob-type", f.Decl.Pos(), "treasure.Model", "record is encoded/decoded with a type other than treasure.Model")
	}
}
