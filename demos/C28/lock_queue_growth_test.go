package lock

import (
	"context"
	"fmt"
	"testing"
	"time"
)

// After every lock has been released the lock service must keep no per-key state (C28).
func TestDemoQueueMapNeverPruned(t *testing.T) {
	l := New().(*lock)
	const n = 1000
	for i := 0; i < n; i++ {
		key := fmt.Sprintf("key-%d", i)
		id, err := l.Lock(context.Background(), key, time.Second)
		if err != nil {
			t.Fatal(err)
		}
		if err := l.Unlock(key, id); err != nil {
			t.Fatal(err)
		}
	}
	left := 0
	l.queues.Range(func(_, _ any) bool { left++; return true })
	if left != 0 {
		t.Fatalf("%d per-key queues remain after all %d locks were released", left, n)
	}
}
