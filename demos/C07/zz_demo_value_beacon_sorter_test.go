package swamp

import (
	"sort"
	"testing"

	"github.com/stretchr/testify/assert"
	"github.com/stretchr/testify/require"
)

func demoSetString(t *testing.T, s Swamp, key, val string) {
	t.Helper()
	tr := s.CreateTreasure(key)
	g := tr.StartTreasureGuard(true)
	tr.SetContentString(g, val)
	_ = tr.Save(g)
	tr.ReleaseTreasureGuard(g)
}

func demoSetFloat64(t *testing.T, s Swamp, key string, val float64) {
	t.Helper()
	tr := s.CreateTreasure(key)
	g := tr.StartTreasureGuard(true)
	tr.SetContentFloat64(g, val)
	_ = tr.Save(g)
	tr.ReleaseTreasureGuard(g)
}

// The value index built for string values must stay sorted by string value
// after a new record is inserted (incremental maintenance).
func TestDemoValueBeacon_StringIndexStaysSortedAfterInsert(t *testing.T) {
	s := patchTestSwamp(t, "demo-b2", "string-index")

	// keys deliberately do not sort like the values
	demoSetString(t, s, "k1", "delta")
	demoSetString(t, s, "k2", "alpha")
	demoSetString(t, s, "k3", "echo")

	read := func(order BeaconOrder) []string {
		got, err := s.GetTreasuresByBeacon(BeaconTypeValueString, order, 0, 100, nil, nil)
		require.NoError(t, err)
		var vals []string
		for _, tr := range got {
			v, err := tr.GetContentString()
			require.NoError(t, err)
			vals = append(vals, v)
		}
		return vals
	}

	// first read builds the index
	require.Equal(t, []string{"alpha", "delta", "echo"}, read(IndexOrderAsc))
	require.Equal(t, []string{"echo", "delta", "alpha"}, read(IndexOrderDesc))

	// insert values that sort in the middle / front
	demoSetString(t, s, "k0", "charlie")
	demoSetString(t, s, "k9", "bravo")

	asc := read(IndexOrderAsc)
	assert.Equal(t, []string{"alpha", "bravo", "charlie", "delta", "echo"}, asc)
	assert.True(t, sort.StringsAreSorted(asc), "ascending string value index is not sorted: %v", asc)

	desc := read(IndexOrderDesc)
	assert.Equal(t, []string{"echo", "delta", "charlie", "bravo", "alpha"}, desc)
}

// Same for float64 values.
func TestDemoValueBeacon_Float64IndexStaysSortedAfterInsert(t *testing.T) {
	s := patchTestSwamp(t, "demo-b2", "float-index")

	demoSetFloat64(t, s, "k1", 4.5)
	demoSetFloat64(t, s, "k2", 1.5)
	demoSetFloat64(t, s, "k3", 5.5)

	read := func(order BeaconOrder) []float64 {
		got, err := s.GetTreasuresByBeacon(BeaconTypeValueFloat64, order, 0, 100, nil, nil)
		require.NoError(t, err)
		var vals []float64
		for _, tr := range got {
			v, err := tr.GetContentFloat64()
			require.NoError(t, err)
			vals = append(vals, v)
		}
		return vals
	}

	require.Equal(t, []float64{1.5, 4.5, 5.5}, read(IndexOrderAsc))

	demoSetFloat64(t, s, "k0", 3.5)
	demoSetFloat64(t, s, "k9", 2.5)

	assert.Equal(t, []float64{1.5, 2.5, 3.5, 4.5, 5.5}, read(IndexOrderAsc))
	assert.Equal(t, []float64{5.5, 4.5, 3.5, 2.5, 1.5}, read(IndexOrderDesc))
}
