package swamp

import (
	"testing"
	"time"

	"github.com/hydraide/hydraide/app/core/hydra/swamp/treasure"
	"github.com/stretchr/testify/assert"
	"github.com/stretchr/testify/require"
)

func demoKeys(t *testing.T, s Swamp, bt BeaconType, order BeaconOrder) []string {
	t.Helper()
	got, err := s.GetTreasuresByBeacon(bt, order, 0, 100, nil, nil)
	require.NoError(t, err)
	var keys []string
	for _, tr := range got {
		keys = append(keys, tr.GetKey())
	}
	return keys
}

// An update that moves ModifiedAt must re-position the record in the
// (already built) update-time index.
func TestDemoSaveModified_UpdateTimeIndexReordered(t *testing.T) {
	s := patchTestSwamp(t, "demo-b3", "update-time")
	base := time.Now().UTC().Add(-time.Hour)

	for i, k := range []string{"a", "b", "c"} {
		tr := s.CreateTreasure(k)
		g := tr.StartTreasureGuard(true)
		tr.SetContentString(g, "v-"+k)
		tr.SetModifiedAt(g, base.Add(time.Duration(i)*time.Minute))
		_ = tr.Save(g)
		tr.ReleaseTreasureGuard(g)
	}

	// build the index
	require.Equal(t, []string{"a", "b", "c"}, demoKeys(t, s, BeaconTypeUpdateTime, IndexOrderAsc))
	require.Equal(t, []string{"c", "b", "a"}, demoKeys(t, s, BeaconTypeUpdateTime, IndexOrderDesc))

	// "a" is updated: it is now the most recently modified record
	tr := s.CreateTreasure("a")
	g := tr.StartTreasureGuard(true)
	tr.SetModifiedAt(g, base.Add(10*time.Minute))
	st := tr.Save(g)
	tr.ReleaseTreasureGuard(g)
	require.Equal(t, treasure.StatusModified, st)

	assert.Equal(t, []string{"b", "c", "a"}, demoKeys(t, s, BeaconTypeUpdateTime, IndexOrderAsc))
	assert.Equal(t, []string{"a", "c", "b"}, demoKeys(t, s, BeaconTypeUpdateTime, IndexOrderDesc))
}

// Same for CreatedAt and the creation-time index.
func TestDemoSaveModified_CreationTimeIndexReordered(t *testing.T) {
	s := patchTestSwamp(t, "demo-b3", "creation-time")
	base := time.Now().UTC().Add(-time.Hour)

	for i, k := range []string{"a", "b", "c"} {
		tr := s.CreateTreasure(k)
		g := tr.StartTreasureGuard(true)
		tr.SetContentString(g, "v-"+k)
		tr.SetCreatedAt(g, base.Add(time.Duration(i)*time.Minute))
		_ = tr.Save(g)
		tr.ReleaseTreasureGuard(g)
	}

	require.Equal(t, []string{"a", "b", "c"}, demoKeys(t, s, BeaconTypeCreationTime, IndexOrderAsc))

	tr := s.CreateTreasure("a")
	g := tr.StartTreasureGuard(true)
	tr.SetCreatedAt(g, base.Add(10*time.Minute))
	_ = tr.Save(g)
	tr.ReleaseTreasureGuard(g)

	assert.Equal(t, []string{"b", "c", "a"}, demoKeys(t, s, BeaconTypeCreationTime, IndexOrderAsc))
	assert.Equal(t, []string{"a", "c", "b"}, demoKeys(t, s, BeaconTypeCreationTime, IndexOrderDesc))
}

// A changed value of the same type must re-position the record in the value index.
func TestDemoSaveModified_ValueIndexReordered(t *testing.T) {
	s := patchTestSwamp(t, "demo-b3", "value")

	for i, k := range []string{"a", "b", "c"} {
		tr := s.CreateTreasure(k)
		g := tr.StartTreasureGuard(true)
		tr.SetContentInt64(g, int64(10*(i+1)))
		_ = tr.Save(g)
		tr.ReleaseTreasureGuard(g)
	}

	require.Equal(t, []string{"a", "b", "c"}, demoKeys(t, s, BeaconTypeValueInt64, IndexOrderAsc))

	tr := s.CreateTreasure("a")
	g := tr.StartTreasureGuard(true)
	tr.SetContentInt64(g, 100)
	_ = tr.Save(g)
	tr.ReleaseTreasureGuard(g)

	assert.Equal(t, []string{"b", "c", "a"}, demoKeys(t, s, BeaconTypeValueInt64, IndexOrderAsc))
	assert.Equal(t, []string{"a", "c", "b"}, demoKeys(t, s, BeaconTypeValueInt64, IndexOrderDesc))
}

// An expiration change must still be handled when another attribute changed in
// the same Save (content + expiration together).
func TestDemoSaveModified_ExpirationStillReindexedWithOtherChanges(t *testing.T) {
	s := patchTestSwamp(t, "demo-b3", "expiration")
	base := time.Now().UTC().Add(time.Hour)

	for i, k := range []string{"a", "b", "c"} {
		tr := s.CreateTreasure(k)
		g := tr.StartTreasureGuard(true)
		tr.SetContentInt64(g, int64(10*(i+1)))
		tr.SetExpirationTime(g, base.Add(time.Duration(i)*time.Minute))
		_ = tr.Save(g)
		tr.ReleaseTreasureGuard(g)
	}
	require.Equal(t, []string{"a", "b", "c"}, demoKeys(t, s, BeaconTypeExpirationTime, IndexOrderAsc))
	require.Equal(t, []string{"a", "b", "c"}, demoKeys(t, s, BeaconTypeValueInt64, IndexOrderAsc))

	tr := s.CreateTreasure("a")
	g := tr.StartTreasureGuard(true)
	tr.SetContentInt64(g, 100)
	tr.SetExpirationTime(g, base.Add(10*time.Minute))
	_ = tr.Save(g)
	tr.ReleaseTreasureGuard(g)

	assert.Equal(t, []string{"b", "c", "a"}, demoKeys(t, s, BeaconTypeExpirationTime, IndexOrderAsc))
	assert.Equal(t, []string{"b", "c", "a"}, demoKeys(t, s, BeaconTypeValueInt64, IndexOrderAsc))
}
