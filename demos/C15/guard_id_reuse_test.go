package guard

import "testing"

func TestDemoStaleReleaseAfterReset(t *testing.T) {
	g := New()
	a := g.StartTreasureGuard(true)
	g.ReleaseTreasureGuard(a) // queue empty -> counter reset
	b := g.StartTreasureGuard(true)
	g.ReleaseTreasureGuard(a) // duplicate (stale) release by A
	c := g.StartTreasureGuard(false)
	if c != 0 {
		t.Fatalf("stale release of id %d released holder B (id %d); C acquired %d while B still holds", a, b, c)
	}
}
