package treasure

import (
	"sync"
	"testing"

	"github.com/hydraide/hydraide/app/core/hydra/swamp/treasure/guard"
)

// Run with: go test -race -run TestDemoSetterGetterRace
// A writer that holds the record guard mutates the model without t.mu while a reader takes
// only t.mu.RLock: the race detector reports a DATA RACE (unsynchronised access, C10).
func TestDemoSetterGetterRace(t *testing.T) {
	tr := New(nil)
	var wg sync.WaitGroup
	wg.Add(2)
	go func() {
		defer wg.Done()
		for i := 0; i < 20000; i++ {
			g := tr.StartTreasureGuard(true, guard.BodyAuthID)
			tr.SetContentInt64(g, int64(i))
			tr.ReleaseTreasureGuard(g)
		}
	}()
	go func() {
		defer wg.Done()
		for i := 0; i < 20000; i++ {
			_, _ = tr.GetContentInt64()
			_ = tr.GetContentType()
		}
	}()
	wg.Wait()
}
