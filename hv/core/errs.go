package core

import (
	"go/ast"
	"go/token"
	"go/types"
)

var errorType = types.Universe.Lookup("error").Type()

// IsErrorType reports whether t is the predeclared error interface.
func IsErrorType(t types.Type) bool { return t != nil && types.Identical(t, errorType) }

// ReturnsError reports whether the function's last result is an error.
func ReturnsError(sig *types.Signature) bool {
	n := sig.Results().Len()
	return n > 0 && IsErrorType(sig.Results().At(n-1).Type())
}

// Swallow is a return statement that reports success (or an unrelated, never-assigned error
// variable) on a path where an error value is known to be non-nil.
type Swallow struct {
	Ret     *ast.ReturnStmt
	Checked types.Object // the error variable known non-nil
	Why     string
}

// assignedBefore reports whether obj is assigned (or has its address taken) anywhere in body
// at a position before pos.
func assignedBefore(info *types.Info, body ast.Node, obj types.Object, pos token.Pos) bool {
	found := false
	ast.Inspect(body, func(x ast.Node) bool {
		if found || x == nil || x.Pos() >= pos {
			return !found
		}
		switch v := x.(type) {
		case *ast.AssignStmt:
			for _, l := range v.Lhs {
				if id, ok := Unparen(l).(*ast.Ident); ok && (info.Uses[id] == obj || info.Defs[id] == obj) {
					found = true
				}
			}
		case *ast.UnaryExpr:
			if v.Op == token.AND {
				if id, ok := Unparen(v.X).(*ast.Ident); ok && info.Uses[id] == obj {
					found = true
				}
			}
		case *ast.RangeStmt:
			for _, l := range []ast.Expr{v.Key, v.Value} {
				if id, ok := l.(*ast.Ident); ok && (info.Uses[id] == obj || info.Defs[id] == obj) {
					found = true
				}
			}
		}
		return !found
	})
	return found
}

// SwallowedErrors finds returns of a nil error inside the non-nil branch of an error test.
// sig/body describe one function (or literal) whose last result is an error.
func SwallowedErrors(p *Prog, info *types.Info, sig *types.Signature, body *ast.BlockStmt) []Swallow {
	if !ReturnsError(sig) {
		return nil
	}
	var out []Swallow
	fl := NewFlow(p, info, body)
	fl.Nodes(func(l Loc, n ast.Node) {
		ret, ok := n.(*ast.ReturnStmt)
		if !ok {
			return
		}
		// error variables known non-nil here
		var nonNil []types.Object
		for _, f := range fl.FactsAt(l) {
			be, ok := f.Expr.(*ast.BinaryExpr)
			if !ok || (be.Op != token.NEQ && be.Op != token.EQL) {
				continue
			}
			if (be.Op == token.NEQ) != f.Truth {
				continue
			}
			var v ast.Expr
			switch {
			case IsNilIdent(info, be.Y):
				v = be.X
			case IsNilIdent(info, be.X):
				v = be.Y
			default:
				continue
			}
			obj := ObjOf(info, v)
			if obj == nil || !IsErrorType(obj.Type()) {
				continue
			}
			// the variable must not be reassigned between the test and the return
			cl, _ := fl.Locate(f.Expr)
			_ = cl
			nonNil = append(nonNil, obj)
		}
		if len(nonNil) == 0 {
			return
		}
		var last ast.Expr
		if len(ret.Results) == 0 {
			// bare return with named results: the named error result is what is returned
			res := sig.Results().At(sig.Results().Len() - 1)
			for _, o := range nonNil {
				if o == res {
					return
				}
			}
			if !assignedBefore(info, body, res, ret.Pos()) {
				out = append(out, Swallow{Ret: ret, Checked: nonNil[0], Why: "bare return of the never-assigned named error result while " + nonNil[0].Name() + " != nil"})
			}
			return
		}
		last = Unparen(ret.Results[len(ret.Results)-1])
		if len(ret.Results) == 1 && sig.Results().Len() > 1 {
			return // return f() forwarding a tuple
		}
		if IsNilIdent(info, last) {
			out = append(out, Swallow{Ret: ret, Checked: nonNil[0], Why: "returns a nil error although " + nonNil[0].Name() + " != nil"})
			return
		}
		if id, ok := last.(*ast.Ident); ok {
			obj := info.Uses[id]
			for _, o := range nonNil {
				if o == obj {
					return
				}
			}
			if obj != nil && IsErrorType(obj.Type()) && !assignedBefore(info, body, obj, ret.Pos()) {
				out = append(out, Swallow{Ret: ret, Checked: nonNil[0], Why: "returns the never-assigned error variable " + obj.Name() + " (always nil) although " + nonNil[0].Name() + " != nil"})
			}
		}
	})
	return out
}

// Dropped is a call whose error result is discarded.
type Dropped struct {
	Call *ast.CallExpr
	How  string // "stmt" (expression statement), "blank" (assigned to _), "defer", "go"
}

func callReturnsError(info *types.Info, call *ast.CallExpr) bool {
	tv, ok := info.Types[call]
	if !ok {
		return false
	}
	switch t := tv.Type.(type) {
	case *types.Tuple:
		return t.Len() > 0 && IsErrorType(t.At(t.Len()-1).Type())
	default:
		return IsErrorType(t)
	}
}

// DroppedErrors lists calls under n whose error result is not bound to a variable.
func DroppedErrors(info *types.Info, n ast.Node, intoLits bool) []Dropped {
	var out []Dropped
	ast.Inspect(n, func(x ast.Node) bool {
		switch v := x.(type) {
		case *ast.FuncLit:
			return intoLits
		case *ast.ExprStmt:
			if c, ok := Unparen(v.X).(*ast.CallExpr); ok && callReturnsError(info, c) {
				out = append(out, Dropped{c, "stmt"})
			}
		case *ast.DeferStmt:
			if callReturnsError(info, v.Call) {
				out = append(out, Dropped{v.Call, "defer"})
			}
		case *ast.GoStmt:
			if callReturnsError(info, v.Call) {
				out = append(out, Dropped{v.Call, "go"})
			}
		case *ast.AssignStmt:
			if len(v.Rhs) == 1 {
				if c, ok := Unparen(v.Rhs[0]).(*ast.CallExpr); ok && callReturnsError(info, c) {
					lastL := v.Lhs[len(v.Lhs)-1]
					if id, ok := lastL.(*ast.Ident); ok && id.Name == "_" {
						out = append(out, Dropped{c, "blank"})
					}
				}
			}
		}
		return true
	})
	return out
}
