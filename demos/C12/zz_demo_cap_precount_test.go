package gateway

import (
	"context"
	"sync"
	"sync/atomic"
	"testing"
	"time"

	"github.com/hydraide/hydraide/app/core/hydra/swamp/treasure"
	hydrapb "github.com/hydraide/hydraide/sdk/go/hydraidego/v3/hydraidepbgo"
	"github.com/stretchr/testify/assert"
)

func demoClaimedPredicate(calls *atomic.Int32) func(treasureForCount) bool {
	return func(t treasureForCount) bool {
		if calls != nil {
			calls.Add(1)
		}
		raw, err := t.GetContentByteArray()
		if err != nil || len(raw) < 2 {
			return false
		}
		decoded, decErr := decodeMsgpackMapForCap(raw[2:])
		if decErr != nil {
			return false
		}
		return decoded["status"] == "claimed"
	}
}

// capPreCount must return the number of matching records as of the moment
// it holds the cap mutex: that count is the basis of the batch's budget.
func TestDemo_CapPreCount_CountIsTakenUnderCapMutex(t *testing.T) {
	rig := newGatewayPatchTestRig(t, "zz-demo-cap", "precount", "any")
	swampName := "zz-demo-cap/precount/any"
	demoFreshSwamp(t, rig, swampName)

	const initial = 3
	for i := 0; i < initial; i++ {
		seedTreasureWithBody(t, rig, swampName, gatewayKey(i), "claimed", time.Hour)
	}

	sw := demoSummon(t, rig, swampName)
	sw.BeginVigil()
	defer sw.CeaseVigil()

	// Another cap-bearing flow currently owns the cap mutex.
	sw.LockCapMu()

	var predCalls atomic.Int32
	type result struct {
		count         int32
		liveAtLockAcq int
	}
	done := make(chan result, 1)
	go func() {
		count, release := capPreCount(sw, demoClaimedPredicate(&predCalls))
		// We hold the cap mutex now; nobody else may change the matching
		// set through a cap-bearing flow, so this is the ground truth.
		live := sw.CountMatchingTreasures(func(tr treasure.Treasure) bool {
			return demoClaimedPredicate(nil)(tr)
		})
		release()
		done <- result{count: count, liveAtLockAcq: int(live)}
	}()

	// Give the goroutine time to reach the mutex (it either counted first
	// and is now blocked, or is blocked before counting).
	deadline := time.Now().Add(500 * time.Millisecond)
	for time.Now().Before(deadline) && predCalls.Load() < initial {
		time.Sleep(5 * time.Millisecond)
	}
	time.Sleep(50 * time.Millisecond)

	// The owner of the cap mutex adds one more matching record, then
	// releases the mutex.
	seedTreasureWithBody(t, rig, swampName, gatewayKey(initial), "claimed", time.Hour)
	sw.UnlockCapMu()

	select {
	case r := <-done:
		assert.Equal(t, initial+1, r.liveAtLockAcq)
		assert.Equal(t, r.liveAtLockAcq, int(r.count),
			"capPreCount returned a count that was stale by the time it acquired the cap mutex")
	case <-time.After(5 * time.Second):
		t.Fatal("capPreCount did not return")
	}
}

// End-to-end consequence: two concurrent cap-bearing PatchTreasures
// batches must not push the number of matching records above MaxMatching.
func TestDemo_PatchTreasures_ConcurrentCapBatchesRespectCap(t *testing.T) {
	rig := newGatewayPatchTestRig(t, "zz-demo-cap", "concurrent", "any")
	swampName := "zz-demo-cap/concurrent/any"
	demoFreshSwamp(t, rig, swampName)

	seedTreasureWithBody(t, rig, swampName, "a", "pending", time.Hour)
	seedTreasureWithBody(t, rig, swampName, "b", "pending", time.Hour)

	sw := demoSummon(t, rig, swampName)
	sw.BeginVigil()
	defer sw.CeaseVigil()

	// Stand in for a third cap-bearing flow that is just finishing: both
	// batches below arrive while it still holds the cap mutex.
	sw.LockCapMu()

	var wg sync.WaitGroup
	for _, key := range []string{"a", "b"} {
		wg.Add(1)
		go func(key string) {
			defer wg.Done()
			_, err := rig.gw.PatchTreasures(context.Background(), &hydrapb.PatchTreasuresRequest{
				IslandID:  rig.islandID,
				SwampName: swampName,
				Patches: []*hydrapb.TreasurePatch{
					{Key: key, Ops: []*hydrapb.PatchOp{
						{Op: hydrapb.PatchOp_SET, Path: "status", Value: encMsgpack(t, "claimed")},
					}},
				},
				Cap: &hydrapb.Cap{Filter: statusCapFilter("claimed"), MaxMatching: 1},
			})
			assert.NoError(t, err)
		}(key)
	}
	time.Sleep(300 * time.Millisecond)
	sw.UnlockCapMu()
	wg.Wait()

	claimed := sw.CountMatchingTreasures(func(tr treasure.Treasure) bool {
		return demoClaimedPredicate(nil)(tr)
	})
	assert.LessOrEqual(t, int(claimed), 1, "Cap{status==claimed, MaxMatching: 1} exceeded")
}
