package gateway

import (
	"context"
	"testing"
	"time"

	"github.com/hydraide/hydraide/app/core/hydra/swamp"
	hydrapb "github.com/hydraide/hydraide/sdk/go/hydraidego/v3/hydraidepbgo"
	"github.com/stretchr/testify/assert"
	"github.com/stretchr/testify/require"
	"google.golang.org/protobuf/types/known/timestamppb"
)

func demoStatusEq(target string) *hydrapb.FilterGroup {
	return &hydrapb.FilterGroup{
		Logic: hydrapb.FilterLogic_AND,
		Filters: []*hydrapb.TreasureFilter{
			{
				BytesFieldPath: protoStr("status"),
				Operator:       hydrapb.Relational_EQUAL,
				CompareValue:   &hydrapb.TreasureFilter_StringVal{StringVal: target},
			},
		},
	}
}

func demoCountKeys(t *testing.T, rig *gatewayPatchTestRig, swampName string) int {
	t.Helper()
	n, err := checkSwampName(rig.gw.ZeusInterface, rig.islandID, swampName, true)
	if err != nil {
		// the swamp no longer exists (it was emptied and destroyed)
		return 0
	}
	sw, err := rig.gw.ZeusInterface.GetHydra().SummonSwamp(context.Background(), rig.islandID, n)
	require.NoError(t, err)
	sw.BeginVigil()
	defer sw.CeaseVigil()
	return sw.CountTreasures()
}

// demoFreshSwamp makes the demo repeatable: the rig persists swamps on disk
// between runs, so start from (and leave behind) a non-existent swamp.
func demoFreshSwamp(t *testing.T, rig *gatewayPatchTestRig, swampName string) {
	t.Helper()
	destroy := func() {
		_, _ = rig.gw.Destroy(context.Background(), &hydrapb.DestroyRequest{IslandID: rig.islandID, SwampName: swampName})
	}
	destroy()
	t.Cleanup(destroy)
}

func demoSummon(t *testing.T, rig *gatewayPatchTestRig, swampName string) swamp.Swamp {
	t.Helper()
	n, err := checkSwampName(rig.gw.ZeusInterface, rig.islandID, swampName, true)
	require.NoError(t, err)
	sw, err := rig.gw.ZeusInterface.GetHydra().SummonSwamp(context.Background(), rig.islandID, n)
	require.NoError(t, err)
	return sw
}

// (i) A ShiftMatchingTreasures whose (indexable) filter matches no record
// must return nothing and must not delete anything.
func TestDemo_ShiftMatching_FilterMatchingNothingClaimsNothing(t *testing.T) {
	rig := newGatewayPatchTestRig(t, "zz-demo-shift", "nomatch", "any")
	swampName := "zz-demo-shift/nomatch/any"
	demoFreshSwamp(t, rig, swampName)

	const n = 6
	for i := 0; i < n; i++ {
		seedTreasureWithBody(t, rig, swampName, gatewayKey(i), "done", time.Hour)
	}
	require.Equal(t, n, demoCountKeys(t, rig, swampName))

	resp, err := rig.gw.ShiftMatchingTreasures(context.Background(), &hydrapb.ShiftMatchingTreasuresRequest{
		IslandID:  rig.islandID,
		SwampName: swampName,
		IndexType: hydrapb.IndexType_KEY,
		OrderType: hydrapb.OrderType_ASC,
		HowMany:   100,
		Filters:   demoStatusEq("pending"),
	})
	require.NoError(t, err)
	assert.Empty(t, resp.GetTreasures(), "filter status==pending matches no record; nothing may be shifted")
	assert.Equal(t, n, demoCountKeys(t, rig, swampName), "no record may be deleted")
}

// (ii) A record that matched when the predicate was built but no longer
// matches the caller's filter when the claim runs must not be claimed.
func TestDemo_ShiftMatching_PredicateEvaluatesFilterAtClaimTime(t *testing.T) {
	rig := newGatewayPatchTestRig(t, "zz-demo-shift", "stale", "any")
	swampName := "zz-demo-shift/stale/any"
	demoFreshSwamp(t, rig, swampName)

	seedTreasureWithBody(t, rig, swampName, "a", "pending", time.Hour)
	seedTreasureWithBody(t, rig, swampName, "b", "pending", time.Hour)

	sw := demoSummon(t, rig, swampName)
	sw.BeginVigil()
	defer sw.CeaseVigil()

	pred, err := buildShiftMatchingPredicate(sw, swamp.BeaconTypeKey, demoStatusEq("pending"), nil, nil)
	require.NoError(t, err)

	// Between predicate construction and the claim, "a" is moved to "done".
	seedTreasureWithBody(t, rig, swampName, "a", "done", time.Hour)

	got, _, err := sw.CloneAndDeleteMatchingTreasures(swamp.BeaconTypeKey, swamp.IndexOrderAsc, 100, pred, nil, 0)
	require.NoError(t, err)
	keys := make([]string, 0, len(got))
	for _, tr := range got {
		keys = append(keys, tr.GetKey())
	}
	assert.Equal(t, []string{"b"}, keys, "only records satisfying status==pending at claim time may be claimed")
}

// (ii) for PatchExpiredTreasures' selection predicate.
func TestDemo_PatchExpired_PredicateEvaluatesFilterAtClaimTime(t *testing.T) {
	rig := newGatewayPatchTestRig(t, "zz-demo-pe", "stale", "any")
	swampName := "zz-demo-pe/stale/any"
	demoFreshSwamp(t, rig, swampName)

	seedTreasureWithBody(t, rig, swampName, "a", "pending", time.Hour)
	seedTreasureWithBody(t, rig, swampName, "b", "pending", time.Hour)

	sw := demoSummon(t, rig, swampName)
	sw.BeginVigil()
	defer sw.CeaseVigil()

	pred, err := buildPatchExpiredSelectionPredicate(sw, demoStatusEq("pending"))
	require.NoError(t, err)

	seedTreasureWithBody(t, rig, swampName, "a", "done", time.Hour)

	ops, err := protoOpsToMsgpackpatchOps([]*hydrapb.PatchOp{
		{Op: hydrapb.PatchOp_SET, Path: "status", Value: encMsgpack(t, "claimed")},
	})
	require.NoError(t, err)
	meta := protoMetaToSwampMeta(&hydrapb.PatchMeta{SetExpiredAt: timestamppb.New(time.Now().UTC().Add(time.Hour))})

	entries, _, err := sw.PatchExpired(100, ops, nil, meta, pred, nil, 0)
	require.NoError(t, err)
	keys := make([]string, 0, len(entries))
	for _, e := range entries {
		keys = append(keys, e.Key)
	}
	assert.Equal(t, []string{"b"}, keys, "only records satisfying status==pending at claim time may be patched")
}
