#!/usr/bin/env python3
"""Regenerates /verif/MANIFEST.json from /verif/tools/claims.json and validates it.
claims.json: { "Cnn": {"text":..., "note":..., "technique":..., "design_ref":...}, ... }
Every property of properties.jsonl that has no claim is listed under not_applicable
with the reason from /verif/tools/not_applicable.json (or a default)."""
import json, sys, os
V = "/verif"
props = [json.loads(l) for l in open(f"{V}/properties.jsonl")]
claims = json.load(open(f"{V}/tools/claims.json"))
na = json.load(open(f"{V}/tools/not_applicable.json")) if os.path.exists(f"{V}/tools/not_applicable.json") else {}
base = json.load(open("/root/.vp/BASELINE.json"))
checks, notapp = [], []
for p in props:
    pid = p["id"]
    if pid in claims:
        c = claims[pid]
        checks.append({
            "property_id": pid,
            "quick_cmd": f"/verif/bin/hv check -prop {pid} -tier quick",
            "thorough_cmd": f"python3 /verif/tools/thorough.py {pid}",
            "evidence_file": f"/verif/evidence/{pid}.json",
            "replay_cmd_template": "/verif/bin/hv explain {path}",
            "engine": "hv",
            "level_claimed": {"category": "other", "text": c["text"], "design_ref": c.get("design_ref", "DESIGN.md §6 " + pid)},
            "level_note": c["note"],
            "technique": c["technique"],
        })
    else:
        notapp.append({"property_id": pid, "reason": na.get(pid, "static rules for this property are not built yet; no claim is made")})
m = {
    "version": 1,
    "setup_cmd": "/verif/build.sh",
    "hooks": {
        "guard": "verif",
        "enable": "none needed: the checker reads /repo's source and never builds or runs it; no hook commits exist",
        "baseline_off_cmd": base["cmd"],
        "source_commits": [],
        "add_only": True,
    },
    "engines": [{
        "name": "hv", "path": "/verif/hv",
        "serves_properties": sorted(claims.keys()),
        "kind_free_text": "custom static analyser over go/packages + go/types + go/cfg (dominators, must/may lock sets, CHA call graph, table/enum agreement, finite order-type evaluation); reads /repo's working tree on every run",
    }],
    "checks": checks,
    "not_applicable": notapp,
    "notes": "All claims are level 'other': each check decides structural necessary conditions (named in level_claimed.text) of the property from the type-checked source, not the behaviour itself. Exit 0 = all obligations discharged or listed in /verif/known_findings.json; 1 = VIOLATION; 2 = checker could not decide (broken check).",
}
json.dump(m, open(f"{V}/MANIFEST.json", "w"), indent=1)
try:
    import jsonschema
    jsonschema.validate(m, json.load(open("/root/.vp/MANIFEST.schema.json")))
    print("MANIFEST ok:", len(checks), "claimed,", len(notapp), "not_applicable")
except ImportError:
    print("jsonschema missing; not validated")
