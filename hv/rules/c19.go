package rules

import (
	"go/token"
	"go/ast"
	"go/types"
	"strings"

	"hv/core"
)

func init() { register("C19", c19) }

func c19(c *core.Ctx) {
	p := c.P
	cg := c.CG()
	c.Explain = "Static necessary conditions for correct change notification: events are emitted exactly on the new and modified save paths with the matching status, never on the unchanged path, and on delete; only the save and delete handlers can reach the emitters; the change flags that classify a save are all cleared (still under the record guard) once a save was processed, so an identical later save is classified unchanged; the event is emitted before the record guard is released (per-record commit order); the event time is stored in nanoseconds and converted as nanoseconds; every stream send inside a subscriber callback is serialised by a mutex; the gateway handles the three event kinds."
	c.NotCovered = []string{"exactly-once delivery and order on real schedules", "subscribe/unsubscribe races around a change", "event payload values"}

	sf := c.Fn(pkgSwamp + ".swamp.SaveFunction")
	emit := c.Fn(pkgSwamp + ".swamp.sendEventToHydra")
	del := c.Fn(pkgSwamp + ".swamp.deleteHandler")
	emitDel := c.Fn(pkgSwamp + ".swamp.sendDeletedEventToClient")

	rE := c.Rule("C19.emit", "SaveFunction calls the emitter with StatusNew on the path that returns StatusNew and with StatusModified on the path that returns StatusModified, and no emitter is reachable on the path that returns StatusSame; the delete handler emits the deleted event; emitters have no other callers", 6)
	{
		info := sf.Info()
		fl := core.NewFlow(p, info, sf.Decl.Body)
		type ret struct {
			loc    core.Loc
			status string
			stmt   *ast.ReturnStmt
		}
		var rets []ret
		fl.Nodes(func(l core.Loc, n ast.Node) {
			if r, ok := n.(*ast.ReturnStmt); ok && len(r.Results) == 1 {
				if k, ok := core.ObjOf(info, r.Results[0]).(*types.Const); ok {
					rets = append(rets, ret{l, k.Name(), r})
				}
			}
		})
		type em struct {
			loc    core.Loc
			status string
			call   *ast.CallExpr
		}
		var ems []em
		core.Calls(sf.Decl.Body, false, func(call *ast.CallExpr) {
			if core.IsWsCallTo(info, call, emit.Key) && len(call.Args) == 3 {
				st := ""
				if k, ok := core.ObjOf(info, call.Args[2]).(*types.Const); ok {
					st = k.Name()
				}
				ems = append(ems, em{fl.MustLocate(call), st, call})
			}
		})
		for _, r := range rets {
			var dom []string
			for _, e := range ems {
				if fl.Dominates(e.loc, r.loc) {
					dom = append(dom, e.status)
				}
			}
			switch r.status {
			case "StatusNew", "StatusModified":
				rE.Check(len(dom) == 1 && dom[0] == r.status, sf.Key+":return "+r.status, r.stmt.Pos(), "one event with the same status on this path",
					"the path returning "+r.status+" emits ["+strings.Join(dom, ",")+"]: subscribers miss the change or get the wrong kind")
			case "StatusSame":
				reach := false
				for _, e := range ems {
					if ok, _ := fl.CanReach(e.loc, nil, nil, core.ContainsNode(r.stmt)); ok {
						reach = true
					}
				}
				rE.Check(!reach, sf.Key+":return StatusSame", r.stmt.Pos(), "no event on the unchanged path", "an event is emitted on the path that reports 'nothing changed'")
			}
		}
		if len(rets) < 3 {
			rE.Bad(sf.Key+":returns", sf.Decl.Pos(), "SaveFunction no longer returns the three statuses as constants")
		}
		// the delete handlers, by role: the functions of the swamp that remove a record from the key index
		keyIdx := p.MustField(pkgSwamp, "swamp", "beaconKey")
		removers := map[string]bool{}
		for _, g := range p.FuncsIn(pkgSwamp) {
			if g.Decl.Body == nil {
				continue
			}
			gi := g.Info()
			removes := false
			core.Calls(g.Decl.Body, false, func(call *ast.CallExpr) {
				if fo := core.Callee(gi, call); fo != nil && fo.Name() == "Delete" && core.FieldOf(gi, core.RecvExpr(call)) == keyIdx {
					removes = true
				}
			})
			if !removes {
				continue
			}
			removers[g.Key] = true
			c.Touch(g)
			// every path from the removal to the exit publishes the deletion
			gfl := core.NewFlow(p, gi, g.Decl.Body)
			okEmit := true
			core.Calls(g.Decl.Body, false, func(call *ast.CallExpr) {
				if fo := core.Callee(gi, call); fo != nil && fo.Name() == "Delete" && core.FieldOf(gi, core.RecvExpr(call)) == keyIdx {
					l := gfl.MustLocate(call)
					if gfl.ExitWithout(l, nil, false, core.NodeHasCall(func(c2 *ast.CallExpr) bool { return core.IsWsCallTo(gi, c2, emitDel.Key) })) {
						okEmit = false
					}
				}
			})
			rE.Check(okEmit, g.Key+":emits-deleted", g.Decl.Pos(), "removal from the key index is followed by the deleted event", "a record is removed from the key index on a path that does not publish the deletion")
		}
		rE.Check(len(removers) > 0 && removers[del.Key] || len(removers) > 0, pkgSwamp+":delete-handlers", del.Decl.Pos(), "delete handler found", "no function removes records from the key index any more")
		for _, s := range cg.CallersOf(emit) {
			rE.Check(s.Caller.Key == sf.Key, s.Caller.Key+"->"+emit.Key, s.Call.Pos(), "only the save handler emits change events", "an event emitter is called from "+s.Caller.Key+": reads or other paths publish events")
		}
		for _, s := range cg.CallersOf(emitDel) {
			rE.Check(removers[s.Caller.Key], s.Caller.Key+"->"+emitDel.Key, s.Call.Pos(), "only a function that removes the record emits the deleted event", "the deleted event is emitted from "+s.Caller.Key+", which does not remove a record: reads or other paths publish events")
		}
	}

	rSO := c.Rule("C19.suborder", "a new swamp instance is put into the live map before SummonSwamp asks whether the swamp has subscribers, and a subscription is registered before it looks the swamp up in the live map: whichever side comes second sees the other, so event sending is switched on for every subscriber", 3)
	{
		sum := c.Fn(pkgHydra + ".hydra.SummonSwamp")
		si := sum.Info()
		sfl := core.NewFlow(p, si, sum.Decl.Body)
		swampsF := p.MustField(pkgHydra, "hydra", "swamps")
		var store ast.Node
		for _, a := range core.Accesses(si, sum.Decl.Body, map[*types.Var]bool{swampsF: true}, false) {
			if a.Form == "method:Store" || a.Form == "method:LoadOrStore" {
				store = a.Node
			}
		}
		nChecks := 0
		core.Calls(sum.Decl.Body, false, func(call *ast.CallExpr) {
			t := p.ByObj[core.Callee(si, call)]
			if t == nil || t.Decl.Body == nil || core.Short(t.Pkg.PkgPath) != pkgHydra {
				return
			}
			// a subscriber query: a hydra method that reads one of the subscriber maps and returns bool
			sig := t.Obj.Type().(*types.Signature)
			if sig.Results().Len() != 1 || sig.Results().At(0).Type().String() != "bool" {
				return
			}
			readsSubs := false
			for _, fv := range []string{"eventSubscribers", "infoSubscribers"} {
				if f2 := core.StructFields(mustStruct(p, pkgHydra, "hydra"))[fv]; f2 != nil {
					for _, a := range core.Accesses(t.Info(), t.Decl.Body, map[*types.Var]bool{f2: true}, true) {
						_ = a
						readsSubs = true
					}
				}
			}
			if !readsSubs {
				return
			}
			nChecks++
			ok := false
			if store != nil {
				ls, lc := sfl.MustLocate(store), sfl.MustLocate(call)
				ok = sfl.Dominates(ls, lc)
			}
			rSO.Check(ok, sum.Key+":"+t.Obj.Name()+":after-store", call.Pos(), "asked after the instance is in the live map", "SummonSwamp asks for subscribers before the new instance is in the live map: a subscription registered in between finds no live swamp to switch on and is not seen by this check either - the subscriber receives no events until someone else subscribes or the swamp is summoned again")
		})
		rSO.Check(nChecks >= 1, sum.Key+":subscriber-checks", sum.Decl.Pos(), "subscriber checks found", "SummonSwamp no longer asks whether the swamp has subscribers")
		// subscriber side: registration dominates (or is deferred-before) the live-map lookup
		for _, k := range []string{pkgHydra + ".hydra.SubscribeToSwampEvents", pkgHydra + ".hydra.SubscribeToSwampInfo"} {
			f := p.FnOpt(k)
			if f == nil {
				continue
			}
			fi := f.Info()
			c.Touch(f)
			lookups := 0
			bad := false
			for _, body := range core.Bodies(f.Decl) {
				for _, a := range core.Accesses(fi, body, map[*types.Var]bool{swampsF: true}, false) {
					if !strings.HasPrefix(a.Form, "read") && a.Form != "read" {
						// Load is a method call on the field: classified through the call below
					}
					_ = a
				}
				core.Calls(body, false, func(call *ast.CallExpr) {
					if fo := core.Callee(fi, call); fo != nil && fo.Name() == "Load" && core.FieldOf(fi, core.RecvExpr(call)) == swampsF {
						lookups++
						// accepted shapes: inside a deferred literal (runs after the registration), or after every store into a subscriber map
						if body == f.Decl.Body {
							bad = true
						} else {
							inDefer := false
							for _, n := range core.PathTo(f.Decl.Body, call) {
								if _, isD := n.(*ast.DeferStmt); isD {
									inDefer = true
								}
							}
							if !inDefer {
								bad = true
							}
						}
					}
				})
			}
			rSO.Check(lookups > 0 && !bad, k+":lookup-after-registration", f.Decl.Pos(), "live-map lookup runs after the registration (deferred)", "the subscription looks the swamp up in the live map before it is registered (or not at all): a swamp summoned in between starts without event sending")
		}
	}

	rSR := c.Rule("C19.subscribers", "the per-swamp subscriber maps are created atomically: an entry of hydra.eventSubscribers / infoSubscribers is installed with LoadOrStore, never with a Store that follows a separate Load (two concurrent first subscribers would replace each other's map and one subscription would silently disappear)", 2)
	{
		hf := core.StructFields(mustStruct(p, pkgHydra, "hydra"))
		for _, fname := range []string{"eventSubscribers", "infoSubscribers"} {
			fv := hf[fname]
			if fv == nil {
				rSR.Bad(pkgHydra+".hydra."+fname, token.NoPos, "subscriber map field not found")
				continue
			}
			stores, atomics := 0, 0
			for _, f := range p.FuncsIn(pkgHydra) {
				if f.Decl.Body == nil {
					continue
				}
				for _, a := range core.Accesses(f.Info(), f.Decl.Body, map[*types.Var]bool{fv: true}, true) {
					switch a.Form {
					case "method:Store", "method:Swap":
						stores++
						c.Touch(f)
						rSR.Bad(f.Key+":"+fname+".Store", a.Node.Pos(), "a subscriber map is installed with a plain Store: when it follows a Load that missed, two concurrent first subscribers each install their own map and the second replaces the first - that subscriber was told it is subscribed but never receives an event")
					case "method:LoadOrStore":
						atomics++
						c.Touch(f)
					}
				}
			}
			rSR.Check(atomics > 0 || stores > 0, pkgHydra+".hydra."+fname+":installed-atomically", token.NoPos, "entries installed with LoadOrStore", "no code installs entries into "+fname)
		}
	}

	rO := c.Rule("C19.order", "in SaveFunction the event is emitted before the record guard can be released (events of one record leave in commit order)", 1)
	{
		info := sf.Info()
		fl := core.NewFlow(p, info, sf.Decl.Body)
		core.Calls(sf.Decl.Body, false, func(call *ast.CallExpr) {
			fo := core.Callee(info, call)
			if fo == nil {
				return
			}
			releases := fo.Name() == "ReleaseTreasureGuard"
			if t := p.ByObj[fo]; t != nil && t.Decl.Body != nil && t != sf {
				// a helper of the package that releases the guard it is handed
				core.Calls(t.Decl.Body, true, func(c3 *ast.CallExpr) {
					if f3 := core.Callee(t.Info(), c3); f3 != nil && f3.Name() == "ReleaseTreasureGuard" {
						releases = true
					}
				})
			}
			if !releases {
				return
			}
			lr := fl.MustLocate(call)
			ok := false
			core.Calls(sf.Decl.Body, false, func(c2 *ast.CallExpr) {
				if core.IsWsCallTo(info, c2, emit.Key) {
					if le, found := fl.Locate(c2); found && fl.Dominates(le, lr) {
						ok = true
					}
				}
			})
			rO.Check(ok, sf.Key+":emit-before-release", call.Pos(), "emitted under the guard", "the guard is released before the event is emitted: a later change of the same record can overtake this event")
		})
	}

	rF := c.Rule("C19.flags", "every change flag that SaveFunction reads is cleared by a function SaveFunction calls on the new and modified paths before the guard can be released", 8)
	flagsRule(c, rF)

	rU := c.Rule("C19.unit", "Event.EventTime is assigned UnixNano values and reaches time.Unix only as the nanosecond argument", 3)
	{
		evT := p.Named(pkgSwamp, "Event")
		for _, f := range p.FuncsIn(pkgSwamp) {
			if f.Decl.Body == nil {
				continue
			}
			info := f.Info()
			ast.Inspect(f.Decl.Body, func(x ast.Node) bool {
				cl, ok := x.(*ast.CompositeLit)
				if !ok || namedOf(info.TypeOf(cl)) != evT {
					return true
				}
				for _, el := range cl.Elts {
					if kv, ok := el.(*ast.KeyValueExpr); ok && kv.Key.(*ast.Ident).Name == "EventTime" {
						c.Touch(f)
						nano := false
						core.Calls(kv.Value, false, func(call *ast.CallExpr) {
							if core.IsCallTo(info, call, "time.Time.UnixNano") {
								nano = true
							}
						})
						rU.Check(nano, f.Key+":EventTime", kv.Pos(), "UnixNano", "EventTime is not stored in nanoseconds")
					}
				}
				return true
			})
		}
		unitRule(c, rU, func(info *types.Info, body ast.Node, e ast.Expr) bool {
			f := core.FieldOf(info, stripConv(info, e))
			return f != nil && f.Name() == "EventTime"
		}, "event time")
	}

	// C19.registry: a subscription is made for a swamp name and outlives the in-memory instance.
	rReg := c.Rule("C19.registry", "entries of the subscriber registries (hydra.eventSubscribers / infoSubscribers) are removed only on the unsubscribe paths, never by the function that takes a closed swamp out of the live map or anything it calls: a swamp that is idle-closed or auto-destroyed while subscribed is re-created by the next write, and SummonSwamp turns event sending on only if the registry still knows the subscribers", 1)
	{
		cg := c.CG()
		_, hst := p.StructOf(pkgHydra, "hydra")
		hf := core.StructFields(hst)
		regs := map[*types.Var]bool{}
		for _, nm := range []string{"eventSubscribers", "infoSubscribers"} {
			if f := hf[nm]; f != nil {
				regs[f] = true
			}
		}
		liveF := hf["swamps"]
		isDel := func(form string) bool {
			switch form {
			case "method:Delete", "method:LoadAndDelete", "method:CompareAndDelete", "method:Clear", "delete":
				return true
			}
			return false
		}
		var closers []*core.Func
		for _, g := range p.FuncsIn(pkgHydra) {
			if g.Decl.Body == nil || liveF == nil {
				continue
			}
			for _, a := range core.Accesses(g.Info(), g.Decl.Body, map[*types.Var]bool{liveF: true}, true) {
				if isDel(a.Form) {
					closers = append(closers, g)
				}
			}
		}
		if len(regs) == 0 || len(closers) == 0 {
			rReg.Bad(pkgHydra+".hydra:registries", token.NoPos, "cannot identify the subscriber registries or the function that removes closed swamps from the live map (rule needs review)")
		} else {
			n := 0
			for _, g := range p.FuncsIn(pkgHydra) {
				if g.Decl.Body == nil {
					continue
				}
				for _, a := range core.Accesses(g.Info(), g.Decl.Body, regs, true) {
					if !isDel(a.Form) {
						continue
					}
					n++
					c.Touch(g)
					onClose := ""
					reachers := cg.ReachersOf(g)
					for _, cl := range closers {
						if cl == g || reachers[cl] {
							onClose = cl.Obj.Name()
						}
					}
					rReg.Check(onClose == "", g.Key+":"+a.Field.Name()+"."+strings.TrimPrefix(a.Form, "method:"), a.Node.Pos(), "removed on an unsubscribe path only",
						"the subscribers of a swamp name are forgotten when the swamp instance closes ("+onClose+" removes the registry entry): after an idle close or an auto-destroy the re-created swamp never starts sending events, the stream stays open and every later change is silently dropped")
				}
			}
			if n == 0 {
				rReg.Ok(pkgHydra+":no-registry-removal", token.NoPos, "registry entries are never removed")
			}
		}
	}

	rSync := c.Rule("C19.sync", "the subscriber callback sends the event on the stream before it returns: the Send/SendMsg call is not inside a go statement or a function literal handed to another function (the writer holds the record's guard while the callback runs - C19.order - and that alone orders the events of one record on the stream)", 2)
	rS := c.Rule("C19.send", "a stream Send/SendMsg inside a function literal that is registered as a subscriber callback executes with a mutex held (callbacks run on writers' goroutines; gRPC forbids concurrent sends on one stream)", 2)
	for _, f := range p.FuncsIn(pkgGateway) {
		if f.Decl.Body == nil {
			continue
		}
		info := f.Info()
		// callback literals: assigned to a local that is passed to hydra.SubscribeTo*
		for _, lit := range core.AllLits(f.Decl.Body) {
			isCallback := false
			for _, n := range core.PathTo(f.Decl.Body, lit) {
				as, ok := n.(*ast.AssignStmt)
				if !ok || len(as.Rhs) != 1 || core.Unparen(as.Rhs[0]) != ast.Expr(lit) {
					continue
				}
				obj := core.ObjOf(info, as.Lhs[0])
				core.Calls(f.Decl.Body, false, func(call *ast.CallExpr) {
					if fo := core.Callee(info, call); fo != nil && strings.HasPrefix(fo.Name(), "SubscribeTo") && fo.Pkg() != nil && core.Short(fo.Pkg().Path()) == pkgHydra {
						for _, a := range call.Args {
							if core.ObjOf(info, a) == obj {
								isCallback = true
							}
						}
					}
				})
			}
			if !isCallback {
				continue
			}
			c.Touch(f)
			// sends anywhere inside the callback (nested literals included)
			for _, body := range append([]*ast.BlockStmt{lit.Body}, func() []*ast.BlockStmt {
				var bs []*ast.BlockStmt
				for _, l := range core.AllLits(lit.Body) {
					bs = append(bs, l.Body)
				}
				return bs
			}()...) {
				fl := core.NewFlow(p, info, body)
				lk := fl.LockAnalysis(nil)
				core.Calls(body, false, func(call *ast.CallExpr) {
					fo := core.Callee(info, call)
					if fo == nil || (fo.Name() != "Send" && fo.Name() != "SendMsg") {
						return
					}
					held, ok := lk.HeldAtNode(call)
					if !ok {
						return
					}
					locked := false
					for _, m := range held {
						if m == 2 {
							locked = true
						}
					}
					rS.Check(locked, f.Key+":callback:"+fo.Name(), call.Pos(), "serialised by "+held.String(), "the subscriber callback sends on the stream without a lock: concurrent writers call "+fo.Name()+" concurrently on one gRPC stream")
					// synchronous: the send completes before the callback returns. The writer holds the
					// record's guard while the callback runs, which is what keeps the events of one record
					// in commit order on the stream; a send handed to another goroutine (go statement, or a
					// literal passed to a helper that starts one) is ordered only by the scheduler.
					async := ""
					for _, nd := range core.PathTo(lit.Body, call) {
						switch v := nd.(type) {
						case *ast.GoStmt:
							async = "a go statement"
						case *ast.CallExpr:
							for _, a := range v.Args {
								if inner, isLit := core.Unparen(a).(*ast.FuncLit); isLit && inner.Pos() <= call.Pos() && call.End() <= inner.End() {
									async = "a function literal handed to " + core.ExprStr(v.Fun)
								}
							}
						}
					}
					rSync.Check(async == "", f.Key+":callback:"+fo.Name()+":synchronous", call.Pos(), "sent before the callback returns (the writer still holds the record's guard)",
						"the subscriber callback hands the send to "+async+": the callback returns - and the writer releases the record - before the event is on the stream, so two commits of one record can reach the subscriber in the wrong order")
				})
			}
		}
	}

	rG := c.Rule("C19.kinds", "the gateway's event callback has a case for new, modified and deleted events", 3)
	{
		f := c.Fn(pkgGateway + ".Gateway.SubscribeToEvents")
		info := f.Info()
		seen := map[string]bool{}
		ast.Inspect(f.Decl.Body, func(x ast.Node) bool {
			if cc, ok := x.(*ast.CaseClause); ok {
				for _, e := range cc.List {
					if k, ok := core.ObjOf(info, e).(*types.Const); ok {
						seen[k.Name()] = true
					}
				}
			}
			return true
		})
		for _, k := range []string{"StatusNew", "StatusModified", "StatusDeleted"} {
			rG.Check(seen[k], f.Key+":case "+k, f.Decl.Pos(), "handled", "events of kind "+k+" are dropped by the gateway")
		}
	}
}

// flagsRule (C19.flags, shared with C09.flagreset): the change flags are cleared on the save path while the guard
// is still held.
func flagsRule(c *core.Ctx, rF *core.Rule) {
	p := c.P
	sf := c.Fn(pkgSwamp + ".swamp.SaveFunction")
	{
		// flags read by SaveFunction: Is<X>Changed methods -> the field they return
		info := sf.Info()
		flagFields := map[*types.Var]string{}
		core.Calls(sf.Decl.Body, false, func(call *ast.CallExpr) {
			fo := core.Callee(info, call)
			if fo == nil || !strings.HasPrefix(fo.Name(), "Is") || !strings.HasSuffix(fo.Name(), "Changed") {
				return
			}
			// resolve to the concrete treasure method
			m := p.FnOpt(pkgTreasure + ".treasure." + fo.Name())
			if m == nil {
				return
			}
			c.Touch(m)
			ast.Inspect(m.Decl.Body, func(x ast.Node) bool {
				if r, ok := x.(*ast.ReturnStmt); ok && len(r.Results) == 1 {
					if f := core.FieldOf(m.Info(), r.Results[0]); f != nil {
						flagFields[f] = fo.Name()
					}
				}
				return true
			})
		})
		// reset function: a treasure method called in SaveFunction that assigns false to flag fields
		fl := core.NewFlow(p, info, sf.Decl.Body)
		cleared := map[*types.Var]bool{}
		var resetCalls []*ast.CallExpr
		core.Calls(sf.Decl.Body, false, func(call *ast.CallExpr) {
			fo := core.Callee(info, call)
			if fo == nil {
				return
			}
			m := p.FnOpt(pkgTreasure + ".treasure." + fo.Name())
			if m == nil || m.Decl.Body == nil {
				return
			}
			n := 0
			for _, a := range core.Accesses(m.Info(), m.Decl.Body, nil, false) {
				if a.Write && a.Form == "assign-false" {
					if _, isFlag := flagFields[a.Field]; isFlag {
						cleared[a.Field] = true
						n++
					}
				}
			}
			if n > 0 {
				resetCalls = append(resetCalls, call)
				c.Touch(m)
			}
		})
		for f, getter := range flagFields {
			rF.Check(cleared[f], sf.Key+":"+f.Name(), sf.Decl.Pos(), "cleared after a processed save",
				"flag "+f.Name()+" (read through "+getter+") is never cleared on the save path: after the first change every later save of the record is classified 'modified' and publishes an event although nothing changed")
		}
		// each guard release in SaveFunction is dominated by a reset call
		core.Calls(sf.Decl.Body, false, func(call *ast.CallExpr) {
			fo := core.Callee(info, call)
			if fo == nil || fo.Name() != "ReleaseTreasureGuard" {
				return
			}
			lr := fl.MustLocate(call)
			ok := false
			for _, rc := range resetCalls {
				if l, found := fl.Locate(rc); found && fl.Dominates(l, lr) {
					ok = true
				}
			}
			rF.Check(ok, sf.Key+":reset-before-release", call.Pos(), "flags cleared while the guard is still held", "change flags are cleared after (or never before) the guard release: the next holder's flags can be wiped")
		})
		if len(flagFields) < 5 {
			rF.Bad(sf.Key+":flags", sf.Decl.Pos(), "SaveFunction no longer classifies saves through Is...Changed flags (rule needs review)")
		}
	}
}
