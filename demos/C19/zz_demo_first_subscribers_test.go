package hydra

// DEMONSTRATION for property C19 (place in app/core/hydra/ and run
// `go test -vet=off -count=1 -run TestDemoC19_TwoFirstSubscribers ./app/core/hydra/`).
//
// Two clients subscribe to the events of the same swamp at the same time, and nobody was
// subscribed before. SubscribeToSwampEvents loads the per-swamp subscriber map, and when there
// is none it builds a new one and stores it. Both callers miss, both build their own map, and the
// second Store replaces the first map: the first subscription returned nil (success) but is gone,
// that client never receives an event. The interleaving cannot be forced, so fresh swamp names
// are tried for a bounded time.

import (
	"fmt"
	"sync"
	"testing"
	"time"

	"github.com/google/uuid"
	"github.com/hydraide/hydraide/app/core/hydra/swamp"
	"github.com/hydraide/hydraide/app/name"
)

func TestDemoC19_TwoFirstSubscribers(t *testing.T) {
	h := &hydra{}
	deadline := time.Now().Add(30 * time.Second)
	for round := 0; time.Now().Before(deadline); round++ {
		n := name.New().Sanctuary("demo-c19").Realm("subs").Swamp(fmt.Sprintf("s%d", round))
		var wg sync.WaitGroup
		start := make(chan struct{})
		for i := 0; i < 2; i++ {
			wg.Add(1)
			go func() {
				defer wg.Done()
				<-start
				if err := h.SubscribeToSwampEvents(uuid.New(), n, func(e *swamp.Event) {}); err != nil {
					t.Errorf("subscribe: %v", err)
				}
			}()
		}
		close(start)
		wg.Wait()
		v, ok := h.eventSubscribers.Load(n.Get())
		if !ok {
			t.Fatalf("round %d: no subscribers registered", round)
		}
		count := 0
		v.(*sync.Map).Range(func(key, value interface{}) bool { count++; return true })
		if count != 2 {
			t.Fatalf("LOST SUBSCRIPTION in round %d: two clients subscribed to %s and both calls returned nil, but only %d subscriber is registered: the other client will never receive an event", round, n.Get(), count)
		}
	}
}
