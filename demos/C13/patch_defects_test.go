package msgpackpatch

import (
	"math"
	"testing"

	"github.com/vmihailenco/msgpack/v5"
)

func demoBody(t *testing.T, v any) []byte {
	t.Helper()
	b, err := msgpack.Marshal(v)
	if err != nil {
		t.Fatal(err)
	}
	return b
}

// A reported success always leaves a well-formed msgpack body (C13). Op values are client
// bytes; SET / APPEND / PREPEND / INC-on-missing spliced them into the body unvalidated.
func TestDemoMalformedOpValueCorruptsBody(t *testing.T) {
	body := demoBody(t, map[string]any{"a": int64(1), "list": []any{int64(1)}})
	bad := [][]byte{
		{0xc1},             // never-used type code
		{0x92, 0x01},       // array header announcing 2 items, only 1 present
		{0x01, 0x02},       // two values where one is expected
		{0xd9, 0x05, 'a'},  // str8 announcing 5 bytes, 1 present
	}
	ops := func(v []byte) []Op {
		return []Op{{Kind: OpSet, Path: "b", Value: v}}
	}
	for _, v := range bad {
		for name, o := range map[string][]Op{
			"SET":     ops(v),
			"APPEND":  {{Kind: OpAppend, Path: "list[]", Value: v}},
			"PREPEND": {{Kind: OpPrepend, Path: "list[]", Value: v}},
		} {
			out, err := Apply(body, o)
			if err != nil {
				continue // rejected: fine
			}
			if _, perr := Parse(out); perr != nil {
				t.Errorf("%s with malformed value % x reported success but the body is no longer valid msgpack: %v", name, v, perr)
			}
		}
	}
	// INC on a missing field stores the delta bytes verbatim
	out, err := Apply(body, []Op{{Kind: OpInc, Path: "counter", Value: []byte{0x01, 0x02}}})
	if err == nil {
		if _, perr := Parse(out); perr != nil {
			t.Errorf("INC with trailing bytes in the delta reported success but the body is invalid: %v", perr)
		}
	}
}

// Comparisons follow numeric ordering; NaN compares equal to nothing (C13).
func TestDemoNaNComparesEqual(t *testing.T) {
	body := demoBody(t, map[string]any{"x": math.NaN()})
	one := demoBody(t, float64(1))
	for _, c := range []struct {
		op   CondOp
		want bool
		name string
	}{
		{CondEqual, false, "NaN == 1"}, {CondNotEqual, true, "NaN != 1"},
		{CondGreaterThanOrEqual, false, "NaN >= 1"}, {CondLessThanOrEqual, false, "NaN <= 1"},
		{CondGreaterThan, false, "NaN > 1"}, {CondLessThan, false, "NaN < 1"},
	} {
		_, err := ApplyWithCondition(body, []Op{{Kind: OpSet, Path: "y", Value: one}}, &Condition{Path: "x", Op: c.op, Threshold: one})
		met := err == nil
		if met != c.want {
			t.Errorf("condition %s: met=%v want %v (err=%v)", c.name, met, c.want, err)
		}
	}
}
