package gateway

import (
	"context"
	"testing"
	"time"

	hydrapb "github.com/hydraide/hydraide/sdk/go/hydraidego/v3/hydraidepbgo"
)

// Every request returns (C06). Removing the last value of a uint32 set makes the handler call
// DeleteTreasure while it still holds the record guard; the delete handler waits for the same
// guard: the request never returns (and its vigil / system lock are never released).
func TestDemoUint32SliceDeleteLastValueHangs(t *testing.T) {
	rig := newGatewayPatchTestRig(t, "zz-demo-c06", "u32", "hang")
	ctx := context.Background()
	_, err := rig.gw.Uint32SlicePush(ctx, &hydrapb.AddToUint32SlicePushRequest{
		IslandID: rig.islandID, SwampName: rig.swampName,
		KeySlicePairs: []*hydrapb.KeySlicePair{{Key: "k", Values: []uint32{7, 8}}, {Key: "other", Values: []uint32{1}}},
	})
	if err != nil {
		t.Fatal(err)
	}
	done := make(chan error, 1)
	go func() {
		_, err := rig.gw.Uint32SliceDelete(ctx, &hydrapb.Uint32SliceDeleteRequest{
			IslandID: rig.islandID, SwampName: rig.swampName,
			KeySlicePairs: []*hydrapb.KeySlicePair{{Key: "k", Values: []uint32{7, 8}}},
		})
		done <- err
	}()
	select {
	case err := <-done:
		if err != nil {
			t.Fatalf("delete failed: %v", err)
		}
	case <-time.After(5 * time.Second):
		t.Fatal("Uint32SliceDelete of the last values never returned (self-deadlock on the record guard)")
	}
	ex, err := rig.gw.IsKeyExist(ctx, &hydrapb.IsKeyExistRequest{IslandID: rig.islandID, SwampName: rig.swampName, Key: "k"})
	if err != nil {
		t.Fatal(err)
	}
	if ex.GetIsExist() {
		t.Fatal("the emptied set should have been removed")
	}
}
