package rules

import (
	"go/ast"
	"go/token"
	"go/types"
	"strings"

	"hv/core"
)

func init() {
	register("C11", c11)
	register("C12", c12)
}

var claimFuncs = []string{"ShiftMany", "ShiftExpired", "ShiftMatching", "SelectExpiredForPatch", "SelectExpiredForPatchWithCap"}

func beaconLockset(c *core.Ctx, r *core.Rule) {
	core.ReportGuarded(c, r, core.CheckGuarded(c.P, core.GuardSpec{
		Pkg: pkgBeacon, Type: "beacon", Fields: []string{"treasuresByKeys", "treasuresByOrder", "isOrdered", "sortOrder"}, Locks: []string{"mu"}, ReadsNeedLock: true,
	}))
}

func c11(c *core.Ctx) {
	p := c.P
	curProg = p
	c.Explain = "Static necessary conditions for disjoint, matching, ordered claims: every read and write of the index containers happens under the index mutex and each claim function evaluates its selection predicate and removes the claimed records inside one write-locked region; the predicate the gateway hands to the claim functions evaluates the caller's complete filter (the pre-computed candidate key set is only a fast reject); every claim append is guarded by the count limit and iterates the ordered slice in order; the expiry claims use the specified 'expired' predicate; every record appended to the ordered slice is a member of the key map (taken from it, stored into it in the same critical section, copied from the ordered slice, or membership-checked), so a record deleted elsewhere cannot be re-inserted by a claim."
	c.NotCovered = []string{"disjointness over real interleavings", "that clones returned to callers reflect the claimed version", "lock-order between index mutex and record guards (claims hold the index mutex while waiting for a record guard, saves hold the guard while taking the index mutex)"}

	rL := c.Rule("C11.lockset", "beacon.treasuresByKeys / treasuresByOrder / isOrdered / sortOrder are read and written only with beacon.mu held (write lock for writes)", 100)
	beaconLockset(c, rL)

	rC := c.Rule("C11.critical", "in each claim function the caller's predicate is invoked, the claimed records are removed from the ordered slice and (for shifts) from the key map, all while beacon.mu is write-held; the claim append is guarded by counter < limit and the loop ranges over the ordered slice", 10)
	byOrder := p.MustField(pkgBeacon, "beacon", "treasuresByOrder")
	for _, n := range claimFuncs {
		f := c.Fn(pkgBeacon + ".beacon." + n)
		info := f.Info()
		fl := core.NewFlow(p, info, f.Decl.Body)
		lk := fl.LockAnalysis(nil)
		// predicate parameters (func(treasure.Treasure) bool)
		sig := f.Obj.Type().(*types.Signature)
		preds := map[types.Object]bool{}
		for i := 0; i < sig.Params().Len(); i++ {
			if _, ok := sig.Params().At(i).Type().Underlying().(*types.Signature); ok {
				preds[sig.Params().At(i)] = true
			}
		}
		okPred := true
		core.Calls(f.Decl.Body, false, func(call *ast.CallExpr) {
			if id, ok := core.Unparen(call.Fun).(*ast.Ident); ok && preds[info.Uses[id]] {
				held, found := lk.HeldAtNode(call)
				if !found || held["b.mu"] != 2 {
					okPred = false
				}
			}
		})
		rC.Check(okPred, f.Key+":predicate-under-lock", f.Decl.Pos(), "predicates run under b.mu.Lock", "a selection predicate is evaluated outside the index write lock: two claimers can both see the same record as matching")
		// claim append: to the first returned slice; guarded by counter < limit; inside range over treasuresByOrder
		var claimedObj types.Object
		ast.Inspect(f.Decl.Body, func(x ast.Node) bool {
			if ret, ok := x.(*ast.ReturnStmt); ok && len(ret.Results) >= 1 {
				if o := core.ObjOf(info, ret.Results[0]); o != nil {
					if _, isSlice := o.Type().Underlying().(*types.Slice); isSlice {
						claimedObj = o
					}
				}
			}
			return true
		})
		var claim *ast.AssignStmt
		var loop *ast.RangeStmt
		ast.Inspect(f.Decl.Body, func(x ast.Node) bool {
			rs, ok := x.(*ast.RangeStmt)
			if !ok || core.FieldOf(info, rs.X) != byOrder {
				return true
			}
			ast.Inspect(rs.Body, func(y ast.Node) bool {
				if as, ok := y.(*ast.AssignStmt); ok && len(as.Lhs) == 1 && claimedObj != nil && core.ObjOf(info, as.Lhs[0]) == claimedObj {
					claim, loop = as, rs
				}
				return true
			})
			return true
		})
		if claim == nil {
			rC.Bad(f.Key+":claim-in-order", f.Decl.Pos(), "claim append inside a range over the ordered slice not found")
			continue
		}
		_ = loop
		loc := fl.MustLocate(claim)
		// the claim counter: the local incremented in the block that holds the claim append
		var counterObj types.Object
		for _, n := range core.PathTo(f.Decl.Body, claim) {
			if blk, isBlk := n.(*ast.BlockStmt); isBlk {
				for _, st := range blk.List {
					if inc, isInc := st.(*ast.IncDecStmt); isInc && inc.Tok == token.INC {
						if o := core.ObjOf(info, inc.X); o != nil && blk.Pos() <= claim.Pos() && claim.End() <= blk.End() {
							counterObj = o
						}
					}
				}
			}
		}
		limited := counterObj != nil && holdsAt(fl, f.Decl.Body, loc, func(ft core.Fact) bool {
			return cmpFact(ft, func(x ast.Expr, op token.Token, y ast.Expr) bool {
				return core.ObjOf(info, x) == counterObj && op == token.LSS
			})
		})
		rC.Check(limited, f.Key+":claim-limited", claim.Pos(), "claim guarded by counter < limit, iterating the ordered slice", "records are claimed without the count limit: a caller can receive more than it asked for")
	}

	rG := c.Rule("C11.claimguard", "a claim function that hands out clones reads the record for its selection decision (predicate call, expiry getter) and clones it inside one record-guard region: between StartTreasureGuard on the loop record and the release of that ID", 3)
	for _, n := range claimFuncs {
		f := c.Fn(pkgBeacon + ".beacon." + n)
		info := f.Info()
		ast.Inspect(f.Decl.Body, func(x ast.Node) bool {
			rs, ok := x.(*ast.RangeStmt)
			if !ok || core.FieldOf(info, rs.X) != byOrder || rs.Value == nil {
				return true
			}
			rv := core.ObjOf(info, rs.Value)
			var clones []*ast.CallExpr
			core.Calls(rs.Body, false, func(call *ast.CallExpr) {
				if fo := core.Callee(info, call); fo != nil && fo.Name() == "Clone" && core.ObjOf(info, core.RecvExpr(call)) == rv {
					clones = append(clones, call)
				}
			})
			if len(clones) == 0 {
				return true
			}
			var region *guardRegion
			nReg := 0
			for _, r := range guardRegions(p, f) {
				if core.ObjOf(info, core.RecvExpr(r.Acquire)) == rv && rs.Body.Pos() <= r.Acquire.Pos() && r.Acquire.End() <= rs.Body.End() {
					region = r
					nReg++
				}
			}
			if nReg != 1 || region.ID == nil {
				rG.Bad(f.Key+":guard-region", rs.Pos(), "the claim loop clones the record but does not acquire exactly one guard on it per iteration")
				return true
			}
			inside := map[ast.Node]bool{}
			region.walk(info, func(n ast.Node) { inside[n] = true })
			fl := region.Fl
			core.Calls(rs.Body, false, func(call *ast.CallExpr) {
				fo := core.Callee(info, call)
				uses := false
				if r := core.RecvExpr(call); r != nil && core.ObjOf(info, r) == rv {
					uses = true
				}
				for _, a := range call.Args {
					if core.ObjOf(info, a) == rv {
						uses = true
					}
				}
				if !uses {
					return
				}
				if id, isId := core.Unparen(call.Fun).(*ast.Ident); isId {
					if _, isB := info.Uses[id].(*types.Builtin); isB {
						return // append/delete of the element itself
					}
				}
				name := core.ExprStr(call.Fun)
				if fo != nil {
					switch fo.Name() {
					case "StartTreasureGuard", "ReleaseTreasureGuard", "GetKey":
						return // the key is immutable
					}
					name = fo.Name()
				}
				l, ok := fl.Locate(call)
				okIn := ok && inside[fl.Node(l)]
				rG.Check(okIn, f.Key+":"+name+"("+rs.Value.(*ast.Ident).Name+")", call.Pos(), "inside the record's guard region", "the record is read for the claim decision (or cloned) outside its guard region: a writer that holds the guard can change it between the decision and the clone, and the caller receives a record that does not satisfy the selection criteria")
			})
			return true
		})
	}

	rF := c.Rule("C11.fullfilter", "inside the predicates built for ShiftMatching and PatchExpired every evaluateNativeFilterGroup call receives the caller's filters parameter (not the planner's residual)", 3)
	for _, k := range []string{pkgGateway + ".buildShiftMatchingPredicate", pkgGateway + ".buildPatchExpiredSelectionPredicate"} {
		f := c.Fn(k)
		info := f.Info()
		var filtersObj types.Object
		sig := f.Obj.Type().(*types.Signature)
		for i := 0; i < sig.Params().Len(); i++ {
			if strings.HasSuffix(sig.Params().At(i).Type().String(), "FilterGroup") {
				filtersObj = sig.Params().At(i)
			}
		}
		n := 0
		for _, lit := range core.AllLits(f.Decl.Body) {
			core.Calls(lit.Body, false, func(call *ast.CallExpr) {
				if !core.IsWsCallTo(info, call, pkgGateway+".evaluateNativeFilterGroup") || len(call.Args) != 2 {
					return
				}
				n++
				rF.Check(core.ObjOf(info, call.Args[1]) == filtersObj, k+":evaluateNativeFilterGroup("+core.ExprStr(call.Args[1])+")", call.Pos(), "complete filter evaluated at claim time",
					"the claim-time predicate evaluates '"+core.ExprStr(call.Args[1])+"' instead of the caller's complete filter: the indexed leg is decided by a key set computed before the claim (an empty lookup claims everything; a record changed meanwhile is still claimed)")
			})
		}
		if n == 0 {
			rF.Bad(k+":no-filter-evaluation", f.Decl.Pos(), "the built predicate never evaluates the filter")
		}
	}

	rWn := c.Rule("C11.window", "the time-window membership test of the gateway's claim paths is half-open: a boolean helper that compares one integer parameter with two others returns exactly ts >= lower && ts < upper, so that a record whose timestamp equals a caller's exclusive upper bound is left for the caller of the adjacent window", 1)
	{
		n := 0
		for _, f := range p.FuncsIn(pkgGateway) {
			if f.Decl.Body == nil || f.Decl.Recv != nil {
				continue
			}
			sig := f.Obj.Type().(*types.Signature)
			if sig.Params().Len() != 3 || sig.Results().Len() != 1 {
				continue
			}
			allInt := true
			for i := 0; i < 3; i++ {
				if b, ok := sig.Params().At(i).Type().Underlying().(*types.Basic); !ok || b.Kind() != types.Int64 {
					allInt = false
				}
			}
			if b, ok := sig.Results().At(0).Type().Underlying().(*types.Basic); !ok || b.Kind() != types.Bool || !allInt {
				continue
			}
			if len(f.Decl.Body.List) != 1 {
				continue
			}
			ret, ok := f.Decl.Body.List[0].(*ast.ReturnStmt)
			if !ok || len(ret.Results) != 1 {
				continue
			}
			and, ok := core.Unparen(ret.Results[0]).(*ast.BinaryExpr)
			if !ok || and.Op != token.LAND {
				continue
			}
			info := f.Info()
			tsP := sig.Params().At(0)
			type cmp struct {
				op    token.Token
				other types.Object
			}
			norm := func(e ast.Expr) (cmp, bool) {
				be, ok := core.Unparen(e).(*ast.BinaryExpr)
				if !ok {
					return cmp{}, false
				}
				x, y, op := core.ObjOf(info, be.X), core.ObjOf(info, be.Y), be.Op
				if y == tsP {
					x, y, op = y, x, mirror(op)
				}
				if x != tsP || y == nil {
					return cmp{}, false
				}
				return cmp{op, y}, true
			}
			a, ok1 := norm(and.X)
			b, ok2 := norm(and.Y)
			if !ok1 || !ok2 {
				continue
			}
			n++
			c.Touch(f)
			lower, upper := a, b
			if a.op == token.LSS || a.op == token.LEQ {
				lower, upper = b, a
			}
			good := lower.op == token.GEQ && upper.op == token.LSS && lower.other != upper.other
			rWn.Check(good, f.Key+":half-open", ret.Pos(), "ts >= lower && ts < upper",
				"the window test is ts "+lower.op.String()+" "+lower.other.Name()+" && ts "+upper.op.String()+" "+upper.other.Name()+" instead of the half-open [from, to): a record on a bound is claimed by the wrong window (or by two adjacent ones)")
		}
		if n == 0 {
			rWn.Bad(pkgGateway+":window-test", token.NoPos, "no window membership helper found in the gateway (rule needs review)")
		}
	}

	rNR := c.Rule("C11.noresurrect", "a claim never brings a deleted record back: outside the save path a record is (re)inserted into an ordered index of the swamp only inside a guard region on that record after the key index was looked up again (the beacon's own ReindexExpiration re-inserts only keys still present in its key map: C11.repinv) (shared with C07.liveinsert)", 6)
	liveInsertRule(c, rNR)

	rI := c.Rule("C11.repinv", "every append to beacon.treasuresByOrder adds an element that is in treasuresByKeys: taken from a range over the key map or over the ordered slice, stored into the key map in the same function, or checked with a key-map lookup", 4)
	byKeys := p.MustField(pkgBeacon, "beacon", "treasuresByKeys")
	for _, f := range p.FuncsIn(pkgBeacon) {
		if f.Decl.Body == nil {
			continue
		}
		info := f.Info()
		var fl *core.Flow
		for _, body := range core.Bodies(f.Decl) {
			for _, a := range core.Accesses(info, body, map[*types.Var]bool{byOrder: true}, false) {
				if !a.Write || a.Form != "append" {
					continue
				}
				as := a.Node.(*ast.AssignStmt)
				call := core.Unparen(as.Rhs[0]).(*ast.CallExpr)
				if len(call.Args) != 2 || call.Ellipsis.IsValid() {
					continue // removal idiom append(x[:i], x[i+1:]...)
				}
				c.Touch(f)
				elem := core.ObjOf(info, call.Args[1])
				ok, why := false, ""
				// (a)/(c) range variable over key map / ordered slice / a map that is copied into the key map
				ast.Inspect(f.Decl.Body, func(x ast.Node) bool {
					rs, isR := x.(*ast.RangeStmt)
					if !isR || rs.Value == nil || core.ObjOf(info, rs.Value) != elem {
						return true
					}
					if fld := core.FieldOf(info, rs.X); fld == byKeys || fld == byOrder {
						ok, why = true, "element of "+fld.Name()
					}
					// range over a parameter map that maps.Copy stores into the key map
					if po := core.ObjOf(info, rs.X); po != nil {
						core.Calls(f.Decl.Body, false, func(c2 *ast.CallExpr) {
							if core.IsCallTo(info, c2, "maps.Copy") && len(c2.Args) == 2 && core.FieldOf(info, c2.Args[0]) == byKeys && core.ObjOf(info, c2.Args[1]) == po {
								ok, why = true, "copied into the key map in the same critical section"
							}
						})
					}
					return true
				})
				// (b) stored into the key map in the same function: b.treasuresByKeys[...] = elem
				ast.Inspect(f.Decl.Body, func(x ast.Node) bool {
					if s2, isAs := x.(*ast.AssignStmt); isAs && len(s2.Lhs) == 1 && len(s2.Rhs) == 1 {
						if ix, isIx := core.Unparen(s2.Lhs[0]).(*ast.IndexExpr); isIx && core.FieldOf(info, ix.X) == byKeys && core.ObjOf(info, s2.Rhs[0]) == elem {
							ok, why = true, "stored into the key map in the same function"
						}
					}
					return true
				})
				// (d) membership check dominating the append
				if !ok {
					if fl == nil || fl.Body != body {
						fl = core.NewFlow(p, info, body)
					}
					if loc, found := fl.Locate(as); found {
						if holdsAt(fl, body, loc, func(ft core.Fact) bool {
							id, isId := core.Unparen(ft.Expr).(*ast.Ident)
							if !isId || !ft.Truth {
								return false
							}
							// ok-variable of `_, ok := b.treasuresByKeys[key]`
							def := localDefMulti(info, body, info.Uses[id])
							ix, isIx := core.Unparen(def).(*ast.IndexExpr)
							return isIx && core.FieldOf(info, ix.X) == byKeys
						}) {
							ok, why = true, "membership in the key map checked"
						}
					}
				}
				rI.Check(ok, f.Key+":append("+core.ExprStr(call.Args[1])+")", as.Pos(), why,
					"a caller-supplied record is appended to the ordered slice without being in the key map: a record deleted by someone else while it was claimed is brought back and handed out again")
			}
		}
	}

	rE := c.Rule("C11.expired", "the expiry claim sites select exactly records with expiry != 0 and expiry < now (see C30.predicate)", 15)
	for _, k := range []string{pkgBeacon + ".beacon.ShiftExpired", pkgBeacon + ".beacon.SelectExpiredForPatch", pkgBeacon + ".beacon.SelectExpiredForPatchWithCap"} {
		expiredClaimCases(c, rE, k)
	}
}

// expiredClaimCases evaluates the claim site of one function over the abstract expiry cases.
func expiredClaimCases(c *core.Ctx, r *core.Rule, key string) {
	p := c.P
	f := c.Fn(key)
	info := f.Info()
	fl := core.NewFlow(p, info, f.Decl.Body)
	var claimedObj types.Object
	ast.Inspect(f.Decl.Body, func(x ast.Node) bool {
		if ret, ok := x.(*ast.ReturnStmt); ok && len(ret.Results) >= 1 {
			if o := core.ObjOf(info, ret.Results[0]); o != nil {
				claimedObj = o
			}
		}
		return true
	})
	var claim *ast.AssignStmt
	ast.Inspect(f.Decl.Body, func(x ast.Node) bool {
		as, ok := x.(*ast.AssignStmt)
		if ok && len(as.Lhs) == 1 && claimedObj != nil && core.ObjOf(info, as.Lhs[0]) == claimedObj {
			if call, ok := core.Unparen(as.Rhs[0]).(*ast.CallExpr); ok && isBuiltinCall(info, call, "append") {
				claim = as
			}
		}
		return true
	})
	if claim == nil {
		r.Bad(key+":claim", f.Decl.Pos(), "claim site not found")
		return
	}
	loc := fl.MustLocate(claim)
	conds := fl.CondsAt(loc)
	for _, cs := range expiryCases {
		atom := expiryAtom(info, f.Decl.Body, cs)
		reachable := true
		for _, cnd := range conds {
			if v, known := core.EvalBool(info, cnd.Expr, atom); known && v != cnd.Truth {
				reachable = false
			}
		}
		want := !cs.isZero && cs.beforeNow
		r.Check(reachable == want, key+":"+cs.name, claim.Pos(), "claim reachable="+b2s(reachable), "claim in case "+cs.name+": reachable="+b2s(reachable)+" specified="+b2s(want))
	}
}

func c12(c *core.Ctx) {
	p := c.P
	curProg = p
	c.Explain = "Static necessary conditions for cap enforcement: the count that seeds the budget is taken while the cap mutex is held; every cap-bearing entry point takes the cap mutex on its cap branch and releases it only at exit; in PatchFields budget is consumed exactly on the not-matching -> matching transition, after the budget <= 0 rejection and before the content write; in the beacon the cap count and the selection run in one write-locked region and the effective limit never exceeds the remaining budget."
	c.NotCovered = []string{"cap invariants over real interleavings", "operations that do not carry the cap (by the statement's premise)", "cap predicates that depend on state outside the record"}

	rCL := c.Rule("C12.countlock", "capPreCount acquires the cap mutex before it counts the matching records and hands the held lock to the caller", 1)
	{
		f := c.Fn(pkgGateway + ".capPreCount")
		info := f.Info()
		fl := core.NewFlow(p, info, f.Decl.Body)
		var lock, count *ast.CallExpr
		core.Calls(f.Decl.Body, false, func(call *ast.CallExpr) {
			if core.MethodNamed(info, call, pkgSwamp, []string{"Swamp"}, "LockCapMu") {
				lock = call
			}
			if core.MethodNamed(info, call, pkgSwamp, []string{"Swamp"}, "CountMatchingTreasures") {
				count = call
			}
		})
		ok := false
		if lock != nil && count != nil {
			ll, lc := fl.MustLocate(lock), fl.MustLocate(count)
			ok = fl.Dominates(ll, lc) && ll != lc
		}
		rCL.Check(ok, f.Key+":count-under-capMu", f.Decl.Pos(), "LockCapMu dominates CountMatchingTreasures",
			"the budget is counted before the cap mutex is taken: two concurrent cap-bearing batches both count the old state and together exceed the cap")
	}

	rCM := c.Rule("C12.capmu", "PatchExpired and the shift-matching core take capMu when a cap predicate is present and release it only by defer; the explicit-key patch path calls capPreCount on its cap branch and defers the returned unlock", 3)
	for _, k := range []string{pkgSwamp + ".swamp.PatchExpired", pkgSwamp + ".swamp.cloneAndDeleteMatchingLocked"} {
		f := c.Fn(k)
		info := f.Info()
		ok := false
		ast.Inspect(f.Decl.Body, func(x ast.Node) bool {
			is, isIf := x.(*ast.IfStmt)
			if !isIf {
				return true
			}
			be, isB := core.Unparen(is.Cond).(*ast.BinaryExpr)
			if !isB || be.Op != token.NEQ || !core.IsNilIdent(info, be.Y) {
				return true
			}
			if _, isFn := info.TypeOf(be.X).Underlying().(*types.Signature); !isFn {
				return true
			}
			locks, defers := false, false
			for _, st := range is.Body.List {
				if es, isE := st.(*ast.ExprStmt); isE {
					if call, isC := es.X.(*ast.CallExpr); isC && core.IsCallTo(info, call, "sync.Mutex.Lock") && strings.HasSuffix(core.ExprStr(core.RecvExpr(call)), "capMu") {
						locks = true
					}
				}
				if ds, isD := st.(*ast.DeferStmt); isD && core.IsCallTo(info, ds.Call, "sync.Mutex.Unlock") && strings.HasSuffix(core.ExprStr(core.RecvExpr(ds.Call)), "capMu") {
					defers = true
				}
			}
			if locks && defers {
				ok = true
			}
			return true
		})
		// no explicit unlock elsewhere
		explicit := false
		core.Calls(f.Decl.Body, false, func(call *ast.CallExpr) {
			if core.IsCallTo(info, call, "sync.Mutex.Unlock") && strings.HasSuffix(core.ExprStr(core.RecvExpr(call)), "capMu") {
				for _, n := range core.PathTo(f.Decl.Body, call) {
					if _, isD := n.(*ast.DeferStmt); isD {
						return
					}
				}
				explicit = true
			}
		})
		rCM.Check(ok && !explicit, k, f.Decl.Pos(), "capMu locked on the cap branch, released by defer", "a cap-bearing operation does not hold capMu for its whole duration")
	}
	{
		f := c.Fn(pkgGateway + ".patchTreasuresOneSwamp")
		info := f.Info()
		ok := false
		ast.Inspect(f.Decl.Body, func(x ast.Node) bool {
			as, isAs := x.(*ast.AssignStmt)
			if !isAs || len(as.Rhs) != 1 || len(as.Lhs) != 2 {
				return true
			}
			call, isC := core.Unparen(as.Rhs[0]).(*ast.CallExpr)
			if !isC || !core.IsWsCallTo(info, call, pkgGateway+".capPreCount") {
				return true
			}
			unlockObj := core.ObjOf(info, as.Lhs[1])
			ast.Inspect(f.Decl.Body, func(y ast.Node) bool {
				if ds, isD := y.(*ast.DeferStmt); isD {
					if id, isId := core.Unparen(ds.Call.Fun).(*ast.Ident); isId && info.Uses[id] == unlockObj {
						ok = true
					}
				}
				return true
			})
			return true
		})
		rCM.Check(ok, f.Key, f.Decl.Pos(), "capPreCount's unlock is deferred", "the explicit-key patch path does not keep the cap mutex for the whole batch")
	}

	rFC := c.Rule("C12.fourcell", "in PatchFields the budget is decremented exactly where !preMatched && postMatched holds and the budget is known to be > 0 (nil or <= 0 returns CapExceeded first); the content write is reachable only behind the cap check", 2)
	{
		f := c.Fn(pkgSwamp + ".swamp.PatchFields")
		info := f.Info()
		fl := core.NewFlow(p, info, f.Decl.Body)
		var dec *ast.IncDecStmt
		ast.Inspect(f.Decl.Body, func(x ast.Node) bool {
			if ids, ok := x.(*ast.IncDecStmt); ok && ids.Tok == token.DEC && strings.Contains(core.ExprStr(ids.X), "CapBudgetLeft") {
				dec = ids
			}
			return true
		})
		if dec == nil {
			rFC.Bad(f.Key+":budget-decrement", f.Decl.Pos(), "budget decrement not found")
		} else {
			loc := fl.MustLocate(dec)
			isLocalDefinedFromPredicate := func(e ast.Expr, wantInput bool) bool {
				id, ok := core.Unparen(e).(*ast.Ident)
				if !ok {
					return false
				}
				// a local assigned from opts.CapPredicate(<body>)
				n := 0
				ast.Inspect(f.Decl.Body, func(y ast.Node) bool {
					if as, isAs := y.(*ast.AssignStmt); isAs && len(as.Lhs) == 1 && len(as.Rhs) == 1 && core.ObjOf(info, as.Lhs[0]) == info.Uses[id] {
						if call, isC := core.Unparen(as.Rhs[0]).(*ast.CallExpr); isC && strings.Contains(core.ExprStr(call.Fun), "CapPredicate") {
							n++
						}
					}
					return true
				})
				return n > 0
			}
			pre := holdsAt(fl, f.Decl.Body, loc, func(ft core.Fact) bool { return !ft.Truth && isLocalDefinedFromPredicate(ft.Expr, true) })
			post := holdsAt(fl, f.Decl.Body, loc, func(ft core.Fact) bool { return ft.Truth && isLocalDefinedFromPredicate(ft.Expr, false) })
			positive := holdsAt(fl, f.Decl.Body, loc, func(ft core.Fact) bool {
				return cmpFact(ft, func(x ast.Expr, op token.Token, y ast.Expr) bool {
					return strings.Contains(core.ExprStr(x), "CapBudgetLeft") && isConst(info, y, 0) && op == token.GTR
				})
			})
			rFC.Check(pre && post && positive, f.Key+":budget-decrement", dec.Pos(), "decrement under !pre && post && budget > 0",
				"budget is consumed outside the not-matching -> matching cell or without a positive budget (pre="+b2s(pre)+" post="+b2s(post)+" positive="+b2s(positive)+")")
			// content write behind the cap check: the cap if-statement condition dominates the write
			var write *ast.CallExpr
			core.Calls(f.Decl.Body, false, func(call *ast.CallExpr) {
				if fo := core.Callee(info, call); fo != nil && fo.Name() == "SetContentByteArray" {
					write = call
				}
			})
			ok := false
			if write != nil {
				lw := fl.MustLocate(write)
				// the decrement's block must not be reachable after the write, and the CapExceeded return must precede the write
				ok = !fl.Dominates(lw, loc)
				reach, _ := fl.CanReach(lw, nil, nil, core.ContainsNode(dec))
				ok = ok && !reach
			}
			rFC.Check(ok, f.Key+":cap-before-write", f.Decl.Pos(), "cap decided before the content is written", "the content is written before the cap decision")
			// a record that is being created did not match before: the 'pre' side of the four-cell rule
			// is evaluated only for records that exist (the create flag is the bool set on the
			// void-content branch); a seed body is not a stored record
			voidConst := p.Const(pkgTreasure, "ContentTypeVoid")
			createFlags := map[types.Object]bool{}
			ast.Inspect(f.Decl.Body, func(y ast.Node) bool {
				cc, isCC := y.(*ast.CaseClause)
				if !isCC {
					return true
				}
				isVoid := false
				for _, e := range cc.List {
					if core.ObjOf(info, e) == types.Object(voidConst) {
						isVoid = true
					}
				}
				if !isVoid {
					return true
				}
				for _, st := range cc.Body {
					if as, isAs := st.(*ast.AssignStmt); isAs && len(as.Lhs) == 1 && len(as.Rhs) == 1 {
						if v, isB := core.BoolLit(info, as.Rhs[0]); isB && v {
							createFlags[core.ObjOf(info, as.Lhs[0])] = true
						}
					}
				}
				return true
			})
			// the 'pre' variable: the one negated in the decrement's guard
			var preObj types.Object
			for _, cnd := range fl.CondsAt(loc) {
				ast.Inspect(cnd.Expr, func(y ast.Node) bool {
					if u, isU := y.(*ast.UnaryExpr); isU && u.Op == token.NOT {
						if isLocalDefinedFromPredicate(u.X, true) {
							preObj = core.ObjOf(info, u.X)
						}
					}
					return true
				})
			}
			okPre := preObj != nil && len(createFlags) > 0
			if okPre {
				ast.Inspect(f.Decl.Body, func(y ast.Node) bool {
					as, isAs := y.(*ast.AssignStmt)
					if !isAs || len(as.Lhs) != 1 || len(as.Rhs) != 1 || core.ObjOf(info, as.Lhs[0]) != preObj {
						return true
					}
					if _, isCall := core.Unparen(as.Rhs[0]).(*ast.CallExpr); !isCall {
						return true // the initial `pre := false`
					}
					la, found := fl.Locate(as)
					guarded := false
					if found {
						for _, ft := range fl.FactsAt(la) {
							if id, isId := core.Unparen(ft.Expr).(*ast.Ident); isId && createFlags[info.Uses[id]] && !ft.Truth {
								guarded = true
							}
						}
					}
					if !guarded {
						okPre = false
					}
					return true
				})
			}
			rFC.Check(okPre, f.Key+":pre-only-for-existing-records", dec.Pos(), "the pre-match is evaluated only when the record existed", "the 'matched before' side of the four-cell rule is also evaluated for a record that is being created (on its seed body): a create whose seed already satisfies the cap filter counts as (yes -> yes), consumes no budget and pushes the number of matching records above the cap")
		}
	}

	rB := c.Rule("C12.beacon", "in ShiftMatching and SelectExpiredForPatchWithCap: the function returns before selecting when budget <= 0, the effective limit is lowered to the budget when it is smaller, and cap count and selection share the write-locked region (lockset rule)", 4)
	for _, n := range []string{"ShiftMatching", "SelectExpiredForPatchWithCap"} {
		f := c.Fn(pkgBeacon + ".beacon." + n)
		info := f.Info()
		early, lowered := false, false
		var clampAssign *ast.AssignStmt
		var limitObj types.Object
		// the remaining budget: the local defined as <cap maximum parameter> - <current count>
		sigB := f.Obj.Type().(*types.Signature)
		capMaxParam := sigB.Params().At(sigB.Params().Len() - 1)
		var budgetObj types.Object
		ast.Inspect(f.Decl.Body, func(x ast.Node) bool {
			if as, ok := x.(*ast.AssignStmt); ok && len(as.Lhs) == 1 && len(as.Rhs) == 1 {
				if be, isB := core.Unparen(as.Rhs[0]).(*ast.BinaryExpr); isB && be.Op == token.SUB && core.ObjOf(info, be.X) == capMaxParam {
					budgetObj = core.ObjOf(info, as.Lhs[0])
				}
			}
			return true
		})
		ast.Inspect(f.Decl.Body, func(x ast.Node) bool {
			is, ok := x.(*ast.IfStmt)
			if !ok {
				return true
			}
			be, ok := core.Unparen(is.Cond).(*ast.BinaryExpr)
			if !ok {
				return true
			}
			if budgetObj != nil && core.ObjOf(info, be.X) == budgetObj {
				if be.Op == token.LEQ && isConst(info, be.Y, 0) {
					if len(is.Body.List) > 0 {
						if _, isRet := is.Body.List[len(is.Body.List)-1].(*ast.ReturnStmt); isRet {
							early = true
						}
					}
				}
				if be.Op == token.LSS {
					for _, st := range is.Body.List {
						if as, isAs := st.(*ast.AssignStmt); isAs && core.ObjOf(info, as.Lhs[0]) != nil && core.ObjOf(info, as.Lhs[0]) == core.ObjOf(info, be.Y) && core.ObjOf(info, as.Rhs[0]) == budgetObj {
							lowered = true
							clampAssign, limitObj = as, core.ObjOf(info, as.Lhs[0])
						}
					}
				}
			}
			return true
		})
		rB.Check(early, f.Key+":budget<=0-returns", f.Decl.Pos(), "no selection when the budget is exhausted", "selection runs although the cap budget is exhausted")
		rB.Check(lowered, f.Key+":limit<=budget", f.Decl.Pos(), "limit lowered to the budget", "the effective limit is not capped by the remaining budget")
		// the clamp is the last word on the limit: nothing assigns the limit on a path that follows the
		// clamp's test (a "0 means unlimited" normalisation placed after it undoes the clamp for that input)
		if clampAssign != nil && limitObj != nil {
			fl := core.NewFlow(p, info, f.Decl.Body)
			var clampIf *ast.IfStmt
			for _, nd := range core.PathTo(f.Decl.Body, clampAssign) {
				if is, ok := nd.(*ast.IfStmt); ok {
					clampIf = is
				}
			}
			raised := ast.Node(nil)
			if clampIf != nil {
				if lc, ok := fl.Locate(clampIf.Cond); ok {
					fl.Walk(lc, nil, false, func(l core.Loc, nd ast.Node) bool {
						if as, isAs := nd.(*ast.AssignStmt); isAs && as != clampAssign {
							for _, lhs := range as.Lhs {
								if core.ObjOf(info, lhs) == limitObj && raised == nil {
									raised = as
								}
							}
						}
						return true
					})
				}
			}
			if raised != nil {
				rB.Bad(f.Key+":limit-final-after-clamp", raised.Pos(), "the effective limit is assigned again after it was compared with the remaining cap budget: for the input this normalises (for example 'no per-call limit') the clamp did not apply and the selection exceeds the budget")
			} else {
				rB.Ok(f.Key+":limit-final-after-clamp", clampAssign.Pos(), "no assignment of the limit follows the clamp")
			}
		}
	}
	rL := c.Rule("C12.lockset", "index containers only under beacon.mu (shared with C11)", 100)
	beaconLockset(c, rL)
}
