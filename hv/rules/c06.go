package rules

import (
	"go/ast"
	"go/token"
	"go/types"
	"sort"
	"strings"

	"hv/core"
)

func init() {
	register("C06", c06)
	register("C09", c09)
}

// guardRegion is one acquisition of a record guard inside a function body.
type guardRegion struct {
	Fn      *core.Func
	Body    *ast.BlockStmt
	Acquire *ast.CallExpr
	Recv    string       // receiver expression of StartTreasureGuard
	ID      types.Object // variable holding the guard ID
	Waiting bool         // first argument is not the constant false
	Fl      *core.Flow
	Loc     core.Loc
}

func isGuardCall(info *types.Info, call *ast.CallExpr, name string) bool {
	f := core.Callee(info, call)
	if f == nil || f.Name() != name || f.Pkg() == nil {
		return false
	}
	sp := core.Short(f.Pkg().Path())
	return sp == pkgGuard || sp == pkgTreasure
}

// guardRegions finds the acquisitions in a function (literals included).
func guardRegions(p *core.Prog, f *core.Func) []*guardRegion {
	if f.Decl.Body == nil {
		return nil
	}
	info := f.Info()
	var out []*guardRegion
	for _, body := range core.Bodies(f.Decl) {
		var fl *core.Flow
		core.Calls(body, false, func(call *ast.CallExpr) {
			if !isGuardCall(info, call, "StartTreasureGuard") || len(call.Args) == 0 {
				return
			}
			r := &guardRegion{Fn: f, Body: body, Acquire: call, Recv: core.ExprStr(core.RecvExpr(call)), Waiting: true}
			if v, ok := core.BoolLit(info, call.Args[0]); ok && !v {
				r.Waiting = false
			}
			ast.Inspect(body, func(x ast.Node) bool {
				if as, ok := x.(*ast.AssignStmt); ok && len(as.Rhs) == 1 && core.Unparen(as.Rhs[0]) == ast.Expr(call) && len(as.Lhs) == 1 {
					r.ID = core.ObjOf(info, as.Lhs[0])
				}
				return true
			})
			if fl == nil {
				fl = core.NewFlow(p, info, body)
			}
			loc, ok := fl.Locate(call)
			if !ok {
				return
			}
			r.Fl, r.Loc = fl, loc
			out = append(out, r)
		})
	}
	return out
}

// inRegion visits every CFG node that may execute while the guard is held: after the acquisition
// until an explicit (non deferred) release of the same ID; to the exit when the release is deferred.
func (r *guardRegion) walk(info *types.Info, visit func(ast.Node)) {
	isRelease := func(n ast.Node) bool {
		if _, ok := n.(*ast.DeferStmt); ok {
			return false
		}
		found := false
		core.Calls(n, false, func(call *ast.CallExpr) {
			if isGuardCall(info, call, "ReleaseTreasureGuard") && len(call.Args) == 1 && r.ID != nil && core.ObjOf(info, call.Args[0]) == r.ID {
				found = true
			}
		})
		return found
	}
	r.Fl.Walk(r.Loc, nil, true, func(l core.Loc, n ast.Node) bool {
		if isRelease(n) {
			return false
		}
		visit(n)
		return true
	})
}

// mayWaitForGuard computes the workspace functions that may block on a record guard of an
// existing record: they contain StartTreasureGuard(waiting) on a record that is not created in
// the same function, or call such a function at a point that is not preceded by the release of
// a guard ID they received as parameter.
func mayWaitForGuard(c *core.Ctx) map[*core.Func]bool {
	p := c.P
	cg := c.CG()
	w := map[*core.Func]bool{}
	follow := func(s *core.Site) bool {
		if !s.Dynamic {
			return true
		}
		if s.Callee == nil {
			// function value: only the treasure's save method (SaveFunction) matters
			return true
		}
		sp := core.Short(pkgPathOf(s.Callee))
		return sp == pkgSwamp || sp == pkgTreasure || sp == pkgBeacon || sp == pkgChron
	}
	// direct
	for _, f := range p.FuncsUnder("app/core/hydra") {
		if f.Decl.Body == nil || core.Short(f.Pkg.PkgPath) == pkgGuard || core.Short(f.Pkg.PkgPath) == pkgTreasure {
			continue
		}
		info := f.Info()
		fresh := map[types.Object]bool{}
		ast.Inspect(f.Decl.Body, func(x ast.Node) bool {
			if as, ok := x.(*ast.AssignStmt); ok && len(as.Rhs) == 1 && len(as.Lhs) == 1 {
				if call, ok := core.Unparen(as.Rhs[0]).(*ast.CallExpr); ok && core.IsWsCallTo(info, call, pkgTreasure+".New") {
					fresh[core.ObjOf(info, as.Lhs[0])] = true
				}
			}
			return true
		})
		for _, r := range guardRegions(p, f) {
			if !r.Waiting {
				continue
			}
			if o := core.ObjOf(info, core.RecvExpr(r.Acquire)); o != nil && fresh[o] {
				continue
			}
			w[f] = true
		}
	}
	// transitive
	for changed := true; changed; {
		changed = false
		for _, f := range p.FuncsUnder("app/") {
			if w[f] || f.Decl.Body == nil {
				continue
			}
			info := f.Info()
			// guard parameter of this function (released inside?)
			var guardParam types.Object
			sig := f.Obj.Type().(*types.Signature)
			for i := 0; i < sig.Params().Len(); i++ {
				if strings.HasSuffix(sig.Params().At(i).Type().String(), "guard.ID") {
					guardParam = sig.Params().At(i)
				}
			}
			var fl *core.Flow
			for _, s := range cg.Out[f] {
				if !follow(s) || s.InLit {
					continue
				}
				hit := false
				for _, t := range s.Targets {
					if w[t] {
						hit = true
					}
				}
				if !hit {
					continue
				}
				// is this call preceded (dominated) by a release of the guard parameter?
				if guardParam != nil {
					if fl == nil {
						fl = core.NewFlow(p, info, f.Decl.Body)
					}
					if lc, ok := fl.Locate(s.Call); ok {
						released := false
						core.Calls(f.Decl.Body, false, func(c2 *ast.CallExpr) {
							if isGuardCall(info, c2, "ReleaseTreasureGuard") && len(c2.Args) == 1 && core.ObjOf(info, c2.Args[0]) == guardParam {
								if lr, ok := fl.Locate(c2); ok && fl.Dominates(lr, lc) {
									released = true
								}
							}
						})
						if released {
							continue
						}
					}
				}
				w[f] = true
				changed = true
				break
			}
		}
	}
	return w
}

func pkgPathOf(f *types.Func) string {
	if f.Pkg() == nil {
		return ""
	}
	return f.Pkg().Path()
}

var guardPkgs = []string{pkgSwamp, pkgGateway, pkgBeacon, pkgChron}

func c06(c *core.Ctx) {
	p := c.P
	cg := c.CG()
	c.Explain = "Static necessary conditions for the single-client API: while a function holds a record guard it calls nothing that may wait for a record guard of an existing record (the guard is not re-entrant: such a call waits for itself and the request never returns); the status/operator/index/order enum conversions of the gateway are exhaustive and injective; the ten typed increment implementations (swamp and gateway) are structurally identical modulo the numeric type; every delete/shift entry point of the swamp ends with the same 'empty -> cease vigil, destroy' tail."
	c.NotCovered = []string{"conformance of response values to a reference key-value model over histories", "uint32-set semantics on concrete values", "liveness under concurrency (C09/C17)"}

	w := mayWaitForGuard(c)
	rD := c.Rule("C06.selfdeadlock", "inside a record-guard region (from StartTreasureGuard to the release of that ID, or to the function exit when the release is deferred) no call may reach a waiting StartTreasureGuard on an existing record", 25)
	for _, f := range p.FuncsUnder("app/") {
		if f.Decl.Body == nil {
			continue
		}
		sp := core.Short(f.Pkg.PkgPath)
		ok := false
		for _, g := range guardPkgs {
			if sp == g {
				ok = true
			}
		}
		if !ok {
			continue
		}
		info := f.Info()
		for _, r := range guardRegions(p, f) {
			c.Touch(f)
			var bad []string
			var badPos token.Pos
			r.walk(info, func(n ast.Node) {
				if _, isDefer := n.(*ast.DeferStmt); isDefer {
					return
				}
				core.Calls(n, false, func(call *ast.CallExpr) {
					if call == r.Acquire {
						return
					}
					site := cg.SiteOf(f, call)
					if site == nil {
						return
					}
					if site.Dynamic && site.Callee != nil {
						sp2 := core.Short(pkgPathOf(site.Callee))
						if sp2 != pkgSwamp && sp2 != pkgTreasure && sp2 != pkgBeacon && sp2 != pkgChron {
							return
						}
					}
					if site.Dynamic && site.Callee == nil {
						return // callbacks (predicates) are checked where they are built
					}
					for _, t := range site.Targets {
						if w[t] {
							name := t.Key
							bad = append(bad, name)
							badPos = call.Pos()
						}
					}
				})
			})
			construct := f.Key + ":guard(" + r.Recv + ")"
			if len(bad) == 0 {
				rD.Ok(construct, r.Acquire.Pos(), "no nested waiting acquisition reachable in the region")
			} else {
				sort.Strings(bad)
				rD.Bad(construct, badPos, "while holding the guard of "+r.Recv+" the function calls "+strings.Join(uniq(bad), ", ")+", which may wait for a record guard (the guard is not re-entrant: on the same record this waits forever)")
			}
		}
	}

	// enum conversions
	rS := c.Rule("C06.status", "convertTreasureStatusToPbStatus, relationalOperatorToSwampRelationalOperator, inputIndexTypeToBeaconType and inputOrderTypeToBeaconOrderType have a case for every source constant and map distinct sources to distinct targets", 4)
	for _, k := range []string{"convertTreasureStatusToPbStatus", "relationalOperatorToSwampRelationalOperator", "inputIndexTypeToBeaconType", "inputOrderTypeToBeaconOrderType"} {
		f := p.FnOpt(pkgGateway + "." + k)
		if f == nil {
			core.Failf("unresolved anchor: function %s.%s", pkgGateway, k)
		}
		c.Touch(f)
		info := f.Info()
		srcT := f.Obj.Type().(*types.Signature).Params().At(0).Type()
		mapping := map[string]string{}
		ast.Inspect(f.Decl.Body, func(x ast.Node) bool {
			cc, ok := x.(*ast.CaseClause)
			if !ok {
				return true
			}
			tgt := ""
			for _, st := range cc.Body {
				if ret, ok := st.(*ast.ReturnStmt); ok && len(ret.Results) == 1 {
					tgt = core.ExprStr(ret.Results[0])
				}
			}
			for _, e := range cc.List {
				if k, ok := core.ObjOf(info, e).(*types.Const); ok {
					mapping[k.Name()] = tgt
				}
			}
			return true
		})
		var missing []string
		if nt, ok := srcT.(*types.Named); ok {
			for _, k := range enumConsts(nt.Obj().Pkg(), nt) {
				if _, ok := mapping[k.Name()]; !ok && !strings.Contains(strings.ToLower(k.Name()), "void") && !strings.HasSuffix(k.Name(), "_NOT_SET") {
					missing = append(missing, k.Name())
				}
			}
		}
		inv := map[string]string{}
		dup := ""
		for s, t := range mapping {
			if o, ok := inv[t]; ok && o != s {
				dup = s + " and " + o + " -> " + t
			}
			inv[t] = s
		}
		sort.Strings(missing)
		if k == "relationalOperatorToSwampRelationalOperator" {
			// the source enum also carries filter-only operators; what matters for increment conditions is that
			// every operator the engine implements is reachable and carries the same meaning
			missing = nil
			tgtT := f.Obj.Type().(*types.Signature).Results().At(0).Type().(*types.Named)
			covered := map[string]bool{}
			for src, t := range mapping {
				tn := t[strings.LastIndex(t, ".")+1:]
				covered[tn] = true
				// same meaning: RelationalOperatorGreaterThanOrEqual <-> Relational_GREATER_THAN_OR_EQUAL
				a := strings.ToLower(strings.ReplaceAll(strings.TrimPrefix(src, "Relational_"), "_", ""))
				b := strings.ToLower(strings.TrimPrefix(tn, "RelationalOperator"))
				if a != b {
					dup = src + " -> " + tn + " (different operator)"
				}
			}
			for _, kc := range enumConsts(tgtT.Obj().Pkg(), tgtT) {
				if !covered[kc.Name()] {
					missing = append(missing, kc.Name())
				}
			}
		}
		rS.Check(len(missing) == 0 && dup == "" && len(mapping) > 0, f.Key, f.Decl.Pos(), "exhaustive and injective over "+srcT.String(),
			"conversion misses ["+strings.Join(missing, ",")+"] or is not injective / meaning-preserving ("+dup+")")
	}

	// sibling increments
	rI := c.Rule("C06.siblings", "each typed swamp Increment acquires the guard, tests the content type, rejects on the negation of the requested relational operator (== for NotEqual, <= for GreaterThan, ...) for all six operators, and saves on the success path; each gateway Increment handler forwards to the swamp method of the same numeric type", 20)
	negation := map[string]token.Token{
		"RelationalOperatorEqual": token.NEQ, "RelationalOperatorNotEqual": token.EQL,
		"RelationalOperatorGreaterThan": token.LEQ, "RelationalOperatorGreaterThanOrEqual": token.LSS,
		"RelationalOperatorLessThan": token.GEQ, "RelationalOperatorLessThanOrEqual": token.GTR,
	}
	nSw := 0
	for _, f := range p.FuncsIn(pkgSwamp) {
		if f.Decl.Body == nil || !strings.HasPrefix(f.Obj.Name(), "Increment") || f.Decl.Recv == nil {
			continue
		}
		nSw++
		c.Touch(f)
		info := f.Info()
		got := map[string]token.Token{}
		ast.Inspect(f.Decl.Body, func(x ast.Node) bool {
			cc, ok := x.(*ast.CaseClause)
			if !ok || len(cc.List) != 1 {
				return true
			}
			k, ok := core.ObjOf(info, cc.List[0]).(*types.Const)
			if !ok {
				return true
			}
			if _, isRel := negation[k.Name()]; !isRel {
				return true
			}
			for _, st := range cc.Body {
				if is, ok := st.(*ast.IfStmt); ok {
					if be, ok := core.Unparen(is.Cond).(*ast.BinaryExpr); ok {
						// left operand: the current content, right operand: condition.Value
						op := be.Op
						if strings.Contains(core.ExprStr(be.X), "condition") {
							op = mirror(op)
						}
						// the body must return "not incremented"
						notInc := false
						for _, s2 := range is.Body.List {
							if ret, ok := s2.(*ast.ReturnStmt); ok && len(ret.Results) >= 2 {
								if v, ok := core.BoolLit(info, ret.Results[1]); ok && !v {
									notInc = true
								}
							}
						}
						if notInc {
							got[k.Name()] = op
						}
					}
				}
			}
			return true
		})
		var wrong []string
		for name, want := range negation {
			if got[name] != want {
				wrong = append(wrong, name+":"+got[name].String())
			}
		}
		sort.Strings(wrong)
		saved := false
		core.Calls(f.Decl.Body, false, func(call *ast.CallExpr) {
			if fo := core.Callee(info, call); fo != nil && fo.Name() == "Save" {
				saved = true
			}
		})
		rI.Check(len(wrong) == 0 && saved, f.Key, f.Decl.Pos(), "six negated relational tests, saves on success",
			"increment condition handling deviates from its siblings: "+strings.Join(wrong, ", ")+" saved="+b2s(saved)+" (a condition is tested with the wrong comparison for this numeric type)")
	}
	if nSw < 10 {
		rI.Bad(pkgSwamp+":Increment*", token.NoPos, "fewer than ten typed increment implementations found")
	}
	for _, f := range p.FuncsIn(pkgGateway) {
		if f.Decl.Body == nil || !strings.HasPrefix(f.Obj.Name(), "Increment") || f.Decl.Recv == nil {
			continue
		}
		c.Touch(f)
		info := f.Info()
		target := ""
		core.Calls(f.Decl.Body, true, func(call *ast.CallExpr) {
			if fo := core.Callee(info, call); fo != nil && strings.HasPrefix(fo.Name(), "Increment") && core.Short(pkgPathOf(fo)) == pkgSwamp {
				target = fo.Name()
			}
		})
		rI.Check(target == f.Obj.Name(), f.Key, f.Decl.Pos(), "forwards to swamp."+target, "gateway handler "+f.Obj.Name()+" forwards to swamp."+target+" (value is incremented as a different numeric type)")
	}

	// decisions inside a mutating loop use live lookups
	rLC := c.Rule("C06.livecheck", "inside a gateway loop that creates, saves or deletes records of a swamp, a branch condition never reads a snapshot taken from that swamp before the loop (existence maps, counts, looked-up records): each iteration's decision sees the effects of the earlier iterations of the same request", 4)
	{
		swampT := p.Named(pkgSwamp, "Swamp")
		isSwampMethod := func(info *types.Info, call *ast.CallExpr) (string, bool) {
			fo := core.Callee(info, call)
			if fo == nil {
				return "", false
			}
			sig, _ := fo.Type().(*types.Signature)
			if sig == nil || sig.Recv() == nil {
				return "", false
			}
			r := core.RecvExpr(call)
			if r == nil {
				return "", false
			}
			if tv, ok := info.Types[r]; !ok || !types.Identical(tv.Type, swampT) {
				return "", false
			}
			return fo.Name(), true
		}
		mutators := map[string]bool{"CreateTreasure": true, "DeleteTreasure": true, "DeleteAllTreasures": true, "CloneAndDeleteFirst": true, "CloneAndDeleteByKeys": true, "CloneAndDeleteExpired": true, "CloneAndDeleteMatchingTreasures": true, "PatchFields": true, "PatchExpired": true}
		loops := 0
		for _, f := range p.FuncsIn(pkgGateway) {
			if f.Decl.Body == nil {
				continue
			}
			info := f.Info()
			ast.Inspect(f.Decl.Body, func(x ast.Node) bool {
				var body *ast.BlockStmt
				switch l := x.(type) {
				case *ast.RangeStmt:
					body = l.Body
				case *ast.ForStmt:
					body = l.Body
				default:
					return true
				}
				mutates := false
				var recvObj types.Object
				core.Calls(body, true, func(call *ast.CallExpr) {
					if n, ok := isSwampMethod(info, call); ok && (mutators[n] || strings.HasPrefix(n, "Increment")) {
						mutates = true
						recvObj = core.ObjOf(info, core.RecvExpr(call))
					}
				})
				if !mutates {
					return true
				}
				loops++
				c.Touch(f)
				stale := ""
				check := func(cond ast.Expr) {
					ast.Inspect(cond, func(y ast.Node) bool {
						id, ok := y.(*ast.Ident)
						if !ok {
							return true
						}
						v, isVar := info.Uses[id].(*types.Var)
						if !isVar || v.Pos() >= body.Pos() || v.Pos() < f.Decl.Body.Pos() {
							return true // declared inside the loop, or not a local
						}
						def := localDefMulti(info, f.Decl.Body, v)
						if def == nil {
							return true
						}
						if call, isCall := core.Unparen(def).(*ast.CallExpr); isCall {
							if n, okM := isSwampMethod(info, call); okM && !mutators[n] && core.ObjOf(info, core.RecvExpr(call)) == recvObj {
								stale = v.Name() + " := " + n + "(...)"
							}
						}
						return true
					})
				}
				ast.Inspect(body, func(y ast.Node) bool {
					switch st := y.(type) {
					case *ast.IfStmt:
						check(st.Cond)
					case *ast.SwitchStmt:
						if st.Tag != nil {
							check(st.Tag)
						}
					case *ast.CaseClause:
						for _, e := range st.List {
							check(e)
						}
					}
					return true
				})
				rLC.Check(stale == "", f.Key+":loop@"+core.ExprStr(loopSubject(x)), x.Pos(), "decisions use live lookups", "a branch inside the loop reads the snapshot "+stale+" taken before the loop, while the loop itself changes the swamp: a later item of the same request is decided on the state before the earlier items (e.g. an insert-only Set with a repeated new key overwrites the value it just created)")
				return true
			})
		}
		if loops == 0 {
			rLC.Bad(pkgGateway+":mutating-loops", token.NoPos, "no mutating loops found in the gateway")
		}
	}

	// derived per-record state
	rDer := c.Rule("C06.derived", "a record object keeps no container-typed state derived from its content (lookup sets, decoded copies) unless every method that changes the content in place - through the existing pointer, so that pointer identity does not reveal the change - also rewrites that state", 1)
	{
		_, tst := p.StructOf(pkgTreasure, "treasure")
		_, cst := p.StructOf(pkgTreasure, "Content")
		contentFields := map[*types.Var]bool{}
		for _, f := range core.StructFields(cst) {
			contentFields[f] = true
		}
		aux := map[*types.Var]bool{}
		for name, f := range core.StructFields(tst) {
			if name == "mu" || name == "treasure" || name == "saveMethod" || f.Embedded() {
				continue
			}
			switch f.Type().Underlying().(type) {
			case *types.Map, *types.Slice, *types.Pointer:
				aux[f] = true
			}
		}
		if len(aux) == 0 {
			rDer.Ok(pkgTreasure+".treasure:no-derived-state", token.NoPos, "the record object holds the model, its lock, the guard and change flags only")
		} else {
			for _, f := range p.FuncsIn(pkgTreasure) {
				if f.Decl.Body == nil || f.Decl.Recv == nil {
					continue
				}
				info := f.Info()
				// in-place content writes: `*x.Content.F = ...` or element stores through a Content field
				inPlace := token.NoPos
				ast.Inspect(f.Decl.Body, func(x ast.Node) bool {
					as, ok := x.(*ast.AssignStmt)
					if !ok {
						return true
					}
					for _, lhs := range as.Lhs {
						l := core.Unparen(lhs)
						if st, isStar := l.(*ast.StarExpr); isStar {
							if fv := core.FieldOf(info, st.X); fv != nil && contentFields[fv] {
								inPlace = as.Pos()
							}
						}
						if ix, isIx := l.(*ast.IndexExpr); isIx {
							base := core.Unparen(ix.X)
							if st, isStar := base.(*ast.StarExpr); isStar {
								base = st.X
							}
							if fv := core.FieldOf(info, base); fv != nil && contentFields[fv] {
								inPlace = as.Pos()
							}
						}
					}
					return true
				})
				if inPlace == token.NoPos {
					continue
				}
				c.Touch(f)
				for a := range aux {
					rewrites := false
					for _, ac := range core.Accesses(info, f.Decl.Body, map[*types.Var]bool{a: true}, false) {
						if ac.Write {
							rewrites = true
						}
					}
					rDer.Check(rewrites, f.Key+":"+a.Name(), inPlace, "derived state rewritten with the content", "the method changes the record's content in place but leaves treasure."+a.Name()+" (state derived from the content) as it was: later operations that consult it see values the record no longer holds (e.g. a value deleted from a uint32 set can never be pushed again)")
				}
			}
		}
	}

	// auto-destroy tails
	// C06.retire: a deleted key starts from scratch. The in-flight tracker hands the same record object to
	// every CreateTreasure of a key until the record is published; if publication did not retire the entry,
	// a later delete + re-create of the key would get the old object back (old counter value, old set
	// members, still marked deleted).
	rRt := c.Rule("C06.retire", "the function that makes a new record visible in the key index also removes the record's key from the in-flight tracker on every path that follows (a key that is deleted later is created afresh by the next CreateTreasure, never resurrected from a stale tracker entry)", 1)
	{
		_, swSt := p.StructOf(pkgSwamp, "swamp")
		keyIdx := core.StructFields(swSt)["beaconKey"]
		// the tracker: a sync.Map field of the swamp that CreateTreasure both loads from and stores into
		var tracker *types.Var
		if ct := p.FnOpt(pkgSwamp + ".swamp.CreateTreasure"); ct != nil && ct.Decl.Body != nil {
			loads, stores := map[*types.Var]bool{}, map[*types.Var]bool{}
			for _, a := range core.Accesses(ct.Info(), ct.Decl.Body, nil, false) {
				switch a.Form {
				case "method:Load":
					loads[a.Field] = true
				case "method:Store", "method:LoadOrStore":
					stores[a.Field] = true
				}
			}
			_ = loads
			for f := range stores {
				if isSyncMapVar(f) {
					tracker = f
				}
			}
		}
		if keyIdx == nil {
			rRt.Bad(pkgSwamp+".swamp:key-index", token.NoPos, "the swamp has no beaconKey field any more (rule needs review)")
		} else if tracker == nil {
			rRt.Ok(pkgSwamp+".swamp.CreateTreasure:no-tracker", token.NoPos, "CreateTreasure keeps no in-flight tracker: nothing to retire")
		} else {
			n := 0
			for _, f := range p.FuncsIn(pkgSwamp) {
				if f.Decl.Body == nil {
					continue
				}
				info := f.Info()
				var adds []*ast.CallExpr
				core.Calls(f.Decl.Body, false, func(call *ast.CallExpr) {
					if fo := core.Callee(info, call); fo != nil && fo.Name() == "Add" && core.FieldOf(info, core.RecvExpr(call)) == keyIdx {
						adds = append(adds, call)
					}
				})
				if len(adds) == 0 {
					continue
				}
				c.Touch(f)
				fl := core.NewFlow(p, info, f.Decl.Body)
				retires := core.NodeHasCall(func(call *ast.CallExpr) bool {
					fo := core.Callee(info, call)
					if fo == nil || core.FieldOf(info, core.RecvExpr(call)) != tracker {
						return false
					}
					switch fo.Name() {
					case "Delete", "LoadAndDelete", "CompareAndDelete":
						return true
					}
					return false
				})
				for _, a := range adds {
					n++
					la := fl.MustLocate(a)
					rRt.Check(!fl.ExitWithout(la, nil, false, retires), f.Key+":publish-retires-tracker-entry", a.Pos(), "every path after the key-index Add removes the key from the tracker",
						"a new record is made visible in the key index here and the function can return without removing its key from the in-flight tracker: after the key is deleted, the next CreateTreasure returns the old record object (an increment continues from the old value, a push brings the old members back, a flushed record is written as deleted)")
				}
			}
			if n == 0 {
				rRt.Bad(pkgSwamp+":publisher", token.NoPos, "no function adds records to the key index")
			}
		}
	}

	rA := c.Rule("C06.autodestroy", "every swamp method that removes records through a delete primitive (a function that removes from the key index, or its thin wrapper) checks for an empty swamp afterwards and then ceases its vigil before Destroy (Destroy waits for all vigils)", 3)
	// delete primitives, by role: functions that remove a record from the key index, and thin
	// wrappers whose whole body is a call to such a function
	keyIdxF := p.MustField(pkgSwamp, "swamp", "beaconKey")
	prims := map[*core.Func]bool{}
	for _, f := range p.FuncsIn(pkgSwamp) {
		if f.Decl.Body == nil {
			continue
		}
		core.Calls(f.Decl.Body, false, func(call *ast.CallExpr) {
			if fo := core.Callee(f.Info(), call); fo != nil && fo.Name() == "Delete" && core.FieldOf(f.Info(), core.RecvExpr(call)) == keyIdxF {
				prims[f] = true
			}
		})
	}
	for changed := true; changed; {
		changed = false
		for _, f := range p.FuncsIn(pkgSwamp) {
			if f.Decl.Body == nil || prims[f] || len(f.Decl.Body.List) != 1 {
				continue
			}
			if ret, ok := f.Decl.Body.List[0].(*ast.ReturnStmt); ok && len(ret.Results) == 1 {
				if call, isCall := core.Unparen(ret.Results[0]).(*ast.CallExpr); isCall {
					if t := p.ByObj[core.Callee(f.Info(), call)]; t != nil && prims[t] {
						prims[f] = true
						changed = true
					}
				}
			}
		}
	}
	for _, f := range p.FuncsIn(pkgSwamp) {
		if f.Decl.Body == nil || prims[f] {
			continue
		}
		usesPrim := false
		core.Calls(f.Decl.Body, false, func(call *ast.CallExpr) {
			if t := p.ByObj[core.Callee(f.Info(), call)]; t != nil && prims[t] {
				usesPrim = true
			}
		})
		if !usesPrim {
			continue
		}
		info := f.Info()
		fl := core.NewFlow(p, info, f.Decl.Body)
		c.Touch(f)
		var destroy *ast.CallExpr
		core.Calls(f.Decl.Body, false, func(call *ast.CallExpr) {
			if core.IsWsCallTo(info, call, pkgSwamp+".swamp.Destroy") {
				destroy = call
			}
		})
		if destroy == nil {
			// the shift-matching core delegates the tail to its exported wrapper
			callers := cg.CallersOf(f)
			delegated := len(callers) > 0
			for _, s := range callers {
				if !callsDirect(s.Caller, pkgSwamp+".swamp.Destroy") {
					delegated = false
				}
			}
			rA.Check(delegated, f.Key, f.Decl.Pos(), "tail performed by the only caller", "records are deleted but an emptied swamp is not destroyed")
			continue
		}
		ld := fl.MustLocate(destroy)
		emptyChecked := holdsAt(fl, f.Decl.Body, ld, func(ft core.Fact) bool {
			return cmpFact(ft, func(x ast.Expr, op token.Token, y ast.Expr) bool {
				if !isConst(info, y, 0) || op != token.EQL {
					return false
				}
				txt := core.ExprStr(x)
				if strings.Contains(txt, "Count()") {
					return true
				}
				if id, ok := core.Unparen(x).(*ast.Ident); ok {
					if def := localDef(info, f.Decl.Body, info.Uses[id]); def != nil && strings.Contains(core.ExprStr(def), "Count()") {
						return true
					}
				}
				return false
			})
		})
		ceased := false
		core.Calls(f.Decl.Body, false, func(call *ast.CallExpr) {
			if fo := core.Callee(info, call); fo != nil && fo.Name() == "CeaseVigil" {
				if l, ok := fl.Locate(call); ok && fl.Dominates(l, ld) {
					ceased = true
				}
			}
		})
		rA.Check(emptyChecked && ceased, f.Key, destroy.Pos(), "Count()==0 -> CeaseVigil -> Destroy", "auto-destroy tail differs (emptyChecked="+b2s(emptyChecked)+" vigilCeasedFirst="+b2s(ceased)+"): Destroy would wait for the caller's own vigil or destroy a non-empty swamp")
	}
}

func uniq(s []string) []string {
	var out []string
	for i, x := range s {
		if i == 0 || x != s[i-1] {
			out = append(out, x)
		}
	}
	return out
}

func c09(c *core.Ctx) {
	p := c.P
	c.Explain = "Static necessary conditions for linearizable per-key writes: guard IDs are never reused (a stale release cannot free a later holder); every mutating record method called from swamp, gateway, chronicler and beacon code receives a guard ID that was acquired on the same record in the same function (or passed in as the function's guard parameter) and is called inside that guard's region; after a call that may release the guard (Save, which releases inside the save function in immediate-write mode) no further guarded mutation with that ID follows; existence/type tests of read-modify-write operations happen after the guard was acquired; get-or-create runs its lookup, in-flight lookup and registration under one mutex."
	c.NotCovered = []string{"linearizability of real histories", "atomicity across several records", "mutations through interfaces the call graph cannot resolve"}

	rU := c.Rule("C09.idunique", "the guard ID counter is only incremented (see C15.monotonic)", 1)
	counter := p.MustField(pkgGuard, "guard", "largestGuardID")
	for _, f := range p.FuncsIn(pkgGuard) {
		if f.Decl.Body == nil {
			continue
		}
		for _, a := range core.Accesses(f.Info(), f.Decl.Body, map[*types.Var]bool{counter: true}, true) {
			if a.Write {
				c.Touch(f)
				rU.Check(a.Form == "add+" || a.Form == "incdec+", f.Key+":largestGuardID:"+a.Form, a.Node.Pos(), "increment", "guard IDs can repeat: a late duplicate release frees another holder's guard and two writers run concurrently (lost update)")
			}
		}
	}

	rG := c.Rule("C09.guarded", "a mutating record method (first parameter guard.ID) is called with an ID acquired from StartTreasureGuard on the same record expression in the same function, or with the function's own guard parameter, and the call lies inside that guard's region", 60)
	rS := c.Rule("C09.aftersave", "after Save(guardID) (which may release the guard) the function performs no further mutation with that guard ID", 15)
	for _, f := range p.FuncsUnder("app/") {
		if f.Decl.Body == nil {
			continue
		}
		sp := core.Short(f.Pkg.PkgPath)
		ok := false
		for _, g := range guardPkgs {
			if sp == g {
				ok = true
			}
		}
		if !ok {
			continue
		}
		info := f.Info()
		regions := guardRegions(p, f)
		guardParams := map[types.Object]bool{}
		sig := f.Obj.Type().(*types.Signature)
		for i := 0; i < sig.Params().Len(); i++ {
			if strings.HasSuffix(sig.Params().At(i).Type().String(), "guard.ID") {
				guardParams[sig.Params().At(i)] = true
			}
		}
		// literal parameters of guard type (callbacks) count too
		for _, l := range core.AllLits(f.Decl.Body) {
			for _, fld := range l.Type.Params.List {
				for _, nm := range fld.Names {
					if o := info.Defs[nm]; o != nil && strings.HasSuffix(o.Type().String(), "guard.ID") {
						guardParams[o] = true
					}
				}
			}
		}
		inRegion := map[*ast.CallExpr]*guardRegion{}
		for _, r := range regions {
			r.walk(info, func(n ast.Node) {
				core.Calls(n, false, func(call *ast.CallExpr) {
					if _, seen := inRegion[call]; !seen {
						inRegion[call] = r
					}
				})
				// deferred calls registered inside the region run before the deferred release registered earlier
			})
		}
		for _, body := range core.Bodies(f.Decl) {
			core.Calls(body, false, func(call *ast.CallExpr) {
				fo := core.Callee(info, call)
				if fo == nil || fo.Pkg() == nil || core.Short(fo.Pkg().Path()) != pkgTreasure {
					return
				}
				fsig := fo.Type().(*types.Signature)
				if fsig.Recv() == nil || fsig.Params().Len() == 0 || !strings.HasSuffix(fsig.Params().At(0).Type().String(), "guard.ID") {
					return
				}
				if len(call.Args) == 0 {
					return
				}
				c.Touch(f)
				idObj := core.ObjOf(info, call.Args[0])
				recv := core.ExprStr(core.RecvExpr(call))
				construct := f.Key + ":" + recv + "." + fo.Name()
				if guardParams[idObj] {
					rG.Ok(construct, call.Pos(), "uses the function's guard parameter")
					return
				}
				var reg *guardRegion
				for _, r := range regions {
					if r.ID == idObj && r.ID != nil {
						reg = r
					}
				}
				switch {
				case reg == nil:
					rG.Bad(construct, call.Pos(), "mutating call with a guard ID that was not acquired in this function ("+core.ExprStr(call.Args[0])+")")
				case reg.Recv != recv:
					rG.Bad(construct, call.Pos(), "guard acquired on "+reg.Recv+" but the mutation is on "+recv)
				default:
					_, inside := inRegion[call]
					// calls in deferred statements / nested literals are not walked; accept when the literal sits in the region's body
					if !inside {
						if body != reg.Body {
							inside = true
						}
						for _, n := range core.PathTo(reg.Body, call) {
							if _, isDefer := n.(*ast.DeferStmt); isDefer {
								inside = true
							}
						}
					}
					rG.Check(inside, construct, call.Pos(), "inside the guard region", "mutation with guard ID "+core.ExprStr(call.Args[0])+" happens outside the region in which that guard is held (before the acquisition or after its release)")
				}
			})
		}
		// aftersave
		for _, r := range regions {
			if r.ID == nil {
				continue
			}
			var saves []*ast.CallExpr
			core.Calls(r.Body, false, func(call *ast.CallExpr) {
				if fo := core.Callee(info, call); fo != nil && fo.Name() == "Save" && core.Short(pkgPathOf(fo)) == pkgTreasure && len(call.Args) == 1 && core.ObjOf(info, call.Args[0]) == r.ID {
					saves = append(saves, call)
				}
			})
			for _, sv := range saves {
				ls, ok := r.Fl.Locate(sv)
				if !ok {
					continue
				}
				bad := ""
				r.Fl.Walk(ls, nil, false, func(l core.Loc, n ast.Node) bool {
					if _, isDefer := n.(*ast.DeferStmt); isDefer {
						return true
					}
					core.Calls(n, false, func(c2 *ast.CallExpr) {
						if c2 == sv {
							return
						}
						fo := core.Callee(info, c2)
						if fo == nil || core.Short(pkgPathOf(fo)) != pkgTreasure || len(c2.Args) == 0 || core.ObjOf(info, c2.Args[0]) != r.ID {
							return
						}
						switch fo.Name() {
						case "ReleaseTreasureGuard", "Save", "CanExecute":
							return
						}
						bad = fo.Name()
					})
					return true
				})
				rS.Check(bad == "", f.Key+":after-Save("+r.Recv+")", sv.Pos(), "no guarded mutation after Save", "after Save (which releases the guard in immediate-write mode) the function still calls "+bad+" with the same guard ID: the mutation races with the next holder and can be lost")
				// reads of the record after Save are unguarded in immediate-write mode: the value may already
				// belong to the next writer. Accepted: the key (immutable), and reads whose result is only logged.
				readAfter := ""
				r.Fl.Walk(ls, nil, false, func(l core.Loc, n ast.Node) bool {
					if _, isDefer := n.(*ast.DeferStmt); isDefer {
						return true
					}
					core.Calls(n, false, func(c2 *ast.CallExpr) {
						if c2 == sv {
							return
						}
						fo := core.Callee(info, c2)
						if fo == nil || core.Short(pkgPathOf(fo)) != pkgTreasure {
							return
						}
						rx := core.RecvExpr(c2)
						if rx == nil || core.ExprStr(rx) != r.Recv {
							return
						}
						if !strings.HasPrefix(fo.Name(), "Get") && !strings.HasPrefix(fo.Name(), "Is") && !strings.HasPrefix(fo.Name(), "Uint32Slice") {
							return
						}
						if fo.Name() == "GetKey" {
							return
						}
						readAfter = fo.Name()
					})
					return true
				})
				rS.Check(readAfter == "", f.Key+":read-after-Save("+r.Recv+")", sv.Pos(), "the record is not read again after Save", "after Save (which releases the guard in immediate-write mode) the function reads the record again ("+readAfter+") without the guard: a queued writer of the same key can commit in between, so the value reported for this request is not the one it committed (two concurrent +1 on 1 both answer 3)")
			}
		}
	}

	rOw := c.Rule("C09.idowner", "a guard ID received together with its record is used only on that record (shared with C15.idowner): a release or a guarded write on another record with the caller's ID breaks the exclusion of both records", 5)
	guardOwnerRule(c, rOw)

	// C09.snapshot: decisions inside a guarded region are taken on what the guard protects, not on what a
	// lookup said before the guard was acquired.
	rSn := c.Rule("C09.snapshot", "in a function of the swamp that acquires a record guard, a value derived from a key-index (or in-flight tracker) lookup made before the guard was acquired - the looked-up pointer, or a flag set on the branch that tested it - is not read by a branch condition of the guarded region (deferred cleanup literals excepted): between the lookup and the guard another request can create, patch or delete the key, so the flag describes a state that may be gone", 10)
	{
		_, swSt := p.StructOf(pkgSwamp, "swamp")
		keyIdx := core.StructFields(swSt)["beaconKey"]
		n := 0
		for _, f := range p.FuncsIn(pkgSwamp) {
			if f.Decl.Body == nil || keyIdx == nil {
				continue
			}
			info := f.Info()
			var g *ast.CallExpr
			core.Calls(f.Decl.Body, false, func(call *ast.CallExpr) {
				if fo := core.Callee(info, call); fo != nil && fo.Name() == "StartTreasureGuard" && g == nil {
					g = call
				}
			})
			if g == nil {
				continue
			}
			recObj := core.ObjOf(info, core.RecvExpr(g))
			// pre-guard lookups
			lookedUp := map[types.Object]bool{}
			ast.Inspect(f.Decl.Body, func(x ast.Node) bool {
				if _, isLit := x.(*ast.FuncLit); isLit {
					return false
				}
				as, ok := x.(*ast.AssignStmt)
				if !ok || as.Pos() > g.Pos() || len(as.Lhs) != len(as.Rhs) {
					return true
				}
				for i, r := range as.Rhs {
					call, isCall := core.Unparen(r).(*ast.CallExpr)
					if !isCall {
						continue
					}
					if fo := core.Callee(info, call); fo != nil && (fo.Name() == "Get" || fo.Name() == "Load") && core.FieldOf(info, core.RecvExpr(call)) != nil {
						fld := core.FieldOf(info, core.RecvExpr(call))
						if fld == keyIdx || isSyncMapVar(fld) {
							if o := core.ObjOf(info, as.Lhs[i]); o != nil {
								lookedUp[o] = true
							}
						}
					}
				}
				return true
			})
			if len(lookedUp) == 0 {
				continue
			}
			n++
			c.Touch(f)
			fl := core.NewFlow(p, info, f.Decl.Body)
			lg := fl.MustLocate(g)
			// flags: bool locals assigned before the guard under a test of a looked-up value, or from one
			flags := map[types.Object]bool{}
			fl.Nodes(func(l core.Loc, nd ast.Node) {
				as, ok := nd.(*ast.AssignStmt)
				if !ok || as.Pos() > g.Pos() || len(as.Lhs) != len(as.Rhs) {
					return
				}
				for i, lhs := range as.Lhs {
					o := core.ObjOf(info, lhs)
					if o == nil || lookedUp[o] {
						continue
					}
					if b, isB := o.Type().Underlying().(*types.Basic); !isB || b.Kind() != types.Bool {
						continue
					}
					dep := false
					for lo := range lookedUp {
						if core.Mentions(info, as.Rhs[i], lo) {
							dep = true
						}
						for _, ft := range fl.FactsAt(l) {
							if core.Mentions(info, ft.Expr, lo) {
								dep = true
							}
						}
					}
					if dep {
						flags[o] = true
					}
				}
			})
			var bad ast.Expr
			var badObj types.Object
			for bi := range fl.G.Blocks {
				if !fl.Reachable(bi) {
					continue
				}
				cond := fl.CondOf(bi)
				if cond == nil || cond.Pos() < g.End() {
					continue
				}
				if !fl.Dominates(lg, core.Loc{B: bi, I: len(fl.G.Blocks[bi].Nodes) - 1}) {
					continue
				}
				for o := range flags {
					if core.Mentions(info, cond, o) {
						bad, badObj = cond, o
					}
				}
				for o := range lookedUp {
					if o != recObj && core.Mentions(info, cond, o) {
						bad, badObj = cond, o
					}
				}
			}
			if bad != nil {
				rSn.Bad(f.Key+":guarded-decision-on-pre-guard-lookup", bad.Pos(), "this condition of the guarded region reads "+badObj.Name()+", which was computed from a lookup made before the guard was acquired: a request that created or changed the key in between is overwritten or ignored (lost update)")
			} else {
				rSn.Ok(f.Key+":guarded-decision-on-pre-guard-lookup", f.Decl.Pos(), "no guarded branch reads a pre-guard lookup result")
			}
		}
		if n == 0 {
			rSn.Ok(pkgSwamp+":no-pre-guard-lookups", token.NoPos, "no guarded function keeps a pre-guard lookup result")
		}
	}

	rFR := c.Rule("C09.flagreset", "the change flags of a record are cleared on the save path while the saver still holds the record's guard (by a function SaveFunction calls before any release of the guard), never after Save has returned: in immediate-write mode SaveFunction releases the guard itself, and a later reset wipes the flags the next holder has just raised - its Save is then classified 'same', nothing is written and its acknowledged update is lost (shared with C19.flags)", 8)
	flagsRule(c, rFR)

	rT := c.Rule("C09.toctou", "read-modify-write entry points (Increment*, PatchFields, PatchExpired per record) read the content type only after acquiring the guard; CreateTreasure does its lookups and the registration of the in-flight record while holding createMu", 12)
	for _, f := range p.FuncsIn(pkgSwamp) {
		if f.Decl.Body == nil {
			continue
		}
		n := f.Obj.Name()
		if !(strings.HasPrefix(n, "Increment") || n == "PatchFields" || n == "applyPatchExpiredOne") {
			continue
		}
		info := f.Info()
		regs := guardRegions(p, f)
		c.Touch(f)
		if len(regs) == 0 {
			rT.Bad(f.Key+":guard", f.Decl.Pos(), "read-modify-write without a record guard")
			continue
		}
		r := regs[0]
		ok := true
		core.Calls(f.Decl.Body, false, func(call *ast.CallExpr) {
			if fo := core.Callee(info, call); fo != nil && fo.Name() == "GetContentType" {
				if l, found := r.Fl.Locate(call); found && !r.Fl.Dominates(r.Loc, l) {
					ok = false
				}
			}
		})
		rT.Check(ok, f.Key+":type-test-under-guard", r.Acquire.Pos(), "content type read after the guard is held", "the existence/type test happens before the guard is acquired: two writers both see 'void' and one initialisation is lost")
	}
	{
		f := c.Fn(pkgSwamp + ".swamp.CreateTreasure")
		info := f.Info()
		fl := core.NewFlow(p, info, f.Decl.Body)
		lk := fl.LockAnalysis(nil)
		bad := ""
		core.Calls(f.Decl.Body, false, func(call *ast.CallExpr) {
			txt := core.ExprStr(call.Fun)
			if strings.Contains(txt, "beaconKey.Get") || strings.Contains(txt, "creatingTreasures.") {
				held, ok := lk.HeldAtNode(call)
				if ok && held["s.createMu"] != 2 {
					bad = txt
				}
			}
		})
		rT.Check(bad == "", f.Key+":under-createMu", f.Decl.Pos(), "lookup, in-flight lookup and registration under createMu", bad+" runs outside createMu: two creators can build two records for one key")
	}

	rI := c.Rule("C09.inflight", "one record object per key: the first Save publishes an in-flight record to the key index before it removes it from the in-flight tracker; CreateTreasure creates a record only after a key-index miss that follows the tracker miss (or the publisher runs under createMu); nothing but the publisher removes a record from the tracker (another caller may hold it and save it later)", 3)
	{
		keyIdx := p.MustField(pkgSwamp, "swamp", "beaconKey")
		tracker := p.MustField(pkgSwamp, "swamp", "creatingTreasures")
		onField := func(info *types.Info, call *ast.CallExpr, fld *types.Var, names ...string) bool {
			fo := core.Callee(info, call)
			if fo == nil || core.FieldOf(info, core.RecvExpr(call)) != fld {
				return false
			}
			for _, n := range names {
				if fo.Name() == n {
					return true
				}
			}
			return false
		}
		// publisher(s): functions that Add to the key index and Delete from the tracker
		var publishers []*core.Func
		for _, f := range p.FuncsIn(pkgSwamp) {
			if f.Decl.Body == nil {
				continue
			}
			info := f.Info()
			var adds, dels []*ast.CallExpr
			core.Calls(f.Decl.Body, true, func(call *ast.CallExpr) {
				if onField(info, call, keyIdx, "Add") {
					adds = append(adds, call)
				}
				if onField(info, call, tracker, "Delete", "LoadAndDelete", "CompareAndDelete", "Clear") {
					dels = append(dels, call)
				}
			})
			if len(dels) == 0 {
				continue
			}
			c.Touch(f)
			if len(adds) == 0 {
				for _, d := range dels {
					rI.Bad(f.Key+":creatingTreasures.Delete", d.Pos(), "an in-flight record is removed from the tracker by a function that does not publish it: a caller that obtained the same in-flight record earlier still writes to it, the next CreateTreasure builds a second record for the key, and one acknowledged update is lost")
				}
				continue
			}
			publishers = append(publishers, f)
			fl := core.NewFlow(p, info, f.Decl.Body)
			for _, d := range dels {
				ld, ok := fl.Locate(d)
				dom := false
				for _, a := range adds {
					if la, ok2 := fl.Locate(a); ok && ok2 && fl.Dominates(la, ld) {
						dom = true
					}
				}
				rI.Check(dom, f.Key+":publish-before-untrack", d.Pos(), "key index Add dominates the tracker Delete", "the record leaves the in-flight tracker before it is visible in the key index: a concurrent CreateTreasure misses both and builds a second record")
			}
		}
		if len(publishers) == 0 {
			rI.Bad(pkgSwamp+":publisher", token.NoPos, "no function publishes in-flight records (key index Add + tracker Delete)")
		}
		// creator
		f := c.Fn(pkgSwamp + ".swamp.CreateTreasure")
		info := f.Info()
		fl := core.NewFlow(p, info, f.Decl.Body)
		var gets []*ast.CallExpr
		var load, mk *ast.CallExpr
		core.Calls(f.Decl.Body, false, func(call *ast.CallExpr) {
			switch {
			case onField(info, call, keyIdx, "Get"):
				gets = append(gets, call)
			case onField(info, call, tracker, "Load"):
				load = call
			case core.IsWsCallTo(info, call, pkgTreasure+".New"):
				mk = call
			}
		})
		okCreate := false
		if load != nil && mk != nil {
			ll, lm := fl.MustLocate(load), fl.MustLocate(mk)
			for _, g := range gets {
				lg := fl.MustLocate(g)
				if !(fl.Dominates(ll, lg) && ll != lg && fl.Dominates(lg, lm)) {
					continue
				}
				// the creation is on the miss edge of this lookup
				res := core.ErrObjOfCallAny(info, f.Decl.Body, g)
				for _, ft := range fl.FactsAt(lm) {
					if be, isBin := ft.Expr.(*ast.BinaryExpr); isBin && res != nil && core.ObjOf(info, be.X) == res && core.IsNilIdent(info, be.Y) {
						if (be.Op == token.EQL) == ft.Truth {
							okCreate = true
						}
					}
				}
			}
		}
		if !okCreate {
			// alternative: every publisher holds createMu around Add and Delete
			all := len(publishers) > 0
			for _, pf := range publishers {
				pfl := core.NewFlow(p, pf.Info(), pf.Decl.Body)
				lk := pfl.LockAnalysis(nil)
				core.Calls(pf.Decl.Body, false, func(call *ast.CallExpr) {
					if onField(pf.Info(), call, keyIdx, "Add") || onField(pf.Info(), call, tracker, "Delete") {
						if held, ok := lk.HeldAtNode(call); !ok || held["s.createMu"] != 2 {
							all = false
						}
					}
				})
			}
			okCreate = all
		}
		rI.Check(okCreate, f.Key+":recheck-after-tracker-miss", f.Decl.Pos(), "a record is created only after a key-index miss that follows the tracker miss", "CreateTreasure looks at the key index only before the tracker: a first Save that publishes (Add) and untracks (Delete) between the two lookups is missed by both, a second record object is built for the key and the writers' guarded updates no longer serialize (lost update)")

	}
}

// loopSubject returns the ranged expression of a range loop (or the condition of a for loop).
func loopSubject(n ast.Node) ast.Expr {
	switch l := n.(type) {
	case *ast.RangeStmt:
		return l.X
	case *ast.ForStmt:
		if l.Cond != nil {
			return l.Cond
		}
	}
	return &ast.Ident{Name: "for"}
}

func isSyncMapVar(v *types.Var) bool {
	n, ok := v.Type().(*types.Named)
	return ok && n.Obj().Pkg() != nil && n.Obj().Pkg().Path() == "sync" && n.Obj().Name() == "Map"
}
