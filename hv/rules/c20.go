package rules

import (
	"go/ast"
	"go/token"
	"go/types"
	"strings"

	"hv/core"
)

func init() { register("C20", c20) }

const (
	pkgName    = "app/name"
	pkgSDKName = "sdk/name"
)

// hashRecipe describes how a function maps a name to a number: the ordered fields fed to
// xxhash.Sum64, and whether the result is  hash % <param> + 1.
type hashRecipe struct {
	fields  []string
	modParm bool
	plusOne bool
	pos     token.Pos
}

func concatFields(info *types.Info, e ast.Expr, out *[]string) bool {
	e = core.Unparen(e)
	switch v := e.(type) {
	case *ast.BinaryExpr:
		if v.Op != token.ADD {
			return false
		}
		return concatFields(info, v.X, out) && concatFields(info, v.Y, out)
	case *ast.SelectorExpr:
		if f := core.FieldOf(info, v); f != nil {
			*out = append(*out, f.Name())
			return true
		}
	case *ast.BasicLit:
		*out = append(*out, v.Value)
		return true
	}
	return false
}

func recipeOf(f *core.Func) hashRecipe {
	info := f.Info()
	var r hashRecipe
	param := paramObj(f, 0)
	ast.Inspect(f.Decl.Body, func(x ast.Node) bool {
		switch v := x.(type) {
		case *ast.CallExpr:
			if core.IsCallTo(info, v, "github.com/cespare/xxhash/v2.Sum64", "github.com/cespare/xxhash/v2.Sum64String") && len(v.Args) == 1 {
				arg := stripConv(info, v.Args[0])
				r.pos = v.Pos()
				concatFields(info, arg, &r.fields)
			}
		case *ast.BinaryExpr:
			if v.Op == token.REM && core.Mentions(info, v.Y, param) {
				r.modParm = true
			}
			if v.Op == token.ADD && isConst(info, v.Y, 1) {
				// the left side must contain the modulo
				hasRem := false
				ast.Inspect(v.X, func(y ast.Node) bool {
					if b, ok := y.(*ast.BinaryExpr); ok && b.Op == token.REM {
						hasRem = true
					}
					return true
				})
				if hasRem {
					r.plusOne = true
				}
			}
		}
		return true
	})
	return r
}

func c20(c *core.Ctx) {
	_ = c.P
	c.Explain = "Static necessary conditions for swamp addressing: the server-side and SDK-side island functions hash the same field concatenation with the same hash and both apply '% N + 1' (range 1..N, agreement); every index/slice expression of the path functions is discharged by dominating guards (computing the location cannot panic for any depth / folders-per-level); the addressing functions read only the name and their parameters (no clock, randomness, environment, map iteration)."
	c.NotCovered = []string{"hash collisions between different names", "N == 0 (division by zero is the caller's contract)", "the per-object cache returning a value computed for a different N", "contents of the client routing table (which server is registered for which island); decided only: lookups go through the table under the name's island"}

	rAgree := c.Rule("C20.agree", "app/name.GetFolderNumber and sdk name.GetIslandID hash the same ordered fields with xxhash.Sum64 and both compute hash % N + 1", 3)
	srv := c.Fn(pkgName + ".name.GetFolderNumber")
	sdk := c.Fn(pkgSDKName + ".name.GetIslandID")
	rs, rk := recipeOf(srv), recipeOf(sdk)
	rAgree.Check(len(rs.fields) >= 3 && strings.Join(rs.fields, "+") == strings.Join(rk.fields, "+"), "hash-input", rs.pos,
		"both hash "+strings.Join(rs.fields, "+"), "server hashes ["+strings.Join(rs.fields, "+")+"] but SDK hashes ["+strings.Join(rk.fields, "+")+"]: client and server disagree on the island")
	rAgree.Check(rs.modParm && rs.plusOne, srv.Key+":range", srv.Decl.Pos(), "hash % N + 1", "server island is not hash % N + 1 (result outside 1..N)")
	rAgree.Check(rk.modParm && rk.plusOne, sdk.Key+":range", sdk.Decl.Pos(), "hash % N + 1", "SDK island is not hash % N + 1 (result outside 1..N)")

	// C20.route: the SDK sends a swamp to the server that owns the name's island.
	rRoute := c.Rule("C20.route", "every function of the SDK client that resolves a swamp name to a server connection returns, besides nil, only a value read from the island->server table under the key GetIslandID(total islands) of that name: a shortcut that answers without hashing the name (single server, cached last answer) sends a swamp to a server that does not own its island", 2)
	{
		p := c.P
		const pkgSDKClient = "sdk/client"
		nameNamed := p.Named(pkgSDKName, "Name")
		n := 0
		for _, f := range p.FuncsIn(pkgSDKClient) {
			if f.Decl.Body == nil || f.Decl.Recv == nil || nameNamed == nil {
				continue
			}
			sig := f.Obj.Type().(*types.Signature)
			if sig.Params().Len() != 1 || !types.Identical(sig.Params().At(0).Type(), nameNamed) || sig.Results().Len() != 1 {
				continue
			}
			rt := sig.Results().At(0).Type()
			if _, isBasic := rt.Underlying().(*types.Basic); isBasic {
				continue
			}
			info := f.Info()
			nameParam := sig.Params().At(0)
			n++
			c.Touch(f)
			// island keys: locals defined as <nameParam>.GetIslandID(...)
			islandKey := map[types.Object]bool{}
			// table values: locals defined from  <recv>.<mapField>[islandKey]
			tableVal := map[types.Object]bool{}
			ast.Inspect(f.Decl.Body, func(x ast.Node) bool {
				var lhs, rhs []ast.Expr
				switch v := x.(type) {
				case *ast.AssignStmt:
					lhs, rhs = v.Lhs, v.Rhs
				default:
					return true
				}
				if len(rhs) != 1 {
					return true
				}
				r := core.Unparen(rhs[0])
				if call, ok := r.(*ast.CallExpr); ok {
					if fo := core.Callee(info, call); fo != nil && fo.Name() == "GetIslandID" && core.ObjOf(info, core.RecvExpr(call)) == nameParam {
						if o := core.ObjOf(info, lhs[0]); o != nil {
							islandKey[o] = true
						}
					}
				}
				if ix, ok := r.(*ast.IndexExpr); ok {
					if _, isMap := info.TypeOf(ix.X).Underlying().(*types.Map); isMap && core.FieldOf(info, ix.X) != nil && islandKey[core.ObjOf(info, ix.Index)] {
						if o := core.ObjOf(info, lhs[0]); o != nil {
							tableVal[o] = true
						}
					}
				}
				return true
			})
			var bad *ast.ReturnStmt
			ast.Inspect(f.Decl.Body, func(x ast.Node) bool {
				if _, isLit := x.(*ast.FuncLit); isLit {
					return false
				}
				ret, ok := x.(*ast.ReturnStmt)
				if !ok || len(ret.Results) != 1 {
					return true
				}
				e := core.Unparen(ret.Results[0])
				if core.IsNilIdent(info, e) {
					return true
				}
				// strip field selections / address-of:  v.GrpcClient, &v, v
				for {
					switch v := e.(type) {
					case *ast.SelectorExpr:
						e = core.Unparen(v.X)
						continue
					case *ast.UnaryExpr:
						e = core.Unparen(v.X)
						continue
					case *ast.StarExpr:
						e = core.Unparen(v.X)
						continue
					}
					break
				}
				if o := core.ObjOf(info, e); o == nil || !tableVal[o] {
					if bad == nil {
						bad = ret
					}
				}
				return true
			})
			if bad != nil {
				rRoute.Bad(f.Key+":returns-the-island-owner", bad.Pos(), "this return hands out a server connection that was not read from the island table under the name's island: the swamp is routed to a server that may not own it (the request still carries the true island ID, and the sibling lookup disagrees)")
			} else {
				rRoute.Ok(f.Key+":returns-the-island-owner", f.Decl.Pos(), "every non-nil result comes from table[GetIslandID(name)]")
			}
		}
		if n == 0 {
			rRoute.Bad(pkgSDKClient+":name-resolvers", token.NoPos, "no function of the SDK client resolves a name to a connection (rule needs review)")
		}
	}

	p := c.P
	rFN := c.Rule("C20.fullname", "the location of a swamp is computed from its full name: every string handed to a hashing helper by GetFullHashPath is the accumulated path field (the field each builder step extends with the next part), not a single part of the name - two different names must not share a location because they share a part", 2)
	{
		_, nst := p.StructOf(pkgName, "name")
		nf := core.StructFields(nst)
		// the accumulated-path field: some composite literal sets F: <expr starting with x.F> + ...
		var pathF *types.Var
		for _, f := range p.FuncsIn(pkgName) {
			if f.Decl.Body == nil {
				continue
			}
			fi := f.Info()
			ast.Inspect(f.Decl.Body, func(x ast.Node) bool {
				kv, ok := x.(*ast.KeyValueExpr)
				if !ok {
					return true
				}
				id, isId := kv.Key.(*ast.Ident)
				if !isId {
					return true
				}
				fld, isF := fi.Uses[id].(*types.Var)
				if !isF || !fld.IsField() || nf[fld.Name()] != fld {
					return true
				}
				e := core.Unparen(kv.Value)
				for {
					be, isB := e.(*ast.BinaryExpr)
					if !isB || be.Op != token.ADD {
						break
					}
					e = core.Unparen(be.X)
				}
				if core.FieldOf(fi, e) == fld {
					pathF = fld
				}
				return true
			})
		}
		loc := c.Fn(pkgName + ".name.GetFullHashPath")
		li := loc.Info()
		// hashing helpers of the package: functions that call xxhash
		hashers := map[*core.Func]bool{}
		for _, f := range p.FuncsIn(pkgName) {
			if f.Decl.Body == nil || f.Decl.Recv != nil {
				continue
			}
			core.Calls(f.Decl.Body, false, func(call *ast.CallExpr) {
				if fo := core.Callee(f.Info(), call); fo != nil && fo.Pkg() != nil && strings.Contains(fo.Pkg().Path(), "xxhash") {
					hashers[f] = true
				}
			})
		}
		n := 0
		core.Calls(loc.Decl.Body, false, func(call *ast.CallExpr) {
			t := p.ByObj[core.Callee(li, call)]
			if t == nil || !hashers[t] || len(call.Args) == 0 {
				return
			}
			n++
			rFN.Check(pathF != nil && core.FieldOf(li, call.Args[0]) == pathF, loc.Key+"->"+t.Obj.Name()+":input", call.Pos(), "hashes the full accumulated name", "the location component computed by "+t.Obj.Name()+" is hashed from "+core.ExprStr(call.Args[0])+", not from the full name: two swamps whose names differ only in the other parts get the same folder, the second one 'exists' before it was written and serves the first one's records")
		})
		if n == 0 {
			rFN.Bad(loc.Key+":hash-inputs", loc.Decl.Pos(), "GetFullHashPath no longer calls the hashing helpers")
		}
	}

	rB := c.Rule("C20.nopanic", "every index/slice expression in the path computation is within range on every path (guard discharge over SSA linear forms)", 3)
	for _, k := range []string{pkgName + ".generateHashedDirectoryPath", pkgName + ".generateSwampFolderName", pkgName + ".name.GetFullHashPath", pkgName + ".name.GetFolderNumber", pkgSDKName + ".name.GetIslandID"} {
		core.ReportBounds(c, rB, c.Fn(k), nil)
	}

	rPure := c.Rule("C20.pure", "the addressing functions call nothing from time, math/rand, crypto/rand, os and do not range over maps", 5)
	for _, k := range []string{pkgName + ".generateHashedDirectoryPath", pkgName + ".generateSwampFolderName", pkgName + ".name.GetFullHashPath", pkgName + ".name.GetFolderNumber", pkgSDKName + ".name.GetIslandID"} {
		f := c.Fn(k)
		info := f.Info()
		bad := ""
		core.Calls(f.Decl.Body, true, func(call *ast.CallExpr) {
			if fo := core.Callee(info, call); fo != nil && fo.Pkg() != nil {
				switch fo.Pkg().Path() {
				case "time", "math/rand", "math/rand/v2", "crypto/rand", "os":
					bad = core.QName(fo)
				}
			}
		})
		ast.Inspect(f.Decl.Body, func(x ast.Node) bool {
			if rs, ok := x.(*ast.RangeStmt); ok {
				if _, isMap := info.TypeOf(rs.X).Underlying().(*types.Map); isMap {
					bad = "range over map"
				}
			}
			return true
		})
		rPure.Check(bad == "", f.Key, f.Decl.Pos(), "pure", "addressing depends on "+bad)
	}
}
