package rules

import (
	"strings"
	"fmt"
	"go/ast"
	"go/token"
	"go/types"

	"hv/core"
)

func init() {
	register("C14", c14)
	register("C28", c28)
}

const pkgLock = "app/core/hydra/lock"

func c14(c *core.Ctx) {
	p := c.P
	c.Explain = "Static necessary conditions for the business lock: the per-key queue is touched only under its mutex; the grant channel is closed only for the queue head (the caller appended to an empty queue, or the new head after the old head left) and the done channel exactly at removal; a caller is removed only when its ID equals the ID passed in (stale/foreign IDs are inert); enqueue is at the tail; a granted lock always starts a TTL watchdog that removes that caller's own ID; a cancelled waiter removes its own ID; the gateway floors the TTL before locking, rejects empty key/ID and does not let client cancellation abort a queued waiter."
	c.NotCovered = []string{"mutual exclusion, FIFO and liveness over all interleavings (model-checking question)", "timer accuracy"}

	callers := p.MustField(pkgLock, "queue", "callers")
	_ = c.Fn(pkgLock + ".queue.enqueue")
	rem := c.Fn(pkgLock + ".queue.remove")
	// removers: functions of the lock package that take a caller out of a queue by id (an "index"
	// removal of queue.callers whose element id is compared with a string parameter). The rules about
	// who may call what are stated over this set, not over the name "remove".
	removers := map[*core.Func]bool{rem: true}
	for _, g := range p.FuncsIn(pkgLock) {
		if g.Decl.Body == nil || g == rem {
			continue
		}
		gi := g.Info()
		gfl := core.NewFlow(p, gi, g.Decl.Body)
		for _, a := range core.Accesses(gi, g.Decl.Body, map[*types.Var]bool{callers: true}, false) {
			if a.Write {
				if r := queueRemovalOf(gi, g.Decl.Body, gfl, a, callers); r.kind == "index" {
					removers[g] = true
				}
			}
		}
	}
	isRemoverCall := func(info *types.Info, call *ast.CallExpr) bool {
		t := p.ByObj[core.Callee(info, call)]
		return t != nil && removers[t]
	}
	lockFn := c.Fn(pkgLock + ".lock.Lock")
	unlockFn := c.Fn(pkgLock + ".lock.Unlock")

	rLs := c.Rule("C14.lockset", "queue.callers is read and written only with queue.mu held", 6)
	core.ReportGuarded(c, rLs, core.CheckGuarded(p, core.GuardSpec{Pkg: pkgLock, Type: "queue", Fields: []string{"callers"}, Locks: []string{"mu"}, ReadsNeedLock: true}))

	// every close(x.ready) / close(x.done) in the package
	readyF := p.MustField(pkgLock, "caller", "ready")
	// the termination channel of the per-lock watchdog goroutine; absent when the TTL is a time.AfterFunc timer
	doneF := core.StructFields(mustStruct(p, pkgLock, "caller"))["done"]
	idF := p.MustField(pkgLock, "caller", "id")
	rGrant := c.Rule("C14.grant", "close(ready) (the grant) happens only under queue.mu and only for the queue head: the caller just appended to a queue that was empty, or callers[0] after the previous head was removed and the queue is non-empty", 2)
	rDone := c.Rule("C14.done", "close(done) happens exactly at the removal of that caller, under queue.mu", 1)
	if doneF == nil {
		rDone.Ok(pkgLock+".caller:no-done-channel", token.NoPos, "callers carry no watchdog termination channel")
	}
	rOwner := c.Rule("C14.owner", "a caller is removed from the queue only on the branch where its id equals the id argument; enqueue appends at the tail", 2)
	for _, f := range p.FuncsIn(pkgLock) {
		if f.Decl.Body == nil {
			continue
		}
		info := f.Info()
		for _, body := range core.Bodies(f.Decl) {
			var fl *core.Flow
			var lk *core.Locks
			get := func() (*core.Flow, *core.Locks) {
				if fl == nil {
					fl = core.NewFlow(p, info, body)
					lk = fl.LockAnalysis(nil)
				}
				return fl, lk
			}
			core.Calls(body, false, func(call *ast.CallExpr) {
				if !isBuiltinCall(info, call, "close") || len(call.Args) != 1 {
					return
				}
				fld := core.FieldOf(info, call.Args[0])
				if fld == nil || (fld != readyF && fld != doneF) {
					return
				}
				c.Touch(f)
				fl, lk := get()
				loc, ok := fl.Locate(call)
				if !ok {
					return
				}
				held := lk.HeldBefore(loc, call)
				locked := false
				for k, m := range held {
					if m == 2 && len(k) > 3 && k[len(k)-3:] == ".mu" {
						locked = true
					}
				}
				facts := expandFacts(info, body, fl.FactsAt(loc))
				target := core.Unparen(call.Args[0]).(*ast.SelectorExpr).X
				if fld == readyF {
					construct := f.Key + ":close(" + core.ExprStr(call.Args[0]) + ")"
					okHead := false
					why := ""
					if ix, isIx := core.Unparen(target).(*ast.IndexExpr); isIx && core.FieldOf(info, ix.X) == callers && isConst(info, ix.Index, 0) {
						// new head after removal: need (removed index == 0) and len(callers) > 0
						nonEmpty := holdsAt(fl, body, loc, func(ft core.Fact) bool {
							return cmpFact(ft, func(x ast.Expr, op token.Token, y ast.Expr) bool {
								return lenOfField(info, x, callers) && isConst(info, y, 0) && (op == token.GTR || op == token.NEQ)
							})
						})
						wasHead := holdsAt(fl, body, loc, func(ft core.Fact) bool {
							return cmpFact(ft, func(x ast.Expr, op token.Token, y ast.Expr) bool {
								if isConst(info, y, 0) && op == token.EQL {
									if id, ok := core.Unparen(x).(*ast.Ident); ok && isRangeKeyOver(info, body, id, callers) {
										return true
									}
								}
								return false
							})
						})
						if !wasHead {
							// the removal that precedes this grant on every path took out index 0 by construction
							for _, a2 := range core.Accesses(info, body, map[*types.Var]bool{callers: true}, false) {
								if !a2.Write {
									continue
								}
								if l2, ok2 := fl.Locate(a2.Node); ok2 && fl.Dominates(l2, loc) {
									if r2 := queueRemovalOf(info, body, fl, a2, callers); r2.kind == "index" && r2.const0 {
										wasHead = true
									}
								}
							}
						}
						okHead = nonEmpty && wasHead
						why = "callers[0] granted; nonEmpty=" + b2s(nonEmpty) + " removedWasHead=" + b2s(wasHead)
					} else if obj := core.ObjOf(info, target); obj != nil {
						// the caller just appended: queue was empty before the append in the same critical section
						appended, wasEmpty := false, false
						for _, a := range core.Accesses(info, body, map[*types.Var]bool{callers: true}, false) {
							if a.Form == "append" {
								ac := core.Unparen(a.Node.(*ast.AssignStmt).Rhs[0]).(*ast.CallExpr)
								if len(ac.Args) == 2 && core.ObjOf(info, ac.Args[1]) == obj {
									if al, ok := fl.Locate(a.Node); ok && fl.Dominates(al, loc) {
										appended = true
									}
								}
							}
						}
						// headness of the appended caller: len==0 evaluated before the append, or len==1 after it
						var appendLoc core.Loc
						haveAppend := false
						for _, a := range core.Accesses(info, body, map[*types.Var]bool{callers: true}, false) {
							if a.Form == "append" {
								if al, ok := fl.Locate(a.Node); ok {
									appendLoc, haveAppend = al, true
								}
							}
						}
						wasEmpty = haveAppend && holdsAt(fl, body, loc, func(ft core.Fact) bool {
							return cmpFact(ft, func(x ast.Expr, op token.Token, y ast.Expr) bool {
								if !lenOfField(info, x, callers) || op != token.EQL {
									return false
								}
								el, ok := fl.Locate(x)
								if !ok {
									return false
								}
								if isConst(info, y, 0) {
									return fl.Dominates(el, appendLoc) && el != appendLoc
								}
								if isConst(info, y, 1) {
									return fl.Dominates(appendLoc, el) && el != appendLoc
								}
								return false
							})
						})
						okHead = appended && wasEmpty
						why = "appended=" + b2s(appended) + " queueWasEmpty=" + b2s(wasEmpty)
					}
					rGrant.Check(okHead && locked, construct, call.Pos(), why+" locked="+b2s(locked),
						"grant is not restricted to the queue head under queue.mu ("+why+" locked="+b2s(locked)+"): two callers could hold the lock or a waiter be granted out of order")
				} else {
					construct := f.Key + ":close(" + core.ExprStr(call.Args[0]) + ")"
					// must be in remove, after the removal write of the same element, guarded by id equality
					isRemoved := false
					if obj := core.ObjOf(info, target); obj != nil {
						for _, ft := range facts {
							cmpFact(ft, func(x ast.Expr, op token.Token, y ast.Expr) bool {
								if op == token.EQL && core.FieldOf(info, x) == idF && core.ObjOf(info, core.Unparen(x).(*ast.SelectorExpr).X) == obj {
									isRemoved = true
								}
								return false
							})
						}
					}
					rDone.Check(isRemoved && locked, construct, call.Pos(), "closed for the caller matched by id, under lock", "done is closed for a caller that is not the one being removed, or outside queue.mu")
				}
			})
			// writes to callers
			for _, a := range core.Accesses(info, body, map[*types.Var]bool{callers: true}, false) {
				if !a.Write {
					continue
				}
				fl, _ := get()
				loc, ok := fl.Locate(a.Node)
				if !ok {
					continue
				}
				construct := f.Key + ":callers:" + a.Form
				switch {
				case a.Form == "append" && isTailAppend(info, a.Node, callers):
					rOwner.Ok(construct, a.Node.Pos(), "tail append")
				case removers[f] || f == rem:
					// which element leaves the queue with this write, and is it the one whose id was matched
					var idParam types.Object
					fsig := f.Obj.Type().(*types.Signature)
					for pi := 0; pi < fsig.Params().Len(); pi++ {
						if b, isB := fsig.Params().At(pi).Type().Underlying().(*types.Basic); isB && b.Kind() == types.String {
							idParam = fsig.Params().At(pi)
						}
					}
					rmv := queueRemovalOf(info, body, fl, a, callers)
					switch rmv.kind {
					case "none":
						rOwner.Ok(construct, a.Node.Pos(), "removes nobody ("+rmv.why+")")
					case "index":
						guarded := false
						for _, ft := range expandFacts(info, body, fl.FactsAt(loc)) {
							cmpFact(ft, func(x ast.Expr, op token.Token, y ast.Expr) bool {
								if op == token.EQL && core.FieldOf(info, x) == idF && core.ObjOf(info, y) == idParam {
									if isQueueElem(info, body, core.Unparen(x).(*ast.SelectorExpr).X, callers, rmv) {
										guarded = true
									}
								}
								return false
							})
						}
						rOwner.Check(guarded, construct, a.Node.Pos(), "removes the element whose id equals the argument ("+rmv.why+")",
							"removal from the lock queue is not restricted to the element whose id equals the argument ("+rmv.why+"; id of that element tested="+b2s(guarded)+")")
					default:
						rOwner.Bad(construct, a.Node.Pos(), "removal from the lock queue is not restricted to the element whose id equals the argument (the write does not remove one identified element: "+rmv.why+")")
					}
				default:
					rOwner.Bad(construct, a.Node.Pos(), "unexpected mutation of the lock queue outside enqueue/remove")
				}
			}
		}
	}

	// C14.wake: whoever takes the head out of a non-empty queue grants the next caller.
	rWake := c.Rule("C14.wake", "every function that removes a caller from a lock queue grants the new head on every path on which the removed caller may have been the head and somebody is still queued: from the removal to each exit the path passes close(callers[0].ready) unless a branch established that the removed index was not 0 or that the queue is empty. A waiter can become head at any moment (the holder's release may land between its cancellation and its removal), so a removal that never grants strands the queue: no holder, no watchdog, every later Lock on the key blocks forever", 1)
	for g := range removers {
		gi := g.Info()
		for bi, body := range core.Bodies(g.Decl) {
			gfl := core.NewFlow(p, gi, body)
			for _, a := range core.Accesses(gi, body, map[*types.Var]bool{callers: true}, false) {
				if !a.Write {
					continue
				}
				rmv := queueRemovalOf(gi, body, gfl, a, callers)
				if rmv.kind != "index" {
					continue
				}
				loc, ok := gfl.Locate(a.Node)
				if !ok {
					continue
				}
				// edges on which no grant is needed
				var safe func(e ast.Expr, truth bool) bool
				safe = func(e ast.Expr, truth bool) bool {
					e = core.Unparen(e)
					switch v := e.(type) {
					case *ast.Ident:
						if def := localDef(gi, body, gi.Uses[v]); def != nil {
							return safe(def, truth)
						}
					case *ast.UnaryExpr:
						if v.Op == token.NOT {
							return safe(v.X, !truth)
						}
					case *ast.BinaryExpr:
						switch v.Op {
						case token.LAND:
							if truth {
								return safe(v.X, true) || safe(v.Y, true)
							}
							return safe(v.X, false) && safe(v.Y, false)
						case token.LOR:
							if truth {
								return safe(v.X, true) && safe(v.Y, true)
							}
							return safe(v.X, false) || safe(v.Y, false)
						}
						op := v.Op
						if !truth {
							op = core.Negate(op)
						}
						x, y := v.X, v.Y
						if isConst(gi, x, 0) || isConst(gi, x, 1) {
							x, y, op = y, x, mirror(op)
						}
						// queue empty
						if lenOfField(gi, x, callers) {
							if isConst(gi, y, 0) && (op == token.EQL || op == token.LEQ) {
								return true
							}
							if isConst(gi, y, 1) && op == token.LSS {
								return true
							}
						}
						// removed index is not the head
						if !rmv.const0 && rmv.idx != nil {
							if xo, io := core.ObjOf(gi, x), core.ObjOf(gi, rmv.idx); xo != nil && xo == io {
								if isConst(gi, y, 0) && (op == token.NEQ || op == token.GTR) {
									return true
								}
								if isConst(gi, y, 1) && op == token.GEQ {
									return true
								}
							}
						}
					}
					return false
				}
				cut := map[core.Edge]bool{}
				for b := range gfl.G.Blocks {
					cond := gfl.CondOf(b)
					if cond == nil {
						continue
					}
					for si := 0; si < 2; si++ {
						if safe(cond, si == 0) {
							cut[core.Edge{From: b, Succ: si}] = true
						}
					}
				}
				// a removal that happens inside a loop starting at index 1 (or on a branch that already
				// established idx != 0) is covered by the facts at the removal itself
				notHeadHere := false
				for _, ft := range gfl.CondsAt(loc) {
					if safe(ft.Expr, ft.Truth) {
						notHeadHere = true
					}
				}
				// the removed index is the variable of a counting loop that starts at 1 or later
				if !notHeadHere && !rmv.const0 && rmv.idx != nil {
					if io := core.ObjOf(gi, rmv.idx); io != nil {
						ast.Inspect(body, func(x ast.Node) bool {
							fs, isFor := x.(*ast.ForStmt)
							if !isFor || fs.Init == nil || fs.Post == nil {
								return true
							}
							init, ok1 := fs.Init.(*ast.AssignStmt)
							post, ok2 := fs.Post.(*ast.IncDecStmt)
							if !ok1 || !ok2 || len(init.Lhs) != 1 || len(init.Rhs) != 1 || post.Tok != token.INC {
								return true
							}
							id, isId := init.Lhs[0].(*ast.Ident)
							if !isId || gi.Defs[id] != io || core.ObjOf(gi, post.X) != io {
								return true
							}
							start, isC := core.ConstInt(gi, init.Rhs[0])
							if !isC || start < 1 {
								return true
							}
							reassigned := false
							ast.Inspect(fs.Body, func(y ast.Node) bool {
								switch v := y.(type) {
								case *ast.AssignStmt:
									for _, l := range v.Lhs {
										if core.ObjOf(gi, l) == io {
											reassigned = true
										}
									}
								case *ast.IncDecStmt:
									if core.ObjOf(gi, v.X) == io {
										reassigned = true
									}
								}
								return true
							})
							if !reassigned && fs.Body.Pos() <= a.Node.Pos() && a.Node.End() <= fs.Body.End() {
								notHeadHere = true
							}
							return true
						})
					}
				}
				grants := core.NodeHasCall(func(call *ast.CallExpr) bool {
					if !isBuiltinCall(gi, call, "close") || len(call.Args) != 1 || core.FieldOf(gi, call.Args[0]) != readyF {
						return false
					}
					sel := core.Unparen(call.Args[0]).(*ast.SelectorExpr)
					ix, isIx := core.Unparen(sel.X).(*ast.IndexExpr)
					return isIx && core.FieldOf(gi, ix.X) == callers && isConst(gi, ix.Index, 0)
				})
				stranded := !notHeadHere && gfl.ExitWithout(loc, cut, false, grants)
				rWake.Check(!stranded, fmt.Sprintf("%s:body%d:%s:grants-next-head", g.Key, bi, a.Form), a.Node.Pos(), "every path after the removal grants callers[0] or knows that the removed caller was not the head / the queue is empty",
					"a caller is removed here ("+rmv.why+") and the function can return without granting the new head although the removed caller may have been the head of a non-empty queue: the key is left without holder and without watchdog, every later Lock on it blocks until its context ends")
			}
		}
	}

	// C14.ttl
	rTTL := c.Rule("C14.ttl", "on the grant path Lock starts a watchdog goroutine that removes the caller's own lock ID when a timer built from the ttl parameter fires and stops when done is closed; on the cancel path Lock removes its own ID; Unlock removes exactly the ID it was given and reports failure when nothing was removed", 4)
	{
		info := lockFn.Info()
		ttlParam := paramObj(lockFn, 2)
		lockIDObj := lockFn.Obj.Type().(*types.Signature).Results().At(0)
		var sel *ast.SelectStmt
		ast.Inspect(lockFn.Decl.Body, func(x ast.Node) bool {
			if s, ok := x.(*ast.SelectStmt); ok && sel == nil {
				sel = s
				return false
			}
			return true
		})
		if sel == nil {
			rTTL.Bad(lockFn.Key+":select", lockFn.Decl.Pos(), "Lock has no select between grant and cancellation")
		} else {
			for _, cl := range sel.Body.List {
				cc := cl.(*ast.CommClause)
				if cc.Comm == nil {
					continue
				}
				onReady, onCtx := false, false
				ast.Inspect(cc.Comm, func(x ast.Node) bool {
					if s, ok := x.(*ast.SelectorExpr); ok && core.FieldOf(info, s) == readyF {
						onReady = true
					}
					if call, ok := x.(*ast.CallExpr); ok && core.QName(core.Callee(info, call)) == "context.Context.Done" {
						onCtx = true
					}
					return true
				})
				removesOwn := func(n ast.Node) bool {
					found := false
					core.Calls(n, true, func(call *ast.CallExpr) {
						if isRemoverCall(info, call) && len(call.Args) == 1 && core.ObjOf(info, call.Args[0]) == lockIDObj {
							found = true
						}
					})
					return found
				}
				if onCtx {
					ok := false
					for _, st := range cc.Body {
						if removesOwn(st) {
							ok = true
						}
					}
					rTTL.Check(ok, lockFn.Key+":cancel-removes-own-id", cc.Pos(), "cancelled waiter removes its own ID", "a cancelled waiter stays in the queue (or removes another ID): later callers are blocked behind a dead entry")
				}
				if onReady {
					// a goroutine (go stmt or panichandler.SafeGo) whose literal selects on timer.C -> remove(lockID) and on done
					var lit *ast.FuncLit
					for _, st := range cc.Body {
						ast.Inspect(st, func(x ast.Node) bool {
							switch v := x.(type) {
							case *ast.GoStmt:
								if l, ok := core.Unparen(v.Call.Fun).(*ast.FuncLit); ok {
									lit = l
								}
							case *ast.CallExpr:
								if core.IsWsCallTo(info, v, "app/panichandler.SafeGo") {
									for _, a := range v.Args {
										if l, ok := core.Unparen(a).(*ast.FuncLit); ok {
											lit = l
										}
									}
								}
							}
							return true
						})
					}
					timerFromTTL, timerCaseRemoves, doneCase := false, false, false
					// alternative shape: time.AfterFunc(ttl, func() { remove(own id) }) - no goroutine is parked
					afterFunc := false
					for _, st := range cc.Body {
						core.Calls(st, false, func(call *ast.CallExpr) {
							if core.IsCallTo(info, call, "time.AfterFunc") && len(call.Args) == 2 && core.ObjOf(info, call.Args[0]) == ttlParam {
								if l, ok := core.Unparen(call.Args[1]).(*ast.FuncLit); ok && removesOwn(l.Body) {
									afterFunc = true
								}
							}
						})
					}
					if afterFunc {
						rTTL.Ok(lockFn.Key+":ttl-watchdog", cc.Pos(), "time.AfterFunc(ttl) removes own ID")
						rTTL.Ok(lockFn.Key+":watchdog-stops-on-done", cc.Pos(), "timer callback: nothing parked")
						continue
					}
					if lit != nil {
						var timerObj types.Object
						ast.Inspect(lit.Body, func(x ast.Node) bool {
							if as, ok := x.(*ast.AssignStmt); ok && len(as.Rhs) == 1 {
								if call, ok := as.Rhs[0].(*ast.CallExpr); ok && core.IsCallTo(info, call, "time.NewTimer", "time.After") && len(call.Args) == 1 && core.ObjOf(info, call.Args[0]) == ttlParam {
									timerFromTTL = true
									timerObj = core.ObjOf(info, as.Lhs[0])
								}
							}
							if s2, ok := x.(*ast.SelectStmt); ok {
								for _, cl2 := range s2.Body.List {
									c2 := cl2.(*ast.CommClause)
									if c2.Comm == nil {
										continue
									}
									usesTimer, usesDone := false, false
									ast.Inspect(c2.Comm, func(y ast.Node) bool {
										if id, ok := y.(*ast.Ident); ok && timerObj != nil && info.Uses[id] == timerObj {
											usesTimer = true
										}
										if s, ok := y.(*ast.SelectorExpr); ok && doneF != nil && core.FieldOf(info, s) == doneF {
											usesDone = true
										}
										return true
									})
									if usesTimer {
										for _, st := range c2.Body {
											if removesOwn(st) {
												timerCaseRemoves = true
											}
										}
									}
									if usesDone {
										doneCase = true
									}
								}
							}
							return true
						})
					}
					rTTL.Check(lit != nil && timerFromTTL && timerCaseRemoves, lockFn.Key+":ttl-watchdog", cc.Pos(), "watchdog removes own ID when the ttl timer fires",
						"granted lock has no TTL watchdog removing its own ID (goroutine="+b2s(lit != nil)+" timerFromTTL="+b2s(timerFromTTL)+" timerCaseRemovesOwnID="+b2s(timerCaseRemoves)+"): a crashed holder blocks the key forever")
					rTTL.Check(doneCase, lockFn.Key+":watchdog-stops-on-done", cc.Pos(), "watchdog exits when done is closed", "watchdog does not stop on done: goroutine leak / late removal")
				}
			}
		}
		// Unlock
		uinfo := unlockFn.Info()
		idParam := paramObj(unlockFn, 1)
		calls := core.FindCalls(unlockFn.Decl.Body, false, func(call *ast.CallExpr) bool { return isRemoverCall(uinfo, call) })
		ok := len(calls) == 1 && len(calls[0].Args) == 1 && core.ObjOf(uinfo, calls[0].Args[0]) == idParam
		// result must be tested: the call appears inside an if condition (negated) that returns an error
		tested := false
		if ok {
			for _, n := range core.PathTo(unlockFn.Decl.Body, calls[0]) {
				if is, isIf := n.(*ast.IfStmt); isIf && is.Cond.Pos() <= calls[0].Pos() && calls[0].End() <= is.Cond.End() {
					tested = true
				}
			}
		}
		rTTL.Check(ok && tested, unlockFn.Key+":remove(lockID)", unlockFn.Decl.Pos(), "Unlock removes exactly its lockID argument and reports when nothing was removed", "Unlock does not remove exactly the given lock ID or ignores the result")
	}

	// C14.gateway
	rGw := c.Rule("C14.gateway", "gateway Lock: TTL floor assigned before the Lock call, empty key rejected before the call, the context handed to the locker is context.WithoutCancel; gateway Unlock rejects empty key and empty lock ID before calling Unlock", 5)
	{
		g := c.Fn(pkgGateway + ".Gateway.Lock")
		info := g.Info()
		fl := core.NewFlow(p, info, g.Decl.Body)
		var lockCall *ast.CallExpr
		core.Calls(g.Decl.Body, false, func(call *ast.CallExpr) {
			if core.MethodNamed(info, call, pkgLock, []string{"Lock", "lock"}, "Lock") {
				lockCall = call
			}
		})
		if lockCall == nil {
			rGw.Bad(g.Key+":Lock-call", g.Decl.Pos(), "gateway Lock does not call the locker")
		} else {
			lloc := fl.MustLocate(lockCall)
			// ctx arg from context.WithoutCancel
			ctxOK := false
			if obj := core.ObjOf(info, lockCall.Args[0]); obj != nil {
				if def := localDef(info, g.Decl.Body, obj); def != nil {
					if dc, ok := core.Unparen(def).(*ast.CallExpr); ok && core.IsCallTo(info, dc, "context.WithoutCancel") {
						ctxOK = true
					}
				}
			}
			rGw.Check(ctxOK, g.Key+":ctx", lockCall.Pos(), "locker context is context.WithoutCancel(ctx)", "locker is called with a cancellable request context")
			// TTL floor: an if whose condition compares GetTTL()/TTL with a constant and whose body assigns in.TTL, dominating the call
			floorOK := false
			ast.Inspect(g.Decl.Body, func(x ast.Node) bool {
				is, ok := x.(*ast.IfStmt)
				if !ok {
					return true
				}
				be, ok := core.Unparen(is.Cond).(*ast.BinaryExpr)
				if !ok || (be.Op != token.LEQ && be.Op != token.LSS) {
					return true
				}
				bound, okc := core.ConstInt(info, be.Y)
				if !okc || bound < 1 {
					return true
				}
				if !mentionsName(be.X, "TTL") {
					return true
				}
				for _, st := range is.Body.List {
					if as, ok := st.(*ast.AssignStmt); ok && len(as.Lhs) == 1 && mentionsName(as.Lhs[0], "TTL") {
						if v, ok := core.ConstInt(info, as.Rhs[0]); ok && v >= bound {
							if al, ok := fl.Locate(is.Cond); ok && fl.Dominates(al, lloc) {
								floorOK = true
							}
						}
					}
				}
				return true
			})
			rGw.Check(floorOK, g.Key+":ttl-floor", lockCall.Pos(), "TTL floored before locking", "no TTL floor before the Lock call (zero TTL would expire the lock immediately)")
			rGw.Check(emptyRejectedBefore(info, fl, g.Decl.Body, lloc, "GetKey"), g.Key+":empty-key", lockCall.Pos(), "empty key rejected before locking", "empty lock key is not rejected before the Lock call")
		}
		u := c.Fn(pkgGateway + ".Gateway.Unlock")
		uinfo := u.Info()
		ufl := core.NewFlow(p, uinfo, u.Decl.Body)
		var ucall *ast.CallExpr
		core.Calls(u.Decl.Body, false, func(call *ast.CallExpr) {
			if core.MethodNamed(uinfo, call, pkgLock, []string{"Lock", "lock"}, "Unlock") {
				ucall = call
			}
		})
		if ucall == nil {
			rGw.Bad(u.Key+":Unlock-call", u.Decl.Pos(), "gateway Unlock does not call the locker")
		} else {
			ul := ufl.MustLocate(ucall)
			rGw.Check(emptyRejectedBefore(uinfo, ufl, u.Decl.Body, ul, "GetKey"), u.Key+":empty-key", ucall.Pos(), "empty key rejected", "empty key not rejected before Unlock")
			rGw.Check(emptyRejectedBefore(uinfo, ufl, u.Decl.Body, ul, "GetLockID"), u.Key+":empty-lockid", ucall.Pos(), "empty lock ID rejected", "empty lock ID not rejected before Unlock")
		}
	}
}

func b2s(b bool) string {
	if b {
		return "true"
	}
	return "false"
}

func mentionsName(n ast.Node, name string) bool {
	found := false
	ast.Inspect(n, func(x ast.Node) bool {
		if id, ok := x.(*ast.Ident); ok && (id.Name == name || id.Name == "Get"+name) {
			found = true
		}
		return !found
	})
	return found
}

// emptyRejectedBefore: an `if X.getter() == "" { return ..., err }` dominates loc.
func emptyRejectedBefore(info *types.Info, fl *core.Flow, body ast.Node, loc core.Loc, getter string) bool {
	ok := false
	ast.Inspect(body, func(x ast.Node) bool {
		is, isIf := x.(*ast.IfStmt)
		if !isIf {
			return true
		}
		be, isB := core.Unparen(is.Cond).(*ast.BinaryExpr)
		if !isB || be.Op != token.EQL {
			return true
		}
		call, isCall := core.Unparen(be.X).(*ast.CallExpr)
		if !isCall {
			return true
		}
		f := core.Callee(info, call)
		if f == nil || f.Name() != getter {
			return true
		}
		if bl, isLit := core.Unparen(be.Y).(*ast.BasicLit); !isLit || bl.Value != `""` {
			return true
		}
		if n := len(is.Body.List); n == 0 {
			return true
		} else if _, isRet := is.Body.List[n-1].(*ast.ReturnStmt); !isRet {
			return true
		}
		if l, found := fl.Locate(is.Cond); found && fl.Dominates(l, loc) {
			ok = true
		}
		return true
	})
	return ok
}

// isRangeKeyOver: id is the key variable of a `for id, _ := range <x>.<field>` loop in body.
func isRangeKeyOver(info *types.Info, body ast.Node, id *ast.Ident, field *types.Var) bool {
	obj := info.Uses[id]
	if obj == nil {
		obj = info.Defs[id]
	}
	found := false
	ast.Inspect(body, func(x ast.Node) bool {
		rs, ok := x.(*ast.RangeStmt)
		if !ok {
			return true
		}
		if k, ok := rs.Key.(*ast.Ident); ok && info.Defs[k] == obj && core.FieldOf(info, rs.X) == field {
			found = true
		}
		return true
	})
	return found
}

// removesRangeIndex: the assignment is  f = append(f[:i], f[i+1:]...)  with i the range key over f.
func removesRangeIndex(info *types.Info, body ast.Node, n ast.Node, field *types.Var) bool {
	as, ok := n.(*ast.AssignStmt)
	if !ok || len(as.Rhs) != 1 {
		return false
	}
	call, ok := core.Unparen(as.Rhs[0]).(*ast.CallExpr)
	if !ok || !isBuiltinCall(info, call, "append") || len(call.Args) != 2 || !call.Ellipsis.IsValid() {
		return false
	}
	a, ok1 := core.Unparen(call.Args[0]).(*ast.SliceExpr)
	b, ok2 := core.Unparen(call.Args[1]).(*ast.SliceExpr)
	if !ok1 || !ok2 || core.FieldOf(info, a.X) != field || core.FieldOf(info, b.X) != field {
		return false
	}
	if a.Low != nil || a.High == nil || b.High != nil || b.Low == nil {
		return false
	}
	hi, ok := core.Unparen(a.High).(*ast.Ident)
	if !ok || !isRangeKeyOver(info, body, hi, field) {
		return false
	}
	be, ok := core.Unparen(b.Low).(*ast.BinaryExpr)
	if !ok || be.Op != token.ADD || !isConst(info, be.Y, 1) {
		return false
	}
	lo, ok := core.Unparen(be.X).(*ast.Ident)
	return ok && info.Uses[lo] == info.Uses[hi]
}

func c28(c *core.Ctx) {
	p := c.P
	c.Explain = "Structural necessary conditions for bounded lock bookkeeping: every keyed container in the lock package that gains entries on Lock has a removal site reachable from the release paths (Unlock, TTL expiry, cancellation), each release path deletes the entry it inserted, and every removal of a caller from a queue closes the channel that stops the caller's TTL watchdog goroutine on every path (what a released lock could otherwise leave parked for the whole TTL)."
	c.NotCovered = []string{"that the removal actually happens for every history (needs execution)", "memory reachable from a parked goroutine other than through the watchdog's stop channel (e.g. a timer that is never stopped after the goroutine exits)"}
	r := c.Rule("C28.prune", "each keyed container (map / sync.Map field) of the lock bookkeeping that is inserted into has a delete site reachable from queue.remove / Unlock", 1)
	// C28.stop: what a granted lock leaves running (the TTL watchdog goroutine with its timer, holding the
	// caller and the queue) is stopped by closing the caller's done channel: every removal from a queue
	// must close it on every path, whichever element is removed and whoever is waiting behind it.
	rStop := c.Rule("C28.stop", "a function that takes a caller out of a lock queue (any whole-slice write of queue.callers that is not a tail append) closes a caller's done channel on every path from that write to its exit: the done channel is the only thing that stops the caller's TTL watchdog goroutine before the client-chosen TTL runs out", 1)
	{
		callersF := p.MustField(pkgLock, "queue", "callers")
		doneF := core.StructFields(mustStruct(p, pkgLock, "caller"))["done"]
		if doneF == nil {
			rStop.Ok(pkgLock+".caller:no-done-channel", token.NoPos, "callers carry no watchdog termination channel (nothing is parked per lock)")
		} else {
			for _, f := range p.FuncsIn(pkgLock) {
				if f.Decl.Body == nil {
					continue
				}
				info := f.Info()
				for bi, body := range core.Bodies(f.Decl) {
					var removals []ast.Node
					for _, a := range core.Accesses(info, body, map[*types.Var]bool{callersF: true}, false) {
						if !a.Write {
							continue
						}
						switch a.Form {
						case "assign", "append", "reslice":
						default:
							continue
						}
						as, ok := a.Node.(*ast.AssignStmt)
						if !ok {
							continue
						}
						tail := false
						for _, rhs := range as.Rhs {
							if call, ok := core.Unparen(rhs).(*ast.CallExpr); ok && isBuiltinCall(info, call, "append") && len(call.Args) >= 1 {
								if sel, ok := core.Unparen(call.Args[0]).(*ast.SelectorExpr); ok && core.FieldOf(info, sel) == callersF {
									tail = true
								}
							}
						}
						if tail {
							continue
						}
						removals = append(removals, a.Node)
					}
					if len(removals) == 0 {
						continue
					}
					c.Touch(f)
					fl := core.NewFlow(p, info, body)
					closesDone := core.NodeHasCall(func(call *ast.CallExpr) bool {
						return isBuiltinCall(info, call, "close") && len(call.Args) == 1 && core.FieldOf(info, call.Args[0]) == doneF
					})
					// one obligation per function body: the first removal on each path decides; a later
					// removal after the close (releasing the backing array) removes nobody new
					bad := ast.Node(nil)
					for _, rm := range removals {
						loc, ok := fl.Locate(rm)
						if !ok {
							continue
						}
						// is this removal itself only reachable after a close(done)? then it is covered
						pre, _ := fl.CanReach(fl.Entry(), nil, closesDone, core.ContainsNode(rm))
						if !pre {
							continue
						}
						esc := fl.ExitWithout(loc, nil, false, closesDone)
						if esc {
							bad = rm
							break
						}
					}
					construct := fmt.Sprintf("%s:body%d:removal-closes-done", f.Key, bi)
					if bad != nil {
						rStop.Bad(construct, bad.Pos(), "a caller is taken out of the queue here and the function can return without closing a done channel: the watchdog goroutine of a released lock (timer, caller, queue) stays parked for the whole TTL the client chose")
					} else {
						rStop.Ok(construct, removals[0].Pos(), "every path from the removal to the exit closes done")
					}
				}
			}
		}
	}

	// C28.orphan: nothing a lock request started stays behind when the request is abandoned.
	rOrph := c.Rule("C28.orphan", "in the lock package and the gateway's lock handlers, a goroutine that reports its result by an unconditional send on an unbuffered channel made by the enclosing function is always received from: the enclosing function does not receive from that channel only inside a select that has another returning case (client gone, shutdown). Otherwise every abandoned request leaves a goroutine parked on the send forever, holding the key, the lock ID and the queue", 1)
	{
		var scope []*core.Func
		scope = append(scope, p.FuncsIn(pkgLock)...)
		for _, f := range p.FuncsIn(pkgGateway) {
			if f.Decl.Recv != nil && (f.Obj.Name() == "Lock" || f.Obj.Name() == "Unlock") {
				scope = append(scope, f)
			}
		}
		n := 0
		for _, f := range scope {
			if f.Decl.Body == nil {
				continue
			}
			info := f.Info()
			// unbuffered channels made here
			chans := map[types.Object]token.Pos{}
			ast.Inspect(f.Decl.Body, func(x ast.Node) bool {
				as, ok := x.(*ast.AssignStmt)
				if !ok || len(as.Lhs) != len(as.Rhs) {
					return true
				}
				for i, r := range as.Rhs {
					call, isCall := core.Unparen(r).(*ast.CallExpr)
					if !isCall || !isBuiltinCall(info, call, "make") || len(call.Args) == 0 {
						continue
					}
					if _, isChan := info.TypeOf(call.Args[0]).Underlying().(*types.Chan); !isChan {
						continue
					}
					if len(call.Args) >= 2 && !isConst(info, call.Args[1], 0) {
						continue // buffered
					}
					if o := core.ObjOf(info, as.Lhs[i]); o != nil {
						chans[o] = as.Pos()
					}
				}
				return true
			})
			if len(chans) == 0 {
				continue
			}
			// goroutine literals: under a go statement, or handed to a function (SafeGo-style helper)
			var golits []*ast.FuncLit
			ast.Inspect(f.Decl.Body, func(x ast.Node) bool {
				switch v := x.(type) {
				case *ast.GoStmt:
					if lit, ok := core.Unparen(v.Call.Fun).(*ast.FuncLit); ok {
						golits = append(golits, lit)
					}
					for _, a := range v.Call.Args {
						if lit, ok := core.Unparen(a).(*ast.FuncLit); ok {
							golits = append(golits, lit)
						}
					}
				case *ast.CallExpr:
					if fo := core.Callee(info, v); fo != nil && strings.Contains(fo.Name(), "Go") {
						for _, a := range v.Args {
							if lit, ok := core.Unparen(a).(*ast.FuncLit); ok {
								golits = append(golits, lit)
							}
						}
					}
				}
				return true
			})
			inGo := func(n ast.Node) bool {
				for _, l := range golits {
					if l.Pos() <= n.Pos() && n.End() <= l.End() {
						return true
					}
				}
				return false
			}
			for ch, pos := range chans {
				// unconditional sends from a goroutine
				var send *ast.SendStmt
				ast.Inspect(f.Decl.Body, func(x ast.Node) bool {
					ss, ok := x.(*ast.SendStmt)
					if !ok || core.ObjOf(info, ss.Chan) != ch || !inGo(ss) {
						return true
					}
					inSelect := false
					for _, nd := range core.PathTo(f.Decl.Body, ss) {
						if cc, isCC := nd.(*ast.CommClause); isCC && cc.Comm == ast.Stmt(ss) {
							inSelect = true
						}
					}
					if !inSelect {
						send = ss
					}
					return true
				})
				if send == nil {
					continue
				}
				n++
				c.Touch(f)
				// receives in the parent
				abandon := ""
				received := false
				ast.Inspect(f.Decl.Body, func(x ast.Node) bool {
					u, ok := x.(*ast.UnaryExpr)
					if !ok || u.Op != token.ARROW || core.ObjOf(info, u.X) != ch || inGo(u) {
						return true
					}
					received = true
					for _, nd := range core.PathTo(f.Decl.Body, u) {
						sel, isSel := nd.(*ast.SelectStmt)
						if !isSel {
							continue
						}
						for _, cl := range sel.Body.List {
							cc := cl.(*ast.CommClause)
							if cc.Pos() <= u.Pos() && u.End() <= cc.End() {
								continue
							}
							if cc.Comm == nil {
								abandon = "a default case"
								continue
							}
							ast.Inspect(cc, func(y ast.Node) bool {
								if _, isRet := y.(*ast.ReturnStmt); isRet {
									abandon = "another case that returns (" + core.ExprStr(commExpr(cc.Comm)) + ")"
								}
								return true
							})
						}
					}
					return true
				})
				switch {
				case !received:
					rOrph.Bad(f.Key+":"+ch.Name()+":always-received", pos, "a goroutine sends its result on this unbuffered channel and the function never receives from it: the goroutine stays parked on the send")
				case abandon != "":
					rOrph.Bad(f.Key+":"+ch.Name()+":always-received", pos, "a goroutine sends its result on this unbuffered channel, but the function receives from it only in a select with "+abandon+": when that case wins, the goroutine is parked on the send forever - one leaked goroutine (with the key, the lock ID and a granted or queued lock) per abandoned request")
				default:
					rOrph.Ok(f.Key+":"+ch.Name()+":always-received", pos, "received on every path")
				}
			}
		}
		if n == 0 {
			rOrph.Ok(pkgLock+"+gateway.Lock:no-result-goroutines", token.NoPos, "no goroutine of the lock paths reports through an unbuffered channel")
		}
	}

	_, st := p.StructOf(pkgLock, "lock")
	for i := 0; i < st.NumFields(); i++ {
		fld := st.Field(i)
		isMap := false
		if _, ok := fld.Type().Underlying().(*types.Map); ok {
			isMap = true
		}
		if n, ok := fld.Type().(*types.Named); ok && n.Obj().Pkg() != nil && n.Obj().Pkg().Path() == "sync" && n.Obj().Name() == "Map" {
			isMap = true
		}
		if !isMap {
			continue
		}
		inserts, deletes := 0, 0
		var insPos token.Pos
		for _, f := range p.FuncsIn(pkgLock) {
			if f.Decl.Body == nil {
				continue
			}
			c.Touch(f)
			for _, a := range core.Accesses(f.Info(), f.Decl.Body, map[*types.Var]bool{fld: true}, true) {
				switch a.Form {
				case "method:Store", "method:LoadOrStore", "elem", "method:Swap":
					inserts++
					insPos = a.Node.Pos()
				case "method:Delete", "method:LoadAndDelete", "method:CompareAndDelete", "delete", "method:Clear":
					deletes++
				}
			}
		}
		if inserts == 0 {
			continue
		}
		r.Check(deletes > 0, pkgLock+".lock."+fld.Name(), insPos, "has removal sites",
			"per-key entries are inserted into lock."+fld.Name()+" but never removed: memory grows with the number of distinct keys ever locked")
		if deletes == 0 {
			continue
		}
		// every release path removes the entry: each body (function or function literal) that takes a
		// caller out of a queue (queue.remove) after the entry may have been inserted also deletes it
		removeFn := c.Fn(pkgLock + ".queue.remove")
		isIns := func(a core.Access) bool {
			switch a.Form {
			case "method:Store", "method:LoadOrStore", "elem", "method:Swap":
				return true
			}
			return false
		}
		isDel := func(a core.Access) bool {
			switch a.Form {
			case "method:Delete", "method:LoadAndDelete", "method:CompareAndDelete", "delete", "method:Clear":
				return true
			}
			return false
		}
		for _, f := range p.FuncsIn(pkgLock) {
			if f.Decl.Body == nil || f == removeFn {
				continue
			}
			fi := f.Info()
			for bi, body := range core.Bodies(f.Decl) {
				var removes []*ast.CallExpr
				core.Calls(body, false, func(call *ast.CallExpr) {
					if core.IsWsCallTo(fi, call, removeFn.Key) {
						removes = append(removes, call)
					}
				})
				if len(removes) == 0 {
					continue
				}
				var ins, del []core.Access
				for _, a := range core.Accesses(fi, body, map[*types.Var]bool{fld: true}, false) {
					if isIns(a) {
						ins = append(ins, a)
					}
					if isDel(a) {
						del = append(del, a)
					}
				}
				bfl := core.NewFlow(p, fi, body)
				for ri, rm := range removes {
					if len(ins) > 0 {
						// a removal that cannot follow the insertion in this body (another select branch) has nothing to delete
						after := false
						for _, in := range ins {
							if li, ok := bfl.Locate(in.Node); ok {
								if r2, _ := bfl.CanReach(li, nil, nil, core.ContainsNode(rm)); r2 {
									after = true
								}
							}
						}
						if !after {
							continue
						}
					}
					construct := fmt.Sprintf("%s:body%d:remove#%d:%s", f.Key, bi, ri, fld.Name())
					r.Check(len(del) > 0, construct, rm.Pos(), "release path also deletes the entry", "a caller is taken out of its queue here (release by "+map[bool]string{true: "a function literal (timer / watchdog)", false: "this function"}[bi > 0]+") but its entry in lock."+fld.Name()+" is not deleted on this path: every lock that ends this way leaves an entry behind, the map grows with the number of acquisitions")
				}
			}
		}
	}
}

// qRemoval describes what a write to the queue slice removes.
type qRemoval struct {
	kind   string   // "index": exactly one element at idx; "none": nobody; "unknown"
	idx    ast.Expr // index expression (nil when const0)
	const0 bool
	why    string
}

// queueRemovalOf classifies a write to the queue slice by the element that leaves the queue:
//
//	f = append(f[:i], f[i+1:]...)                      -> index i
//	f = f[1:]                                          -> index 0
//	copy(f[i:], f[i+1:]) ... f = f[:len(f)-1]          -> index i
//	f[0] = nil before f = f[1:], f[len(f)-1] = nil before f = f[:len(f)-1]  -> nobody (slot cleared for the GC)
//	f = nil / f[:0] where len(f) == 0 is known         -> nobody
func queueRemovalOf(info *types.Info, body ast.Node, fl *core.Flow, a core.Access, field *types.Var) qRemoval {
	as, ok := a.Node.(*ast.AssignStmt)
	if !ok || len(as.Lhs) != 1 || len(as.Rhs) != 1 {
		return qRemoval{kind: "unknown", why: "not a simple assignment"}
	}
	loc, located := fl.Locate(a.Node)
	rhs := core.Unparen(as.Rhs[0])
	lenMinus1 := func(e ast.Expr) bool {
		be, ok := core.Unparen(e).(*ast.BinaryExpr)
		return ok && be.Op == token.SUB && isConst(info, be.Y, 1) && lenOfField(info, be.X, field)
	}
	plus1Of := func(e ast.Expr, base ast.Expr) bool {
		be, ok := core.Unparen(e).(*ast.BinaryExpr)
		if !ok || be.Op != token.ADD || !isConst(info, be.Y, 1) {
			return false
		}
		bo, eo := core.ObjOf(info, base), core.ObjOf(info, be.X)
		return bo != nil && bo == eo
	}
	// the next whole-slice write after this node in the same block
	nextWrite := func() (*ast.AssignStmt, bool) {
		var out *ast.AssignStmt
		ast.Inspect(body, func(x ast.Node) bool {
			blk, ok := x.(*ast.BlockStmt)
			if !ok {
				return true
			}
			for i, st := range blk.List {
				if st == ast.Stmt(as) {
					for _, st2 := range blk.List[i+1:] {
						if a2, ok2 := st2.(*ast.AssignStmt); ok2 && len(a2.Lhs) == 1 {
							if sel, isSel := core.Unparen(a2.Lhs[0]).(*ast.SelectorExpr); isSel && core.FieldOf(info, sel) == field {
								out = a2
								return false
							}
						}
					}
				}
			}
			return true
		})
		return out, out != nil
	}
	if a.Form == "elem" {
		ix, isIx := core.Unparen(as.Lhs[0]).(*ast.IndexExpr)
		if !isIx || !core.IsNilIdent(info, rhs) {
			return qRemoval{kind: "unknown", why: "an element of the queue is overwritten"}
		}
		if nw, ok := nextWrite(); ok {
			if sl, isSl := core.Unparen(nw.Rhs[0]).(*ast.SliceExpr); isSl && core.FieldOf(info, sl.X) == field {
				if isConst(info, ix.Index, 0) && sl.Low != nil && isConst(info, sl.Low, 1) && sl.High == nil {
					return qRemoval{kind: "none", why: "slot 0 cleared right before it is dropped"}
				}
				if lenMinus1(ix.Index) && sl.Low == nil && sl.High != nil && lenMinus1(sl.High) {
					return qRemoval{kind: "none", why: "last slot cleared right before it is dropped"}
				}
			}
		}
		return qRemoval{kind: "unknown", why: "an element is set to nil and stays in the queue"}
	}
	switch v := rhs.(type) {
	case *ast.CallExpr:
		if isBuiltinCall(info, v, "append") && len(v.Args) == 2 && v.Ellipsis.IsValid() {
			x, ok1 := core.Unparen(v.Args[0]).(*ast.SliceExpr)
			y, ok2 := core.Unparen(v.Args[1]).(*ast.SliceExpr)
			if ok1 && ok2 && core.FieldOf(info, x.X) == field && core.FieldOf(info, y.X) == field && x.Low == nil && x.High != nil && y.High == nil && y.Low != nil && plus1Of(y.Low, x.High) {
				return qRemoval{kind: "index", idx: x.High, why: "append(q[:i], q[i+1:]...) removes index " + core.ExprStr(x.High)}
			}
		}
		return qRemoval{kind: "unknown", why: "unrecognised append"}
	case *ast.SliceExpr:
		if core.FieldOf(info, v.X) != field {
			return qRemoval{kind: "unknown", why: "assigned from another slice"}
		}
		if v.Low != nil && isConst(info, v.Low, 1) && v.High == nil {
			return qRemoval{kind: "index", const0: true, why: "q = q[1:] removes index 0"}
		}
		if v.Low == nil && v.High != nil && lenMinus1(v.High) {
			// needs the shift copy(q[i:], q[i+1:]) right before on every path
			var idx ast.Expr
			ast.Inspect(body, func(x ast.Node) bool {
				call, ok := x.(*ast.CallExpr)
				if !ok || !isBuiltinCall(info, call, "copy") || len(call.Args) != 2 {
					return true
				}
				d, ok1 := core.Unparen(call.Args[0]).(*ast.SliceExpr)
				sr, ok2 := core.Unparen(call.Args[1]).(*ast.SliceExpr)
				if ok1 && ok2 && core.FieldOf(info, d.X) == field && core.FieldOf(info, sr.X) == field && d.Low != nil && d.High == nil && sr.High == nil && sr.Low != nil && plus1Of(sr.Low, d.Low) {
					if lc, okc := fl.Locate(call); okc && located && fl.Dominates(lc, loc) {
						idx = d.Low
					}
				}
				return true
			})
			if idx != nil {
				return qRemoval{kind: "index", idx: idx, why: "copy(q[i:], q[i+1:]) and q = q[:len(q)-1] remove index " + core.ExprStr(idx)}
			}
			return qRemoval{kind: "unknown", why: "the last element is dropped without a shift"}
		}
		if v.Low == nil && v.High != nil && isConst(info, v.High, 0) {
			break // q[:0]: handled below as emptying
		}
		return qRemoval{kind: "unknown", why: "unrecognised reslice"}
	}
	if core.IsNilIdent(info, rhs) || func() bool { sl, ok := rhs.(*ast.SliceExpr); return ok && sl.High != nil && isConst(info, sl.High, 0) }() {
		empty := located && holdsAt(fl, body, loc, func(ft core.Fact) bool {
			return cmpFact(ft, func(x ast.Expr, op token.Token, y ast.Expr) bool {
				return lenOfField(info, x, field) && isConst(info, y, 0) && op == token.EQL
			})
		})
		if empty {
			return qRemoval{kind: "none", why: "the queue is known to be empty here (backing array released)"}
		}
		return qRemoval{kind: "unknown", why: "the whole queue is emptied"}
	}
	return qRemoval{kind: "unknown", why: "unrecognised write"}
}

// isQueueElem reports whether e denotes the queue element at the removed index: q[idx] itself, the
// value variable of a range over q whose key is idx, or a local defined as q[idx].
func isQueueElem(info *types.Info, body ast.Node, e ast.Expr, field *types.Var, r qRemoval) bool {
	sameIdx := func(ix ast.Expr) bool {
		if r.const0 {
			return isConst(info, ix, 0)
		}
		a, b := core.ObjOf(info, ix), core.ObjOf(info, r.idx)
		return a != nil && a == b
	}
	e = core.Unparen(e)
	if ix, ok := e.(*ast.IndexExpr); ok && core.FieldOf(info, ix.X) == field {
		return sameIdx(ix.Index)
	}
	obj := core.ObjOf(info, e)
	if obj == nil {
		return false
	}
	found := false
	ast.Inspect(body, func(x ast.Node) bool {
		switch v := x.(type) {
		case *ast.RangeStmt:
			if val, ok := v.Value.(*ast.Ident); ok && info.Defs[val] == obj && core.FieldOf(info, v.X) == field && v.Key != nil && !r.const0 {
				if k, ok := v.Key.(*ast.Ident); ok && info.Defs[k] == core.ObjOf(info, r.idx) {
					found = true
				}
			}
		case *ast.AssignStmt:
			if v.Tok == token.DEFINE && len(v.Lhs) == len(v.Rhs) {
				for i, l := range v.Lhs {
					if id, ok := l.(*ast.Ident); ok && info.Defs[id] == obj {
						if ix, ok := core.Unparen(v.Rhs[i]).(*ast.IndexExpr); ok && core.FieldOf(info, ix.X) == field && sameIdx(ix.Index) {
							found = true
						}
					}
				}
			}
		}
		return true
	})
	return found
}

// isTailAppend: f = append(f, x...) with the plain field as first argument.
func isTailAppend(info *types.Info, n ast.Node, field *types.Var) bool {
	as, ok := n.(*ast.AssignStmt)
	if !ok || len(as.Rhs) != 1 {
		return false
	}
	call, ok := core.Unparen(as.Rhs[0]).(*ast.CallExpr)
	if !ok || !isBuiltinCall(info, call, "append") || len(call.Args) < 2 {
		return false
	}
	sel, ok := core.Unparen(call.Args[0]).(*ast.SelectorExpr)
	return ok && core.FieldOf(info, sel) == field
}

func commExpr(st ast.Stmt) ast.Expr {
	switch v := st.(type) {
	case *ast.ExprStmt:
		return v.X
	case *ast.AssignStmt:
		if len(v.Rhs) == 1 {
			return v.Rhs[0]
		}
	case *ast.SendStmt:
		return v.Chan
	}
	return &ast.Ident{Name: "?"}
}
