// Command hv is the static checker for the HydrAIDE properties.
//
//	hv check -prop C17 [-tier quick|thorough]
//	hv explain <report.json>
//	hv list
package main

import (
	"flag"
	"fmt"
	"os"
	"runtime/debug"
	"time"

	"hv/core"
	"hv/rules"
)

func main() {
	if len(os.Args) < 2 {
		fmt.Fprintln(os.Stderr, "usage: hv check -prop Cnn [-tier quick|thorough] | hv explain <report> | hv list")
		os.Exit(2)
	}
	switch os.Args[1] {
	case "list":
		for _, id := range rules.IDs() {
			fmt.Println(id)
		}
	case "explain":
		if len(os.Args) < 3 {
			os.Exit(2)
		}
		b, err := os.ReadFile(os.Args[2])
		if err != nil {
			fmt.Fprintln(os.Stderr, err)
			os.Exit(2)
		}
		os.Stdout.Write(b)
		fmt.Println()
	case "check":
		fs := flag.NewFlagSet("check", flag.ExitOnError)
		prop := fs.String("prop", "", "property id")
		tier := fs.String("tier", "", "quick|thorough")
		fs.Parse(os.Args[2:])
		if *tier == "" {
			*tier = os.Getenv("VERIF_TIER")
		}
		if *tier != "thorough" {
			*tier = "quick"
		}
		os.Exit(run(*prop, *tier))
	default:
		os.Exit(2)
	}
}

func run(prop, tier string) (code int) {
	start := time.Now()
	defer func() {
		if r := recover(); r != nil {
			if f, ok := r.(core.Fatal); ok {
				fmt.Printf("CHECK-BROKEN property=%s %s\n", prop, f.Msg)
			} else {
				fmt.Printf("CHECK-BROKEN property=%s checker panic: %v\n%s\n", prop, r, debug.Stack())
			}
			code = 2
		}
	}()
	f := rules.Lookup(prop)
	if f == nil {
		fmt.Printf("CHECK-BROKEN unknown property %q\n", prop)
		return 2
	}
	p := core.Load()
	c := core.NewCtx(p, prop, tier, start)
	f(c)
	return c.Finish()
}
