package rules

import (
	"go/ast"
	"go/token"
	"go/types"
	"strings"

	"hv/core"
)

func init() {
	register("C16", c16)
	register("C18", c18)
}

func c16(c *core.Ctx) {
	p := c.P
	cg := c.CG()
	c.Explain = "Static necessary conditions for 'acknowledged writes survive eviction, auto-destroy and shutdown': every gateway operation on a summoned swamp holds a vigil for its whole duration (BeginVigil + immediately deferred CeaseVigil); Destroy marks the swamp closing, drains the vigils, and only then destroys the storage and announces the close; Close flushes and closes the chronicler before announcing the close; only the close callback removes a swamp from the live map. Two check-then-act decisions are reported: (1) the auto-destroy decision (swamp empty) is not re-validated after the vigil drain although in-flight writers may have added records meanwhile, and (2) Close never waits for vigils, so a request that obtained the swamp just before the idle check can save after Close's final flush. Both are recorded known findings with runtime demonstrations."
	c.NotCovered = []string{"loss windows over real schedules beyond the two recorded ones", "graceful stop timing (30 s force close)", "in-memory swamps (no durability claimed)"}

	rV := c.Rule("C16.vigil", "every gateway BeginVigil on a summoned swamp is immediately followed by a deferred CeaseVigil in the same function body", 30)
	{
		for _, f := range p.FuncsIn(pkgGateway) {
			if f.Decl.Body == nil {
				continue
			}
			info := f.Info()
			for _, body := range core.Bodies(f.Decl) {
				var fl *core.Flow
				core.Calls(body, false, func(call *ast.CallExpr) {
					if !isVigilCall(info, call, "BeginVigil") {
						return
					}
					if fl == nil {
						fl = core.NewFlow(p, info, body)
					}
					c.Touch(f)
					recv := core.ExprStr(core.RecvExpr(call))
					loc, ok := fl.Locate(call)
					if !ok {
						return
					}
					isRelease := func(n ast.Node) bool {
						d, ok := n.(*ast.DeferStmt)
						if !ok {
							return false
						}
						found := false
						core.Calls(d, true, func(c2 *ast.CallExpr) {
							if isVigilCall(info, c2, "CeaseVigil") && core.ExprStr(core.RecvExpr(c2)) == recv {
								found = true
							}
						})
						return found
					}
					leaks := fl.ExitWithout(loc, nil, true, isRelease)
					rV.Check(!leaks, f.Key+":"+recv+".BeginVigil", call.Pos(), "paired with a deferred CeaseVigil", "a vigil begun here is not ceased on some exit: the swamp can never be destroyed or, conversely, the request runs without protection")
				})
			}
		}
	}

	rO := c.Rule("C16.destroyorder", "Destroy: closing=1 is stored first, the vigil drain comes before the swamp mutex and before the chronicler is destroyed, the closed event is last; hydra.swamps.Delete is called only from the close callback", 5)
	{
		f := c.Fn(pkgSwamp + ".swamp.Destroy")
		info := f.Info()
		fl := core.NewFlow(p, info, f.Decl.Body)
		find := func(pred func(*ast.CallExpr) bool) *ast.CallExpr {
			var out *ast.CallExpr
			core.Calls(f.Decl.Body, false, func(call *ast.CallExpr) {
				if out == nil && pred(call) {
					out = call
				}
			})
			return out
		}
		closing := find(func(c2 *ast.CallExpr) bool {
			return core.IsCallTo(info, c2, "sync/atomic.StoreInt32") && strings.Contains(core.ExprStr(c2.Args[0]), "closing")
		})
		drain := find(func(c2 *ast.CallExpr) bool { return isVigilCall(info, c2, "WaitForActiveVigilsClosed") })
		chron := find(func(c2 *ast.CallExpr) bool { return core.MethodNamed(info, c2, pkgChron, []string{"Chronicler"}, "Destroy") })
		ev := find(func(c2 *ast.CallExpr) bool { return core.IsWsCallTo(info, c2, pkgSwamp+".swamp.sendClosedEvent") })
		if closing == nil || drain == nil || chron == nil || ev == nil {
			rO.Bad(f.Key+":steps", f.Decl.Pos(), "Destroy no longer has the closing store, vigil drain, chronicler destroy and closed event")
		} else {
			lc, ld, lch, le := fl.MustLocate(closing), fl.MustLocate(drain), fl.MustLocate(chron), fl.MustLocate(ev)
			rO.Check(fl.Dominates(lc, ld), f.Key+":closing-before-drain", closing.Pos(), "new requests are turned away before the drain", "vigils are drained before the swamp is marked closing: new requests keep arriving and the drain may never end or end too early")
			rO.Check(fl.Dominates(ld, lch), f.Key+":drain-before-storage-destroy", drain.Pos(), "storage destroyed only after in-flight operations ended", "the storage is destroyed while operations may still be in flight")
			rO.Check(fl.Dominates(lch, le) || fl.Dominates(ld, le), f.Key+":event-last", ev.Pos(), "closed event after the drain", "the swamp is announced closed before it is drained")
			// the storage destroy is conditional (in-memory swamps have none), so "last" is stated as: nothing
			// that destroys the storage can still run after the announcement
			evThenDestroy, _ := fl.CanReach(le, nil, nil, core.ContainsNode(chron))
			rO.Check(!evThenDestroy, f.Key+":event-after-storage-destroy", ev.Pos(), "the storage is gone before the name is given back", "the swamp is announced closed - the name is free for the next summon - while its storage is still to be destroyed: a new instance created in that window writes an acknowledged record into files the old instance then deletes")
		}
		// who deletes from hydra.swamps
		swampsF := p.MustField(pkgHydra, "hydra", "swamps")
		n := 0
		for _, g := range p.FuncsIn(pkgHydra) {
			if g.Decl.Body == nil {
				continue
			}
			for _, a := range core.Accesses(g.Info(), g.Decl.Body, map[*types.Var]bool{swampsF: true}, true) {
				if a.Form == "method:Delete" || a.Form == "method:LoadAndDelete" || a.Form == "method:CompareAndDelete" || a.Form == "method:Clear" {
					n++
					c.Touch(g)
					rO.Check(g.Key == pkgHydra+".hydra.closeEventCallbackFunction", g.Key+":swamps.Delete", a.Node.Pos(), "close callback", "a live swamp is removed from the map outside the close callback: a second instance can be created while the first is still writing")
				}
			}
		}
		if n == 0 {
			rO.Bad(pkgHydra+":swamps.Delete", token.NoPos, "no removal from the live swamp map found")
		}
		// the close callback is only invoked through sendClosedEvent (Close / Destroy)
		for _, s := range cg.CallersOf(c.Fn(pkgSwamp + ".swamp.sendClosedEvent")) {
			ok := s.Caller.Key == pkgSwamp+".swamp.Close" || s.Caller.Key == pkgSwamp+".swamp.Destroy"
			rO.Check(ok, s.Caller.Key+"->sendClosedEvent", s.Call.Pos(), "announced by Close/Destroy only", "the swamp is announced closed from "+s.Caller.Key)
		}
	}

	rC := c.Rule("C16.checkact", "a destructive lifecycle action decided on shared state is re-validated after the point where concurrent operations are excluded: (1) the auto-destroy decision (no records) after the vigil drain, (2) Close's final flush after all in-flight operations ended", 2)
	{
		// (1) every auto-destroy site: Count()==0 -> Destroy; Destroy (or the site after it) must re-check emptiness after WaitForActiveVigilsClosed
		d := c.Fn(pkgSwamp + ".swamp.Destroy")
		info := d.Info()
		fl := core.NewFlow(p, info, d.Decl.Body)
		var drain *ast.CallExpr
		core.Calls(d.Decl.Body, false, func(call *ast.CallExpr) {
			if isVigilCall(info, call, "WaitForActiveVigilsClosed") {
				drain = call
			}
		})
		recheck := false
		if drain != nil {
			ld := fl.MustLocate(drain)
			core.Calls(d.Decl.Body, false, func(call *ast.CallExpr) {
				if strings.Contains(core.ExprStr(call.Fun), "Count") {
					if l, ok := fl.Locate(call); ok && fl.Dominates(ld, l) && l != ld {
						recheck = true
					}
				}
			})
		}
		autoSites := 0
		for _, f := range p.FuncsIn(pkgSwamp) {
			if f.Decl.Body != nil && f != d && callsDirect(f, pkgSwamp+".swamp.Destroy") && callsDirectAny(f, "Count") {
				autoSites++
				c.Touch(f)
			}
		}
		rC.Check(recheck || autoSites == 0, pkgSwamp+".swamp.Destroy:auto-destroy-recheck", d.Decl.Pos(), "emptiness re-checked after the drain",
			"the swamp is destroyed because it was empty before the vigil drain, but in-flight operations (which the drain waits for) may have saved new records meanwhile; their acknowledged writes are deleted with the storage file")
		// (2) Close: waits for vigils (or re-flushes after them)
		cl := c.Fn(pkgSwamp + ".swamp.Close")
		waits := false
		core.Calls(cl.Decl.Body, true, func(call *ast.CallExpr) {
			if isVigilCall(cl.Info(), call, "WaitForActiveVigilsClosed") {
				waits = true
			}
		})
		rC.Check(waits, pkgSwamp+".swamp.Close:flush-after-vigils", cl.Decl.Pos(), "Close drains vigils before its final flush",
			"Close flushes once and closes the chronicler without waiting for operations that already hold the swamp (the idle check and Close are not atomic with SummonSwamp+BeginVigil): a save acknowledged after the flush is never written")
	}

	rCF := c.Rule("C16.closeflush", "the writer that Close runs in close mode cannot return before it handed the pending records to the chronicler, except when nothing is pending: on every path with the close-mode parameter true, a return that precedes Chronicler.Write is dominated by the 'pending set is empty' test", 1)
	{
		pending := p.MustField(pkgSwamp, "swamp", "treasuresWaitingForWriter")
		n := 0
		for _, f := range p.FuncsIn(pkgSwamp) {
			if f.Decl.Body == nil {
				continue
			}
			info := f.Info()
			var write *ast.CallExpr
			core.Calls(f.Decl.Body, false, func(call *ast.CallExpr) {
				if core.MethodNamed(info, call, pkgChron, []string{"Chronicler"}, "Write") {
					write = call
				}
			})
			sig := f.Obj.Type().(*types.Signature)
			var mode types.Object
			for i := 0; i < sig.Params().Len(); i++ {
				if b, ok := sig.Params().At(i).Type().Underlying().(*types.Basic); ok && b.Kind() == types.Bool {
					mode = sig.Params().At(i)
				}
			}
			if write == nil || mode == nil {
				continue
			}
			// Close must call it with the constant true (C02.closeorder checks the argument)
			n++
			c.Touch(f)
			fl := core.NewFlow(p, info, f.Decl.Body)
			// edges on which the mode parameter is known to be false are not taken in close mode
			cut := map[core.Edge]bool{}
			for bi := range fl.G.Blocks {
				cond := fl.CondOf(bi)
				if cond == nil {
					continue
				}
				for si := 0; si < 2; si++ {
					for _, ft := range fl.EdgeFacts(bi, si) {
						if id, ok := core.Unparen(ft.Expr).(*ast.Ident); ok && info.Uses[id] == mode && !ft.Truth {
							cut[core.Edge{From: bi, Succ: si}] = true
						}
					}
				}
			}
			bad := ""
			fl.Walk(fl.Entry(), cut, false, func(l core.Loc, nd ast.Node) bool {
				if core.ContainsNode(write)(nd) {
					return false
				}
				if _, isRet := nd.(*ast.ReturnStmt); isRet {
					empty := false
					for _, ft := range fl.FactsAt(l) {
						be, ok := ft.Expr.(*ast.BinaryExpr)
						if !ok {
							continue
						}
						call, ok := core.Unparen(be.X).(*ast.CallExpr)
						if !ok {
							continue
						}
						fo := core.Callee(info, call)
						if fo == nil || fo.Name() != "Count" || core.FieldOf(info, core.RecvExpr(call)) != pending {
							continue
						}
						if v, isC := core.ConstInt(info, be.Y); isC && v == 0 && ((be.Op == token.EQL && ft.Truth) || (be.Op == token.LEQ && ft.Truth) || (be.Op == token.NEQ && !ft.Truth) || (be.Op == token.GTR && !ft.Truth)) {
							empty = true
						}
					}
					if !empty {
						bad = p.Pos(nd.Pos())
					}
				}
				return true
			})
			rCF.Check(bad == "", f.Key+":close-mode-reaches-Write", f.Decl.Pos(), "close mode always reaches Chronicler.Write unless nothing is pending", "in close mode the writer can return at "+bad+" before handing the pending records to the chronicler although records are pending: Close then closes the chronicler and a save acknowledged meanwhile is never written")
		}
		if n == 0 {
			rCF.Bad(pkgSwamp+":close-writer", token.NoPos, "no function with a close-mode flag hands pending records to Chronicler.Write")
		}
	}

	// C16.handover: the window between SummonSwamp returning an already open swamp and the caller's
	// BeginVigil is protected only by the idle timer: the summon must restart it.
	rH := c.Rule("C16.handover", "SummonSwamp hands out a swamp that is already open only after it called, on that swamp, a method that restarts the swamp's idle timer (a store to the field the idle-close listener compares with the idle limit): between the return and the caller's BeginVigil nothing else keeps the idle-close listener from closing an expired swamp, and a write made through the stale handle is acknowledged but never reaches the file", 1)
	{
		f := c.Fn(pkgHydra + ".hydra.SummonSwamp")
		info := f.Info()
		// the idle timer: the swamp field the close listener loads and compares (read next to closeAfterIdle)
		_, swSt := p.StructOf(pkgSwamp, "swamp")
		var timerF *types.Var
		if idle := core.StructFields(swSt)["closeAfterIdle"]; idle != nil {
			for _, g := range p.FuncsIn(pkgSwamp) {
				if g.Decl.Body == nil {
					continue
				}
				usesIdle := false
				for _, a := range core.Accesses(g.Info(), g.Decl.Body, map[*types.Var]bool{idle: true}, true) {
					if !a.Write {
						usesIdle = true
					}
				}
				if !usesIdle {
					continue
				}
				for _, a := range core.Accesses(g.Info(), g.Decl.Body, nil, true) {
					if b, ok := a.Field.Type().Underlying().(*types.Basic); ok && b.Kind() == types.Int64 && !a.Write && a.Field != idle && strings.Contains(strings.ToLower(a.Field.Name()), "interaction") {
						timerF = a.Field
					}
				}
			}
		}
		if timerF == nil {
			rH.Bad(pkgSwamp+".swamp:idle-timer", f.Decl.Pos(), "cannot identify the idle timer field of the swamp (rule needs review)")
		} else {
			// swamp methods that restart the timer
			restarts := map[string]bool{}
			for _, g := range p.FuncsIn(pkgSwamp) {
				if g.Decl.Body == nil || g.Decl.Recv == nil {
					continue
				}
				for _, a := range core.Accesses(g.Info(), g.Decl.Body, map[*types.Var]bool{timerF: true}, false) {
					if a.Write {
						fl := core.NewFlow(p, g.Info(), g.Decl.Body)
						if !fl.ExitWithout(fl.Entry(), nil, false, core.ContainsNode(a.Node)) {
							restarts[g.Obj.Name()] = true
						}
					}
				}
			}
			fl := core.NewFlow(p, info, f.Decl.Body)
			var creates []*ast.CallExpr
			core.Calls(f.Decl.Body, false, func(call *ast.CallExpr) {
				if core.IsWsCallTo(info, call, pkgHydra+".hydra.createNewSwamp") {
					creates = append(creates, call)
				}
			})
			n := 0
			fl.Nodes(func(l core.Loc, nd ast.Node) {
				ret, ok := nd.(*ast.ReturnStmt)
				if !ok || len(ret.Results) != 2 || !core.IsNilIdent(info, ret.Results[1]) {
					return
				}
				obj := core.ObjOf(info, ret.Results[0])
				if obj == nil {
					return
				}
				for _, cr := range creates {
					if lc, ok2 := fl.Locate(cr); ok2 && fl.Dominates(lc, l) {
						return // a swamp created by this call: its timer starts now
					}
				}
				n++
				touched := false
				core.Calls(f.Decl.Body, false, func(call *ast.CallExpr) {
					fo := core.Callee(info, call)
					if fo == nil || !restarts[fo.Name()] || core.ObjOf(info, core.RecvExpr(call)) != obj {
						return
					}
					if lc, ok2 := fl.Locate(call); ok2 && fl.Dominates(lc, l) {
						touched = true
					}
				})
				rH.Check(touched, f.Key+":existing-swamp-returned-after-timer-restart", ret.Pos(), "a timer-restarting method of the swamp is called on every path to this return",
					"an already open swamp is returned without restarting its idle timer: if the swamp is past its idle limit, the idle-close listener can close it before the caller's BeginVigil, and the caller's acknowledged write goes to a closed instance and is lost")
			})
			if n == 0 {
				rH.Bad(f.Key+":existing-swamp-return", f.Decl.Pos(), "SummonSwamp has no return of an already open swamp (rule needs review)")
			}
		}
	}

	rS := c.Rule("C16.shutdown", "graceful stop marks the hydra shutting down before it closes the swamps, and the closing pass ranges over the live swamp map calling Close", 2)
	{
		g := c.Fn(pkgHydra + ".hydra.GracefulStop")
		info := g.Info()
		fl := core.NewFlow(p, info, g.Decl.Body)
		var mark, closeAll ast.Node
		core.Calls(g.Decl.Body, true, func(call *ast.CallExpr) {
			if core.IsWsCallTo(info, call, pkgHydra+".hydra.MarkShuttingDown") {
				mark = call
			}
			if core.IsWsCallTo(info, call, pkgHydra+".hydra.tryToCloseAllSwamps") {
				closeAll = call
			}
		})
		ok := false
		if mark != nil && closeAll != nil {
			lm, ok1 := fl.Locate(mark)
			// closeAll sits inside a literal passed to SafeGo: locate the enclosing statement
			var host ast.Node
			for _, n := range core.PathTo(g.Decl.Body, closeAll) {
				if _, isStmt := n.(ast.Stmt); isStmt && host == nil {
					if _, isBlock := n.(*ast.BlockStmt); !isBlock {
						host = n
					}
				}
			}
			if host != nil {
				lh, ok2 := fl.Locate(host)
				ok = ok1 && ok2 && fl.Dominates(lm, lh)
			}
		}
		rS.Check(ok, g.Key+":mark-then-close", g.Decl.Pos(), "no new summons once closing starts", "swamps are closed before new summons are refused: a swamp can be re-created during shutdown and its writes lost")
		t := c.Fn(pkgHydra + ".hydra.tryToCloseAllSwamps")
		closes := false
		core.Calls(t.Decl.Body, true, func(call *ast.CallExpr) {
			if core.MethodNamed(t.Info(), call, pkgSwamp, []string{"Swamp"}, "Close") {
				closes = true
			}
		})
		rS.Check(closes, t.Key+":Close", t.Decl.Pos(), "every live swamp is closed", "the closing pass does not close the swamps")
	}
}

func callsDirectAny(f *core.Func, nameContains string) bool {
	found := false
	core.Calls(f.Decl.Body, true, func(call *ast.CallExpr) {
		if strings.Contains(core.ExprStr(call.Fun), nameContains) {
			found = true
		}
	})
	return found
}

func c18(c *core.Ctx) {
	p := c.P
	c.Explain = "Static necessary conditions for 'at most one live instance per swamp': a swamp is created and stored into the live map only inside SummonSwamp's ownership region (between taking and releasing the per-name waiter); the per-name waiter slot is removed only when a reference count reaches zero, so the count must change by exactly +1 and -1 on every path through SummonSwamp (finite path-balance analysis over the CFG including the deferred release), the waiter's fields are touched only under its lock, the deletion is guarded by count==0 and marks the waiter retired, and a caller tests 'retired' under the lock before taking its reference (LoadOrStore and Lock are not atomic). The pinned tree violated the balance (owner never counted, waiters counted once per wake-up); repaired by a fix: commit, see known_findings.json."
	c.NotCovered = []string{"mutual exclusion of owners over real interleavings", "two hydra processes on one data directory"}

	sum := c.Fn(pkgHydra + ".hydra.SummonSwamp")
	info := sum.Info()

	// C18.release: an instance leaves the live map only through its own teardown.
	rRel := c.Rule("C18.release", "an instance is taken out of the live map only by its own teardown: hydra.swamps is deleted from only in the close callback, and the swamp announces itself closed (the call that runs that callback) only in a function that first published closing=1 on every path to the announcement - never from a waiter, a timeout branch or a status method: a name freed while its instance still runs lets the next summon create a second instance on the same file", 2)
	{
		cg := c.CG()
		swampsF := p.MustField(pkgHydra, "hydra", "swamps")
		closingF := p.MustField(pkgSwamp, "swamp", "closing")
		// the callback: the function of hydra that deletes from the live map
		var callbacks []*core.Func
		for _, g := range p.FuncsIn(pkgHydra) {
			if g.Decl.Body == nil {
				continue
			}
			for _, a := range core.Accesses(g.Info(), g.Decl.Body, map[*types.Var]bool{swampsF: true}, true) {
				switch a.Form {
				case "method:Delete", "method:LoadAndDelete", "method:CompareAndDelete", "method:Clear":
					callbacks = append(callbacks, g)
				}
			}
		}
		if len(callbacks) == 0 {
			rRel.Bad(pkgHydra+":swamps.Delete", token.NoPos, "nothing removes instances from the live map (rule needs review)")
		}
		// announcers: swamp functions that invoke the close callback field (directly)
		var announcers []*core.Func
		for _, g := range p.FuncsIn(pkgSwamp) {
			if g.Decl.Body == nil {
				continue
			}
			core.Calls(g.Decl.Body, true, func(call *ast.CallExpr) {
				if fld := core.FieldOf(g.Info(), call.Fun); fld != nil && strings.Contains(strings.ToLower(fld.Name()), "close") {
					if _, isSig := fld.Type().Underlying().(*types.Signature); isSig {
						announcers = append(announcers, g)
					}
				}
			})
		}
		if len(announcers) == 0 {
			rRel.Bad(pkgSwamp+":close-callback-call", token.NoPos, "no function of the swamp invokes the close callback (rule needs review)")
		}
		for _, an := range announcers {
			for _, site := range cg.CallersOf(an) {
				g := site.Caller
				gi := g.Info()
				body := core.BodyContaining(g.Decl, site.Call)
				gfl := core.NewFlow(p, gi, body)
				lc, ok := gfl.Locate(site.Call)
				published := false
				if ok {
					for _, a := range core.Accesses(gi, body, map[*types.Var]bool{closingF: true}, false) {
						if !a.Write {
							continue
						}
						if la, ok2 := gfl.Locate(a.Node); ok2 && gfl.Dominates(la, lc) {
							published = true
						}
					}
				}
				rRel.Check(published, g.Key+"->"+an.Obj.Name(), site.Call.Pos(), "announced only after this function published closing=1",
					"the swamp is announced closed - its entry leaves the live map - from a function that did not start the teardown (no store to swamp.closing dominates the call): the instance keeps running while the next summon of the name builds a second one on the same file")
			}
		}
	}

	rW := c.Rule("C18.who", "createNewSwamp is called and hydra.swamps.Store executed only in SummonSwamp, after the waiter was taken (ready=true) and before it is released", 2)
	{
		cg := c.CG()
		for _, s := range cg.CallersOf(c.Fn(pkgHydra + ".hydra.createNewSwamp")) {
			rW.Check(s.Caller == sum, s.Caller.Key+"->createNewSwamp", s.Call.Pos(), "only the summon owner creates", "a swamp instance is created outside SummonSwamp's ownership region")
		}
		swampsF := p.MustField(pkgHydra, "hydra", "swamps")
		for _, g := range p.FuncsIn(pkgHydra) {
			if g.Decl.Body == nil {
				continue
			}
			for _, a := range core.Accesses(g.Info(), g.Decl.Body, map[*types.Var]bool{swampsF: true}, true) {
				if a.Form == "method:Store" || a.Form == "method:LoadOrStore" || a.Form == "method:Swap" {
					rW.Check(g == sum, g.Key+":swamps.Store", a.Node.Pos(), "only the summon owner stores", "the live map is written outside SummonSwamp")
				}
			}
		}
		// inside SummonSwamp: the create call comes after `ready = true`
		fl := core.NewFlow(p, info, sum.Decl.Body)
		var take ast.Node
		for _, a := range core.Accesses(info, sum.Decl.Body, nil, false) {
			if a.Write && a.Field.Name() == "ready" && a.Form == "assign-true" {
				take = a.Node
			}
		}
		var create *ast.CallExpr
		core.Calls(sum.Decl.Body, false, func(call *ast.CallExpr) {
			if core.IsWsCallTo(info, call, pkgHydra+".hydra.createNewSwamp") {
				create = call
			}
		})
		ok := false
		if take != nil && create != nil {
			lt, lc := fl.MustLocate(take), fl.MustLocate(create)
			ok = fl.Dominates(lt, lc)
		}
		rW.Check(ok, sum.Key+":create-inside-ownership", sum.Decl.Pos(), "creation dominated by taking the waiter", "the swamp is created before the per-name waiter is owned")
	}

	rOnce := c.Rule("C18.destroyonce", "the teardown of a swamp instance runs at most once: in Destroy the 'already destroyed' test and the store that marks the instance destroyed are one critical section of closeMutex (test-and-set), so a Destroy that overlaps another one returns instead of announcing the close a second time - a stale closed event removes whatever instance the live map holds under that name by then", 2)
	{
		d := c.Fn(pkgSwamp + ".swamp.Destroy")
		di := d.Info()
		dfl := core.NewFlow(p, di, d.Decl.Body)
		dlk := dfl.LockAnalysis(nil)
		destroyedF := core.StructFields(mustStruct(p, pkgSwamp, "swamp"))["destroyed"]
		if destroyedF == nil {
			rOnce.Bad(d.Key+":destroyed-flag", d.Decl.Pos(), "Destroy has no 'destroyed' flag any more: overlapping Destroy calls all run the teardown")
		} else {
			var test, set *core.Access
			for _, a := range core.Accesses(di, d.Decl.Body, map[*types.Var]bool{destroyedF: true}, false) {
				a := a
				if a.Write && a.Form == "assign-true" {
					set = &a
				}
				if !a.Write {
					test = &a
				}
			}
			ok, why := false, "test or set of the flag not found"
			if test != nil && set != nil {
				ht, okt := dlk.HeldAtNode(test.Node)
				hs, oks := dlk.HeldAtNode(set.Node)
				lockKey := ""
				for k, m := range ht {
					if m == 2 && hs[k] == 2 {
						lockKey = k
					}
				}
				switch {
				case !okt || !oks || lockKey == "":
					why = "the test and the store do not share a held lock (test under " + ht.String() + ", store under " + hs.String() + ")"
				default:
					// same acquisition: no Unlock of that lock on a path from the test to the store
					lt, ls := dfl.MustLocate(test.Node), dfl.MustLocate(set.Node)
					unlockBetween := false
					dfl.Walk(lt, nil, false, func(l core.Loc, n ast.Node) bool {
						if l == ls {
							return false
						}
						hit := false
						core.Calls(n, false, func(c2 *ast.CallExpr) {
							if fo := core.Callee(di, c2); fo != nil && fo.Name() == "Unlock" && core.ExprStr(core.RecvExpr(c2)) == lockKey {
								hit = true
							}
						})
						if hit {
							if r, _ := dfl.CanReach(l, nil, nil, core.ContainsNode(set.Node)); r {
								unlockBetween = true
							}
							return false
						}
						return true
					})
					ok = !unlockBetween && dfl.Dominates(lt, ls)
					why = "the lock is released between the test and the store"
				}
			}
			rOnce.Check(ok, d.Key+":test-and-set", d.Decl.Pos(), "tested and set in one critical section", "the 'already destroyed' test and the store of the flag are not one critical section ("+why+"): two overlapping Destroy calls both pass the test and both run the teardown; the second closed event deletes the successor instance from the live map and the next summon creates a third one while the successor is still open")
			// the store precedes the teardown steps
			if set != nil {
				ls := dfl.MustLocate(set.Node)
				var ev *ast.CallExpr
				core.Calls(d.Decl.Body, false, func(c2 *ast.CallExpr) {
					if core.IsWsCallTo(di, c2, pkgSwamp+".swamp.sendClosedEvent") {
						ev = c2
					}
				})
				okOrder := ev != nil && dfl.Dominates(ls, dfl.MustLocate(ev))
				rOnce.Check(okOrder, d.Key+":set-before-teardown", set.Node.Pos(), "marked destroyed before the close is announced", "the instance is marked destroyed only after (or not before) the closed event: the window in which a second Destroy passes the test spans the whole teardown")
			}
		}
	}

	rR := c.Rule("C18.refcount", "the per-name waiter slot is removed only when its reference count reaches zero: on every path through SummonSwamp the count changes by exactly +1 and -1 (directly or through a helper that is summarised by its uniform net change; the deferred release counts on the paths that registered it); count/retired/ready are touched only under the waiter's lock (helpers: held by every caller); every slot deletion is guarded by count==0 and marks the waiter retired next to it; the reference is taken only on a waiter tested !retired; and 'ready' is cleared only by the caller that set it (the owner)", 5)
	{
		countF := p.MustField(pkgHydra, "SwampWaiter", "count")
		readyF := p.MustField(pkgHydra, "SwampWaiter", "ready")
		slotsF := p.MustField(pkgHydra, "hydra", "summoningSwamps")
		wst := mustStruct(p, pkgHydra, "SwampWaiter")
		retiredF := core.StructFields(wst)["retired"]
		wfields := map[*types.Var]bool{countF: true, readyF: true}
		if retiredF != nil {
			wfields[retiredF] = true
		}
		isDelForm := func(a core.Access) bool {
			return a.Field == slotsF && (a.Form == "method:Delete" || a.Form == "method:LoadAndDelete" || a.Form == "method:Clear" || a.Form == "method:CompareAndDelete")
		}
		// helpers: other functions of the package that touch the waiter's fields through a *SwampWaiter parameter
		type helperSum struct {
			f          *core.Func
			param      int
			net        int
			uniform    bool
			clearsRdy  bool
			paramName  string
		}
		helpers := map[*core.Func]*helperSum{}
		for _, f := range p.FuncsIn(pkgHydra) {
			if f == sum || f.Decl.Body == nil {
				continue
			}
			sig := f.Obj.Type().(*types.Signature)
			pi := -1
			for i := 0; i < sig.Params().Len(); i++ {
				if n := namedOf(sig.Params().At(i).Type()); n != nil && n.Obj().Name() == "SwampWaiter" {
					pi = i
				}
			}
			if pi < 0 {
				continue
			}
			acc := core.Accesses(f.Info(), f.Decl.Body, wfields, true)
			touches := false
			for _, a := range acc {
				if a.Write {
					touches = true
				}
			}
			if !touches {
				continue
			}
			c.Touch(f)
			h := &helperSum{f: f, param: pi, uniform: true, paramName: sig.Params().At(pi).Name()}
			hfl := core.NewFlow(p, f.Info(), f.Decl.Body)
			var hin, hde []core.Access
			for _, a := range acc {
				if !a.Write {
					continue
				}
				switch {
				case a.Field == countF && (a.Form == "add+" || a.Form == "incdec+"):
					hin = append(hin, a)
				case a.Field == countF && (a.Form == "add-" || a.Form == "incdec-"):
					hde = append(hde, a)
				case a.Field == countF:
					h.uniform = false
				case a.Field == readyF && a.Form == "assign-false":
					h.clearsRdy = true
				}
			}
			nets := map[int]bool{}
			delta := func(n ast.Node) (int, bool) {
				d := 0
				for _, a := range hin {
					if n.Pos() <= a.Node.Pos() && a.Node.End() <= n.End() {
						d++
					}
				}
				for _, a := range hde {
					if n.Pos() <= a.Node.Pos() && a.Node.End() <= n.End() {
						d--
					}
				}
				return d, false
			}
			// the helper is uniform with net k iff, started at balance -k, every exit is reached at 0
			found := false
			for k := -2; k <= 2; k++ {
				if bad := core.PathBalanceInit(hfl, delta, 0, -k); len(bad) == 0 {
					h.net = k
					nets[k] = true
					found = true
				}
			}
			if !found || len(nets) != 1 {
				h.uniform = false
			}
			helpers[f] = h
		}
		fl := core.NewFlow(p, info, sum.Decl.Body)
		isLit := func(n ast.Node) bool {
			return core.BodyContaining(sum.Decl, n) != sum.Decl.Body
		}
		var incs, decs, dels []core.Access
		for _, body := range core.Bodies(sum.Decl) {
			for _, a := range core.Accesses(info, body, map[*types.Var]bool{countF: true, slotsF: true}, false) {
				if !a.Write {
					continue
				}
				switch {
				case a.Field == countF && (a.Form == "add+" || a.Form == "incdec+"):
					incs = append(incs, a)
				case a.Field == countF && (a.Form == "add-" || a.Form == "incdec-"):
					decs = append(decs, a)
				case a.Field == countF:
					rR.Bad(sum.Key+":waiter.count:"+a.Form, a.Node.Pos(), "the reference count is written by something other than +1/-1")
				case isDelForm(a):
					dels = append(dels, a)
				}
			}
		}
		// helper call sites in SummonSwamp (main body and literals)
		type hcall struct {
			call *ast.CallExpr
			h    *helperSum
		}
		var hcalls []hcall
		for _, body := range core.Bodies(sum.Decl) {
			core.Calls(body, false, func(call *ast.CallExpr) {
				if t := p.ByObj[core.Callee(info, call)]; t != nil && helpers[t] != nil {
					hcalls = append(hcalls, hcall{call, helpers[t]})
					if !helpers[t].uniform {
						rR.Bad(sum.Key+"->"+t.Obj.Name()+":summary", call.Pos(), "the helper changes the reference count by different amounts on different paths: not summarised")
					}
				}
			})
		}
		helperDeletes := false
		for _, h := range helpers {
			for _, a := range core.Accesses(h.f.Info(), h.f.Decl.Body, map[*types.Var]bool{slotsF: true}, true) {
				if isDelForm(a) {
					helperDeletes = true
				}
			}
		}
		if len(dels) == 0 && !helperDeletes {
			rR.Ok(sum.Key+":waiter.count", sum.Decl.Pos(), "the per-name slot is never deleted: no reference counting needed")
		} else {
			// (1) path balance
			var deferStmts []*ast.DeferStmt
			ast.Inspect(sum.Decl.Body, func(x ast.Node) bool {
				if ds, ok := x.(*ast.DeferStmt); ok && core.BodyContaining(sum.Decl, ds) == sum.Decl.Body {
					deferStmts = append(deferStmts, ds)
				}
				return true
			})
			inDefer := func(n ast.Node) *ast.DeferStmt {
				for _, ds := range deferStmts {
					if ds.Pos() <= n.Pos() && n.End() <= ds.End() {
						return ds
					}
				}
				return nil
			}
			var deferDec *ast.DeferStmt
			nDeferDec := 0
			for _, d := range decs {
				if isLit(d.Node) {
					if ds := inDefer(d.Node); ds != nil {
						deferDec = ds
						nDeferDec++
					}
				}
			}
			for _, hc := range hcalls {
				if isLit(hc.call) {
					if ds := inDefer(hc.call); ds != nil {
						deferDec = ds
						nDeferDec -= hc.h.net
					}
				}
			}
			for _, a := range append(append([]core.Access{}, incs...), decs...) {
				if isLit(a.Node) && inDefer(a.Node) == nil {
					rR.Bad(sum.Key+":waiter.count:in-literal", a.Node.Pos(), "the reference count is changed inside a function literal that is not the deferred release: not analysable")
				}
			}
			delta := func(n ast.Node) (d int, reg bool) {
				if ds, ok := n.(*ast.DeferStmt); ok {
					return 0, ds == deferDec
				}
				for _, a := range incs {
					if !isLit(a.Node) && n.Pos() <= a.Node.Pos() && a.Node.End() <= n.End() {
						d++
					}
				}
				for _, a := range decs {
					if !isLit(a.Node) && n.Pos() <= a.Node.Pos() && a.Node.End() <= n.End() {
						d--
					}
				}
				for _, hc := range hcalls {
					if !isLit(hc.call) && n.Pos() <= hc.call.Pos() && hc.call.End() <= n.End() {
						d += hc.h.net
					}
				}
				return d, false
			}
			bad := core.PathBalance(fl, delta, nDeferDec)
			if len(bad) == 0 {
				rR.Ok(sum.Key+":waiter.count:balance", sum.Decl.Pos(), "every path: +1 once, -1 once")
			}
			seenPos := map[token.Pos]bool{}
			for _, b := range bad {
				if seenPos[b.Pos] {
					continue
				}
				seenPos[b.Pos] = true
				rR.Bad(sum.Key+":waiter.count:balance", b.Pos, "unbalanced reference count on a path to this exit ("+b.Why+"): the count reaches zero - and the per-name slot is deleted - while another caller still uses the waiter (or never reaches zero); a later caller then creates a new waiter and both become owners (two live instances appending to one file)")
			}
			// (2) lock discipline
			checkLocks := func(f *core.Func, entryLock string) {
				fi := f.Info()
				for _, body := range core.Bodies(f.Decl) {
					bfl := core.NewFlow(p, fi, body)
					entry := core.LockSet{}
					if entryLock != "" && body == f.Decl.Body {
						entry[entryLock] = 2
					}
					lk := bfl.LockAnalysis(entry)
					for _, a := range core.Accesses(fi, body, wfields, false) {
						if strings.HasPrefix(a.Form, "add") || a.Form == "store" || a.Form == "cas" || a.Form == "swap" {
							continue
						}
						if call, isCall := a.Node.(*ast.CallExpr); isCall {
							if _, at := core.AtomicCall(fi, call); at {
								continue
							}
						}
						held, ok := lk.HeldAtNode(a.Node)
						want := core.ExprStr(a.Sel.X) + ".cond.L"
						rR.Check(ok && held[want] == 2, f.Key+":"+a.Field.Name()+":"+a.Form+":locked", a.Node.Pos(), "under "+want, "waiter."+a.Field.Name()+" is accessed ("+a.Form+") without holding "+want)
					}
				}
			}
			checkLocks(sum, "")
			for _, h := range helpers {
				checkLocks(h.f, h.paramName+".cond.L")
			}
			for _, hc := range hcalls {
				body := core.BodyContaining(sum.Decl, hc.call)
				bfl := core.NewFlow(p, info, body)
				lk := bfl.LockAnalysis(core.LockSet{})
				held, ok := lk.HeldAtNode(hc.call)
				want := ""
				if hc.h.param < len(hc.call.Args) {
					want = core.ExprStr(hc.call.Args[hc.h.param]) + ".cond.L"
				}
				rR.Check(ok && held[want] == 2, sum.Key+"->"+hc.h.f.Obj.Name()+":caller-holds-lock", hc.call.Pos(), "called under "+want, "the helper touches the waiter's fields but is called without "+want)
			}
			// (3) deletions guarded by count == 0 and marking retired, wherever they are
			type delSite struct {
				f *core.Func
				a core.Access
			}
			var allDels []delSite
			for _, a := range dels {
				allDels = append(allDels, delSite{sum, a})
			}
			for _, h := range helpers {
				for _, a := range core.Accesses(h.f.Info(), h.f.Decl.Body, map[*types.Var]bool{slotsF: true}, true) {
					if isDelForm(a) {
						allDels = append(allDels, delSite{h.f, a})
					}
				}
			}
			for _, ds := range allDels {
				fi := ds.f.Info()
				body := core.BodyContaining(ds.f.Decl, ds.a.Node)
				bfl := core.NewFlow(p, fi, body)
				l, ok := bfl.Locate(ds.a.Node)
				zero := false
				if ok {
					for _, ft := range bfl.FactsAt(l) {
						if be, isBin := ft.Expr.(*ast.BinaryExpr); isBin && core.FieldOf(fi, be.X) == countF {
							if v, isC := core.ConstInt(fi, be.Y); isC && v == 0 && (((be.Op == token.EQL) == ft.Truth && (be.Op == token.EQL || be.Op == token.NEQ)) || (be.Op == token.LEQ && ft.Truth)) {
								zero = true
							}
						}
					}
				}
				rR.Check(zero, ds.f.Key+":slot-delete:guarded-by-zero", ds.a.Node.Pos(), "deleted only when count == 0", "the per-name waiter slot is deleted without a dominating count == 0 test")
				marked := false
				if retiredF != nil && ok {
					for _, a := range core.Accesses(fi, body, map[*types.Var]bool{retiredF: true}, false) {
						if a.Write && a.Form == "assign-true" {
							if la, ok2 := bfl.Locate(a.Node); ok2 && la.B == l.B {
								marked = true
							}
						}
					}
				}
				rR.Check(marked, ds.f.Key+":slot-delete:marks-retired", ds.a.Node.Pos(), "retired=true next to the deletion", "the slot is deleted without marking the waiter retired in the same branch: a caller that loaded the waiter before the deletion becomes owner of an orphaned waiter while a new caller owns a fresh one")
			}
			// (4) reference taken only on a waiter tested !retired
			for _, inc := range incs {
				if isLit(inc.Node) {
					continue
				}
				li, _ := fl.Locate(inc.Node)
				tested := false
				if retiredF != nil {
					for _, ft := range fl.FactsAt(li) {
						if core.FieldOf(info, ft.Expr) == retiredF && !ft.Truth {
							tested = true
						}
					}
				}
				rR.Check(tested, sum.Key+":take-reference:not-retired", inc.Node.Pos(), "reference taken only on a waiter that is not retired", "the reference is taken without a dominating !retired test: the waiter may already have been removed from the slot map (LoadOrStore and the lock are not atomic)")
			}
			// (5) ready is cleared only by the owner: after this caller's own `ready = true`
			var take ast.Node
			for _, a := range core.Accesses(info, sum.Decl.Body, map[*types.Var]bool{readyF: true}, false) {
				if a.Write && a.Form == "assign-true" {
					take = a.Node
				}
			}
			ownerAt := func(n ast.Node) bool {
				if take == nil {
					return false
				}
				lt := fl.MustLocate(take)
				host := n
				if isLit(n) {
					ds := inDefer(n)
					if ds == nil {
						return false
					}
					host = ds
				}
				lh, ok := fl.Locate(host)
				return ok && fl.Dominates(lt, lh)
			}
			nClear := 0
			for _, body := range core.Bodies(sum.Decl) {
				for _, a := range core.Accesses(info, body, map[*types.Var]bool{readyF: true}, false) {
					if a.Write && a.Form == "assign-false" {
						nClear++
						rR.Check(ownerAt(a.Node), sum.Key+":ready=false:owner-only", a.Node.Pos(), "cleared by the caller that set it", "'ready' is cleared on a path where this caller never became the owner (it did not set ready=true): the real owner is still creating the swamp, the next caller becomes a second owner and a second live instance of the swamp is created")
					}
				}
			}
			for _, hc := range hcalls {
				if hc.h.clearsRdy {
					nClear++
					rR.Check(ownerAt(hc.call), sum.Key+"->"+hc.h.f.Obj.Name()+":ready=false:owner-only", hc.call.Pos(), "cleared by the caller that set it", "'ready' is cleared (through "+hc.h.f.Obj.Name()+") on a path where this caller never became the owner (it did not set ready=true): the real owner is still creating the swamp, the next caller becomes a second owner and a second live instance of the swamp is created")
				}
			}
			rR.Check(nClear > 0, sum.Key+":ready=false:present", sum.Decl.Pos(), "the owner releases the create section", "'ready' is never cleared: every later caller waits forever")
		}
	}
}
