package gateway

// DEMONSTRATION for property C08 (place in app/server/gateway/ and run
// `go test -vet=off -count=1 -run TestDemoC08 ./app/server/gateway/`).
//
// Every query is sent twice through the real GetByIndexStream handler: as it is (the planner
// routes it through the auto-built field index) and wrapped as OR{sub-group}, which has the same
// meaning but makes the planner bypass the index (full scan). The two routes must stream the same
// keys in the same order with the same labels. Before the fixes they disagreed on:
//   paging      From/Limit were applied after the indexed leg on one route, before any filter on the other
//   wildcard    paths with [*] or #len were accepted by the planner although the index cannot evaluate them
//   float/int   the scan route truncated a float field before comparing it with an integer literal
//   labels      the label of the indexed leg was never reported
//   zero time   records without the index attribute (created-at 0) were returned by the index route only

import (
	"context"
	"reflect"
	"testing"
	"time"

	"github.com/hydraide/hydraide/app/name"
	hydrapb "github.com/hydraide/hydraide/sdk/go/hydraidego/v3/hydraidepbgo"
	"github.com/stretchr/testify/require"
	"google.golang.org/grpc"
)

type demoC08Stream struct {
	grpc.ServerStream
	ctx  context.Context
	rows []string
}

func (c *demoC08Stream) Context() context.Context { return c.ctx }
func (c *demoC08Stream) Send(r *hydrapb.GetByIndexStreamResponse) error {
	row := r.GetTreasure().GetKey()
	for _, l := range r.GetMeta().GetMatchedLabels() {
		row += " #" + l
	}
	c.rows = append(c.rows, row)
	return nil
}

func demoC08ForceScan(g *hydrapb.FilterGroup) *hydrapb.FilterGroup {
	return &hydrapb.FilterGroup{Logic: hydrapb.FilterLogic_OR, SubGroups: []*hydrapb.FilterGroup{g}}
}

func demoC08Leg(path string, op hydrapb.Relational_Operator, label string) *hydrapb.TreasureFilter {
	f := &hydrapb.TreasureFilter{Operator: op, BytesFieldPath: &path}
	if label != "" {
		f.Label = &label
	}
	return f
}

func TestDemoC08_RoutesAgree(t *testing.T) {
	rig := newStreamVigilRig(t, "gw-c08-routes", "routes", "agree")
	hydraInterface := rig.gw.ZeusInterface.GetHydra()
	sw, err := hydraInterface.SummonSwamp(context.Background(), rig.islandID, name.Load(rig.swampName))
	require.NoError(t, err)
	sw.BeginVigil()
	defer func() {
		sw.CeaseVigil()
		sw.Destroy()
	}()

	put := func(key string, createdAt time.Time, body map[string]interface{}) {
		tr := sw.CreateTreasure(key)
		gid := tr.StartTreasureGuard(true)
		tr.SetContentByteArray(gid, makeMsgpackBytesVal(t, body))
		if !createdAt.IsZero() {
			tr.SetCreatedAt(gid, createdAt)
		}
		tr.Save(gid)
		tr.ReleaseTreasureGuard(gid)
	}
	base := time.Unix(1_700_000_000, 0).UTC()
	put("k1", base.Add(1*time.Second), map[string]interface{}{"Status": "open", "Score": int64(5), "Tags": []interface{}{"x", "y"}})
	put("k2", base.Add(2*time.Second), map[string]interface{}{"Status": "done", "Score": int64(5), "Tags": []interface{}{"y"}})
	put("k3", base.Add(3*time.Second), map[string]interface{}{"Status": "open", "Score": float64(5.7), "Tags": []interface{}{"x", "z", "w"}})
	put("k4", base.Add(4*time.Second), map[string]interface{}{"Status": "done", "Score": int64(9), "Tags": []interface{}{}})
	put("k5", base.Add(5*time.Second), map[string]interface{}{"Status": "open", "Score": int64(9), "Tags": []interface{}{"x"}})
	put("k6", time.Time{}, map[string]interface{}{"Status": "open", "Score": int64(5), "Tags": []interface{}{"q"}})

	run := func(req *hydrapb.GetByIndexStreamRequest, filters *hydrapb.FilterGroup) []string {
		st := &demoC08Stream{ctx: context.Background()}
		r := &hydrapb.GetByIndexStreamRequest{IndexType: req.IndexType, OrderType: req.OrderType, From: req.From, Limit: req.Limit,
			IslandID: rig.islandID, SwampName: rig.swampName, Filters: filters}
		require.NoError(t, rig.gw.GetByIndexStream(r, st))
		return st.rows
	}
	agree := func(label string, req *hydrapb.GetByIndexStreamRequest, q *hydrapb.FilterGroup) {
		t.Helper()
		accel := run(req, q)
		scan := run(req, demoC08ForceScan(q))
		if !reflect.DeepEqual(accel, scan) {
			t.Errorf("%s: routes disagree\n  as sent (index route when planned): %v\n  forced full scan:                  %v", label, accel, scan)
		}
	}
	and := func(legs ...*hydrapb.TreasureFilter) *hydrapb.FilterGroup {
		return &hydrapb.FilterGroup{Logic: hydrapb.FilterLogic_AND, Filters: legs}
	}
	byKey := &hydrapb.GetByIndexStreamRequest{IndexType: hydrapb.IndexType_KEY, OrderType: hydrapb.OrderType_ASC}

	statusOpen := demoC08Leg("Status", hydrapb.Relational_EQUAL, "")
	statusOpen.CompareValue = &hydrapb.TreasureFilter_StringVal{StringVal: "open"}
	agree("plain equality", byKey, and(statusOpen))

	paged := &hydrapb.GetByIndexStreamRequest{IndexType: hydrapb.IndexType_KEY, OrderType: hydrapb.OrderType_ASC, From: 1, Limit: 3}
	agree("paging (From=1, Limit=3)", paged, and(statusOpen))

	score5 := demoC08Leg("Score", hydrapb.Relational_EQUAL, "")
	score5.CompareValue = &hydrapb.TreasureFilter_Int64Val{Int64Val: 5}
	agree("integer literal vs float field", byKey, and(score5))

	scoreIn := demoC08Leg("Score", hydrapb.Relational_INT64_IN, "")
	scoreIn.Int64InVals = []int64{5}
	agree("IN with integer literal vs float field", byKey, and(scoreIn))

	tagsAny := demoC08Leg("Tags[*]", hydrapb.Relational_EQUAL, "")
	tagsAny.CompareValue = &hydrapb.TreasureFilter_StringVal{StringVal: "x"}
	agree("wildcard path", byKey, and(tagsAny))

	tagsLen := demoC08Leg("Tags.#len", hydrapb.Relational_EQUAL, "")
	tagsLen.CompareValue = &hydrapb.TreasureFilter_Int64Val{Int64Val: 1}
	agree("#len path", byKey, and(tagsLen))

	labelled := demoC08Leg("Status", hydrapb.Relational_EQUAL, "is-open")
	labelled.CompareValue = &hydrapb.TreasureFilter_StringVal{StringVal: "open"}
	other := demoC08Leg("Score", hydrapb.Relational_NOT_EQUAL, "not-nine")
	other.CompareValue = &hydrapb.TreasureFilter_Int64Val{Int64Val: 9}
	agree("labels of the indexed leg", byKey, and(labelled, other))

	byCreated := &hydrapb.GetByIndexStreamRequest{IndexType: hydrapb.IndexType_CREATION_TIME, OrderType: hydrapb.OrderType_ASC}
	agree("record without created-at on the creation-time index", byCreated, and(statusOpen))
}
