package rules

import (
	"go/ast"
	"go/token"
	"go/types"
	"sort"
	"strings"

	"hv/core"
)

func init() { register("C22", c22) }

const pkgSDK = "sdk"

// reservedTagConsts are the SDK constants that name first-class record slots or tag options.
var reservedTagConsts = []string{"tagKey", "tagValue", "tagExpireAt", "tagCreatedAt", "tagCreatedBy", "tagUpdatedAt", "tagUpdatedBy", "tagOmitempty", "tagDeletable", "tagSearchMeta"}

// kindCasesOfSwitch returns, for a `switch x.Kind()` statement, clause -> reflect.Kind constant names.
func kindNames(info *types.Info, cc *ast.CaseClause) []string {
	var out []string
	for _, e := range cc.List {
		if o, ok := core.ObjOf(info, e).(*types.Const); ok && o.Pkg() != nil && o.Pkg().Path() == "reflect" {
			out = append(out, o.Name())
		}
	}
	return out
}

func isKindSwitch(info *types.Info, sw *ast.SwitchStmt) bool {
	if sw.Tag == nil {
		return false
	}
	call, ok := core.Unparen(sw.Tag).(*ast.CallExpr)
	if !ok {
		return false
	}
	return core.IsCallTo(info, call, "reflect.Value.Kind")
}

func c22(c *core.Ctx) {
	p := c.P
	c.Explain = "Static necessary conditions for 'SDK model save/read round-trips exactly': the reserved tag names (key, value, expireAt, created/updated At/By) and tag options (omitempty, deletable) are recognised only by equality - on the whole tag, on the tag head, or on one comma-separated option - never by a substring/prefix test, so a body field whose name merely contains a reserved word cannot change how another slot is encoded or decoded; the catalog encoder, the catalog decoder and the reserved-name table used for shape detection recognise the same set of reserved names; both directions classify the model with the same shape function and the encoder rejects a mixed shape before it encodes anything; for every reflect.Kind the value encoder maps to a typed KeyValuePair slot, the decoder branch of that slot accepts that kind and reads it with the getter of the same slot."
	c.NotCovered = []string{"value equality of arbitrary models after a real save/read (e.g. sub-second part of time.Time values stored as unix seconds)", "profile models with nested structs", "behaviour of the msgpack/gob libraries", "server-side typed value precedence (gateway.keyValuesToTreasure) beyond the SDK never sending both a typed value and a body"}

	pk := p.Pkg(pkgSDK)
	scope := pk.Types.Scope()
	reserved := map[types.Object]string{}
	for _, n := range reservedTagConsts {
		o := scope.Lookup(n)
		if o == nil {
			core.Failf("SDK constant %s not found", n)
		}
		reserved[o] = n
	}
	headFn := scope.Lookup("hydraideTagHead")
	optFn := scope.Lookup("hydraideTagHasOption")

	rT := c.Rule("C22.tags", "a reserved tag constant is used only as an operand of == / != (or a switch case), as a key of the reserved-name table, as the needle of slices.Contains over split tag parts, or as the option argument of the tag-option helper; never as an argument of a substring, prefix, suffix or index test", 25)
	for _, f := range pk.Syntax {
		fname := p.Fset.Position(f.Pos()).Filename
		if strings.HasSuffix(fname, "_test.go") {
			continue
		}
		var stack []ast.Node
		ast.Inspect(f, func(x ast.Node) bool {
			if x == nil {
				stack = stack[:len(stack)-1]
				return true
			}
			stack = append(stack, x)
			id, ok := x.(*ast.Ident)
			if !ok {
				return true
			}
			name, isRes := reserved[pk.TypesInfo.Uses[id]]
			if !isRes {
				return true
			}
			parent := stack[len(stack)-2]
			encl := p.EnclosingFunc(id.Pos())
			where := "package-level"
			if encl != nil {
				where = encl.Key
				c.Touch(encl)
			}
			construct := where + ":" + name
			okUse, how := false, "unrecognised use"
			switch pv := parent.(type) {
			case *ast.BinaryExpr:
				if pv.Op == token.EQL || pv.Op == token.NEQ {
					okUse, how = true, "equality"
				} else {
					how = "operator " + pv.Op.String()
				}
			case *ast.CaseClause:
				okUse, how = true, "switch case"
			case *ast.KeyValueExpr:
				okUse, how = pv.Key == ast.Expr(id), "table key"
			case *ast.CallExpr:
				callee := core.Callee(pk.TypesInfo, pv)
				q := ""
				if callee != nil {
					q = core.QName(callee)
				}
				switch {
				case callee != nil && types.Object(callee) == optFn && len(pv.Args) == 2 && pv.Args[1] == ast.Expr(id):
					okUse, how = true, "option helper"
				case q == "slices.Contains" && len(pv.Args) == 2 && pv.Args[1] == ast.Expr(id):
					okUse, how = true, "slices.Contains over split parts"
				case q == "reflect.StructTag.Lookup" || q == "reflect.StructTag.Get":
					okUse, how = true, "tag lookup"
				default:
					how = "argument of " + q
				}
			case *ast.ValueSpec:
				okUse, how = true, "declaration"
			}
			rT.Check(okUse, construct+":"+how, id.Pos(), how, "reserved tag name "+name+" is matched through "+how+": a field whose tag merely contains the word is treated as that slot (round trip changes another part of the model)")
			return true
		})
	}

	// the operand compared with a reserved NAME constant (not an option) must be the whole tag or its head
	rH := c.Rule("C22.head", "the string compared with a reserved slot name is the whole hydraide tag (as returned by Tag.Lookup/Get) or its head (hydraideTagHead / first element of strings.Split(tag, \",\")), and hydraideTagHead returns the text before the first comma", 15)
	{
		checkOperand := func(f *core.Func, other ast.Expr, pos token.Pos, name string) {
			info := f.Info()
			other = core.Unparen(other)
			ok, how := false, core.ExprStr(other)
			if call, isCall := other.(*ast.CallExpr); isCall {
				if cal := core.Callee(info, call); cal != nil && types.Object(cal) == headFn {
					ok, how = true, "tag head"
				}
			}
			if id, isId := other.(*ast.Ident); isId {
				// local defined from Tag.Lookup / Tag.Get / hydraideTagHead / parts[0]
				if def := localDef(info, f.Decl.Body, info.Uses[id]); def != nil {
					d := core.Unparen(def)
					if call, isCall := d.(*ast.CallExpr); isCall {
						q := ""
						if cal := core.Callee(info, call); cal != nil {
							q = core.QName(cal)
							if types.Object(cal) == headFn {
								ok, how = true, "tag head"
							}
						}
						if q == "reflect.StructTag.Lookup" || q == "reflect.StructTag.Get" {
							ok, how = true, "whole tag"
						}
					}
					if ix, isIx := d.(*ast.IndexExpr); isIx {
						if v, isC := core.ConstInt(info, ix.Index); isC && v == 0 {
							ok, how = true, "first split part"
						}
					}
				} else {
					// range variable over split parts, or a := from a two-value Lookup
					ok, how = tagLocalFromLookup(info, f.Decl.Body, info.Uses[id])
				}
			}
			rH.Check(ok, f.Key+":"+name+":operand", pos, how, "reserved name "+name+" is compared with "+how+", which is neither the whole tag nor its head")
		}
		for _, f := range p.FuncsIn(pkgSDK) {
			if f.Decl.Body == nil {
				continue
			}
			info := f.Info()
			ast.Inspect(f.Decl.Body, func(x ast.Node) bool {
				be, ok := x.(*ast.BinaryExpr)
				if !ok || (be.Op != token.EQL && be.Op != token.NEQ) {
					return true
				}
				for _, pair := range [][2]ast.Expr{{be.X, be.Y}, {be.Y, be.X}} {
					if id, isId := core.Unparen(pair[0]).(*ast.Ident); isId {
						if name, isRes := reserved[info.Uses[id]]; isRes && name != "tagOmitempty" && name != "tagDeletable" {
							checkOperand(f, pair[1], be.Pos(), name)
						}
					}
				}
				return true
			})
		}
		// the head helper itself: strings.Cut(raw, ",") first result
		if headFn == nil {
			rH.Ok(pkgSDK+":hydraideTagHead", token.NoPos, "no head helper (whole-tag comparisons only)")
		} else {
			hf := p.ByObj[headFn.(*types.Func)]
			c.Touch(hf)
			good := false
			core.Calls(hf.Decl.Body, false, func(call *ast.CallExpr) {
				if core.IsCallTo(hf.Info(), call, "strings.Cut") && len(call.Args) == 2 {
					if tv := hf.Info().Types[call.Args[1]]; tv.Value != nil && tv.Value.ExactString() == "\",\"" {
						good = true
					}
				}
			})
			// and it must not post-process with anything but the identity
			nCalls := 0
			core.Calls(hf.Decl.Body, false, func(call *ast.CallExpr) { nCalls++ })
			rH.Check(good && nCalls == 1, hf.Key, hf.Decl.Pos(), "strings.Cut(raw, \",\") head", "hydraideTagHead no longer returns exactly the text before the first comma")
		}
	}

	rS := c.Rule("C22.sets", "the catalog encoder, the catalog decoder and reservedHydraideTagNames recognise the same reserved slot names; encoder and decoder classify the model with inspectCatalogModel, and the encoder returns the shape error before encoding", 6)
	{
		enc := c.Fn(pkgSDK + ".convertCatalogModelToKeyValuePair")
		dec := c.Fn(pkgSDK + ".convertProtoTreasureToCatalogModel")
		namesIn := func(f *core.Func) map[string]bool {
			out := map[string]bool{}
			ast.Inspect(f.Decl.Body, func(x ast.Node) bool {
				if id, ok := x.(*ast.Ident); ok {
					if n, isRes := reserved[f.Info().Uses[id]]; isRes && n != "tagOmitempty" && n != "tagDeletable" && n != "tagSearchMeta" {
						out[n] = true
					}
				}
				return true
			})
			return out
		}
		table := map[string]bool{}
		for _, f := range pk.Syntax {
			ast.Inspect(f, func(x ast.Node) bool {
				vs, ok := x.(*ast.ValueSpec)
				if !ok || len(vs.Names) != 1 || vs.Names[0].Name != "reservedHydraideTagNames" || len(vs.Values) != 1 {
					return true
				}
				if cl, ok := vs.Values[0].(*ast.CompositeLit); ok {
					for _, el := range cl.Elts {
						if kv, ok := el.(*ast.KeyValueExpr); ok {
							if n, isRes := reserved[core.ObjOf(pk.TypesInfo, kv.Key)]; isRes {
								table[n] = true
							}
						}
					}
				}
				return false
			})
		}
		setStr := func(m map[string]bool) string {
			var ks []string
			for k := range m {
				ks = append(ks, k)
			}
			sort.Strings(ks)
			return strings.Join(ks, ",")
		}
		e, d, t := setStr(namesIn(enc)), setStr(namesIn(dec)), setStr(table)
		rS.Check(len(table) >= 7 && e == t, enc.Key+":names", enc.Decl.Pos(), "encoder recognises "+e, "encoder recognises ["+e+"] but the reserved-name table (shape detection) has ["+t+"]: a slot is encoded that the shape detection treats as a body field, or the reverse")
		rS.Check(d == t, dec.Key+":names", dec.Decl.Pos(), "decoder recognises "+d, "decoder recognises ["+d+"] but the reserved-name table has ["+t+"]")
		rS.Check(e == d, pkgSDK+":encoder-vs-decoder", enc.Decl.Pos(), "same slot names on both sides", "encoder ["+e+"] and decoder ["+d+"] disagree on the reserved slots")
		inspect := pkgSDK + ".inspectCatalogModel"
		// classifiers: inspectCatalogModel and same-signature wrappers of the package that hand their own
		// parameter to a classifier (a memoising front, for example)
		inspectFn := c.Fn(inspect)
		classifiers := map[*core.Func]bool{inspectFn: true}
		for round := 0; round < 2; round++ {
			for _, g := range p.FuncsIn(pkgSDK) {
				if g.Decl.Body == nil || classifiers[g] || !types.Identical(g.Obj.Type(), inspectFn.Obj.Type()) {
					continue
				}
				gsig := g.Obj.Type().(*types.Signature)
				core.Calls(g.Decl.Body, false, func(call *ast.CallExpr) {
					if t := p.ByObj[core.Callee(g.Info(), call)]; t != nil && classifiers[t] && len(call.Args) == 1 && core.ObjOf(g.Info(), call.Args[0]) == gsig.Params().At(0) {
						classifiers[g] = true
					}
				})
			}
		}
		isClassifierCall := func(info *types.Info, call *ast.CallExpr) bool {
			t := p.ByObj[core.Callee(info, call)]
			return t != nil && classifiers[t]
		}
		for _, f := range []*core.Func{enc, dec} {
			uses := false
			core.Calls(f.Decl.Body, false, func(call *ast.CallExpr) {
				if isClassifierCall(f.Info(), call) {
					uses = true
				}
			})
			rS.Check(uses, f.Key+":shape", f.Decl.Pos(), "classified by inspectCatalogModel", "the model shape is not taken from inspectCatalogModel: encoder and decoder can disagree on which fields form the body")
		}
		// encoder: the shape error returns before the field loop
		{
			info := enc.Info()
			fl := core.NewFlow(p, info, enc.Decl.Body)
			var ic *ast.CallExpr
			core.Calls(enc.Decl.Body, false, func(call *ast.CallExpr) {
				if isClassifierCall(info, call) {
					ic = call
				}
			})
			ok := false
			if ic != nil {
				// every later use of the kvPair setters (convertFieldToKvPair / applyMapBodyToKvPair) only after success
				ok = true
				core.Calls(enc.Decl.Body, false, func(call *ast.CallExpr) {
					if core.IsWsCallTo(info, call, pkgSDK+".convertFieldToKvPair", pkgSDK+".applyMapBodyToKvPair") {
						if good, _ := fl.OnlyAfterSuccess(enc.Decl.Body, ic, call); !good {
							ok = false
						}
					}
				})
			}
			rS.Check(ok, enc.Key+":shape-error-first", enc.Decl.Pos(), "mixed shapes rejected before encoding", "values are encoded although the model mixes the single-value and the map-body shape (the server would prefer the typed value over the body)")
		}
	}

	// C22.memo: what the SDK remembers about a model type is remembered for that type.
	rMemo := c.Rule("C22.memo", "a per-type cache in the SDK conversion code (map or sync.Map) is keyed by the reflect.Type value itself, never by a string or number derived from it (String(), Name(), PkgPath(), Kind()): two model types can print the same - same-named packages, function-local types - and would then be encoded and decoded with each other's field layout", 1)
	{
		reflType := func(t types.Type) bool {
			n, ok := t.(*types.Named)
			return ok && n.Obj().Pkg() != nil && n.Obj().Pkg().Path() == "reflect" && n.Obj().Name() == "Type"
		}
		n := 0
		for _, f := range p.FuncsIn(pkgSDK) {
			if f.Decl.Body == nil {
				continue
			}
			info := f.Info()
			derived := func(e ast.Expr) (string, bool) {
				e = core.Unparen(e)
				if id, ok := e.(*ast.Ident); ok {
					if def := localDef(info, f.Decl.Body, info.Uses[id]); def != nil {
						e = core.Unparen(def)
					}
				}
				found := ""
				ast.Inspect(e, func(y ast.Node) bool {
					if call, ok := y.(*ast.CallExpr); ok {
						if sel, ok := core.Unparen(call.Fun).(*ast.SelectorExpr); ok && reflType(info.TypeOf(sel.X)) {
							switch sel.Sel.Name {
							case "String", "Name", "PkgPath", "Kind":
								found = core.ExprStr(call)
							}
						}
					}
					return true
				})
				return found, found != ""
			}
			check := func(key ast.Expr, pos token.Pos, what string) {
				n++
				c.Touch(f)
				if how, bad := derived(key); bad {
					rMemo.Bad(f.Key+":"+what, pos, "a cache is addressed with "+how+" instead of the reflect.Type: distinct model types with the same printed name share one entry and are converted with the wrong field layout")
				} else {
					rMemo.Ok(f.Key+":"+what, pos, "not keyed by a value derived from a reflect.Type")
				}
			}
			core.Calls(f.Decl.Body, true, func(call *ast.CallExpr) {
				fo := core.Callee(info, call)
				if fo == nil || fo.Pkg() == nil || fo.Pkg().Path() != "sync" || len(call.Args) == 0 {
					return
				}
				switch fo.Name() {
				case "Load", "Store", "LoadOrStore", "LoadAndDelete", "Delete", "Swap", "CompareAndSwap":
					if recv := core.RecvExpr(call); recv != nil && isSyncMapType(info.TypeOf(recv)) {
						check(call.Args[0], call.Pos(), core.ExprStr(recv)+"."+fo.Name())
					}
				}
			})
			ast.Inspect(f.Decl.Body, func(x ast.Node) bool {
				if ix, ok := x.(*ast.IndexExpr); ok {
					if _, isMap := info.TypeOf(ix.X).Underlying().(*types.Map); isMap {
						if how, bad := derived(ix.Index); bad {
							n++
							rMemo.Bad(f.Key+":"+core.ExprStr(ix.X)+"[...]", ix.Pos(), "a map is indexed with "+how+" instead of the reflect.Type: distinct model types with the same printed name share one entry")
						}
					}
				}
				return true
			})
		}
		if n == 0 {
			rMemo.Ok(pkgSDK+":no-type-caches", token.NoPos, "the SDK conversion code keeps no cache addressed through sync.Map / derived map keys")
		}
	}

	rRB := c.Rule("C22.rawbytes", "a []byte model field is stored and read back as it is: on the decode path the payload format is sniffed (isMsgpackEncoded) only where the target field is known not to be a byte slice - under the else-branch of the 'element kind is uint8' test or in a kind-switch clause that lists no slice kind - so a []byte value that happens to start with the msgpack magic prefix is not unwrapped and decoded", 2)
	{
		dec := c.Fn(pkgSDK + ".setProtoTreasureToModel")
		// the decoder and the same-package helpers it calls (one level)
		funcs := []*core.Func{dec}
		core.Calls(dec.Decl.Body, true, func(call *ast.CallExpr) {
			if t := p.ByObj[core.Callee(dec.Info(), call)]; t != nil && t.Decl.Body != nil && core.Short(t.Pkg.PkgPath) == pkgSDK && t != dec {
				funcs = append(funcs, t)
			}
		})
		sniffer := p.FnOpt(pkgSDK + ".isMsgpackEncoded")
		n := 0
		seen := map[*core.Func]bool{}
		for _, f := range funcs {
			if seen[f] || f == sniffer {
				continue
			}
			seen[f] = true
			fi := f.Info()
			fl := core.NewFlow(p, fi, f.Decl.Body)
			core.Calls(f.Decl.Body, false, func(call *ast.CallExpr) {
				if sniffer == nil || p.ByObj[core.Callee(fi, call)] != sniffer {
					return
				}
				n++
				c.Touch(f)
				ok := false
				// (a) dominated by `... .Kind() == reflect.Uint8` being false
				if l, found := fl.Locate(call); found {
					for _, ft := range fl.FactsAt(l) {
						be, isB := ft.Expr.(*ast.BinaryExpr)
						if !isB {
							continue
						}
						if k, isK := core.ObjOf(fi, be.Y).(*types.Const); isK && k.Name() == "Uint8" && k.Pkg() != nil && k.Pkg().Path() == "reflect" {
							if (be.Op == token.EQL && !ft.Truth) || (be.Op == token.NEQ && ft.Truth) {
								ok = true
							}
						}
					}
				}
				// (b) inside a clause of a kind switch that lists no slice kind
				for _, nd := range core.PathTo(f.Decl.Body, call) {
					if cc, isCC := nd.(*ast.CaseClause); isCC {
						ks := kindNames(fi, cc)
						if len(ks) > 0 {
							noSlice := true
							for _, k := range ks {
								if k == "Slice" || k == "Array" {
									noSlice = false
								}
							}
							if noSlice {
								ok = true
							}
						}
					}
				}
				rRB.Check(ok, f.Key+":isMsgpackEncoded", call.Pos(), "format sniffed only for non-[]byte targets", "the payload format is sniffed before (or without) establishing that the target field is not a []byte: a raw []byte value that begins with the msgpack magic prefix 0xC7 0x00 is read back unwrapped and msgpack-decoded (different bytes, or a decode error)")
			})
		}
		if n == 0 {
			rRB.Bad(dec.Key+":format-sniffing", dec.Decl.Pos(), "the decoder no longer distinguishes msgpack from legacy payloads through isMsgpackEncoded")
		}
	}

	rK := c.Rule("C22.kinds", "for every reflect.Kind that convertFieldToKvPair maps to a typed KeyValuePair slot, the branch of setProtoTreasureToModel for that slot accepts the kind and reads the slot with its own getter", 19)
	{
		enc := c.Fn(pkgSDK + ".convertFieldToKvPair")
		dec := c.Fn(pkgSDK + ".setProtoTreasureToModel")
		einfo, dinfo := enc.Info(), dec.Info()
		// encoder table: kind -> slots assigned in the clause
		encTab := map[string]map[string]bool{}
		ast.Inspect(enc.Decl.Body, func(x ast.Node) bool {
			sw, ok := x.(*ast.SwitchStmt)
			if !ok || !isKindSwitch(einfo, sw) {
				return true
			}
			for _, cl := range sw.Body.List {
				cc := cl.(*ast.CaseClause)
				slots := map[string]bool{}
				for _, st := range cc.Body {
					ast.Inspect(st, func(y ast.Node) bool {
						if as, ok := y.(*ast.AssignStmt); ok {
							for _, lhs := range as.Lhs {
								if sel, ok := lhs.(*ast.SelectorExpr); ok {
									if fv := core.FieldOf(einfo, sel); fv != nil && strings.HasSuffix(fv.Name(), "Val") {
										slots[fv.Name()] = true
									}
								}
							}
						}
						return true
					})
				}
				for _, k := range kindNames(einfo, cc) {
					encTab[k] = slots
				}
			}
			return false
		})
		// decoder table: slot -> accepted kinds, getter names
		decKinds := map[string]map[string]bool{}
		decGetters := map[string]map[string]bool{}
		for _, st := range dec.Decl.Body.List {
			ifs, ok := st.(*ast.IfStmt)
			if !ok {
				continue
			}
			be, ok := ifs.Cond.(*ast.BinaryExpr)
			if !ok || be.Op != token.NEQ || !core.IsNilIdent(dinfo, be.Y) {
				continue
			}
			fv := core.FieldOf(dinfo, be.X)
			if fv == nil {
				continue
			}
			slot := fv.Name()
			decKinds[slot] = map[string]bool{}
			decGetters[slot] = map[string]bool{}
			ast.Inspect(ifs.Body, func(y ast.Node) bool {
				if sw, ok := y.(*ast.SwitchStmt); ok && isKindSwitch(dinfo, sw) {
					for _, cl := range sw.Body.List {
						for _, k := range kindNames(dinfo, cl.(*ast.CaseClause)) {
							decKinds[slot][k] = true
						}
					}
				}
				if call, ok := y.(*ast.CallExpr); ok {
					if cal := core.Callee(dinfo, call); cal != nil && strings.HasPrefix(cal.Name(), "Get") && cal.Pkg() != nil && strings.HasSuffix(cal.Pkg().Path(), "hydraidepbgo") {
						decGetters[slot][cal.Name()] = true
					}
				}
				return true
			})
		}
		var kinds []string
		for k := range encTab {
			kinds = append(kinds, k)
		}
		sort.Strings(kinds)
		for _, k := range kinds {
			for slot := range encTab[k] {
				if slot == "VoidVal" {
					continue
				}
				construct := "reflect." + k + "->" + slot
				acc := decKinds[slot]
				rK.Check(acc != nil && acc[k], construct, enc.Decl.Pos(), "decoder branch of "+slot+" accepts "+k, "a field of kind "+k+" is saved into "+slot+" but the decoder branch of "+slot+" does not accept that kind: the value is silently dropped on read")
				g := decGetters[slot]
				onlyOwn := len(g) > 0
				for name := range g {
					if name != "Get"+slot {
						onlyOwn = false
					}
				}
				rK.Check(onlyOwn, construct+":getter", dec.Decl.Pos(), "read with Get"+slot, "the decoder branch of "+slot+" reads a different slot")
			}
		}
	}
}

// tagLocalFromLookup accepts `tag, ok := field.Tag.Lookup(..)` (two-value define, also in an if-init)
// and `for _, p := range strings.Split(tag, ",")`-style locals are NOT accepted for names.
func tagLocalFromLookup(info *types.Info, body ast.Node, obj types.Object) (bool, string) {
	found, how := false, "a local that is not derived from Tag.Lookup"
	ast.Inspect(body, func(x ast.Node) bool {
		as, ok := x.(*ast.AssignStmt)
		if !ok || len(as.Rhs) != 1 || len(as.Lhs) != 2 {
			return true
		}
		id, ok := as.Lhs[0].(*ast.Ident)
		if !ok || (info.Defs[id] != obj && info.Uses[id] != obj) {
			return true
		}
		if call, ok := core.Unparen(as.Rhs[0]).(*ast.CallExpr); ok {
			if cal := core.Callee(info, call); cal != nil && core.QName(cal) == "reflect.StructTag.Lookup" {
				found, how = true, "whole tag"
			}
		}
		return true
	})
	return found, how
}

func isSyncMapType(t types.Type) bool {
	if pt, ok := t.(*types.Pointer); ok {
		t = pt.Elem()
	}
	n, ok := t.(*types.Named)
	return ok && n.Obj().Pkg() != nil && n.Obj().Pkg().Path() == "sync" && n.Obj().Name() == "Map"
}
