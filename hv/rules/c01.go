package rules

import (
	"fmt"
	"go/ast"
	"go/token"
	"go/types"
	"sort"
	"strings"

	"hv/core"
)

func init() { register("C01", c01) }

const (
	pkgV2    = "app/core/hydra/swamp/chronicler/v2"
	pkgChron = "app/core/hydra/swamp/chronicler"
)

// fieldRange is one fixed-offset field of a serialized header.
type fieldRange struct {
	lo, hi int64
	width  int64 // bytes moved by the put/get (0 for copy)
	pos    token.Pos
}

func sliceConstBounds(info *types.Info, e ast.Expr) (lo, hi int64, base ast.Expr, ok bool) {
	sl, isSl := core.Unparen(e).(*ast.SliceExpr)
	if !isSl || sl.Low == nil || sl.High == nil {
		return 0, 0, nil, false
	}
	l, ok1 := core.ConstInt(info, sl.Low)
	h, ok2 := core.ConstInt(info, sl.High)
	return l, h, sl.X, ok1 && ok2
}

func endianWidth(info *types.Info, call *ast.CallExpr) (put bool, width int64, ok bool) {
	f := core.Callee(info, call)
	if f == nil || f.Pkg() == nil || f.Pkg().Path() != "encoding/binary" {
		return false, 0, false
	}
	n := f.Name()
	put = strings.HasPrefix(n, "PutUint")
	n = strings.TrimPrefix(strings.TrimPrefix(n, "Put"), "Uint")
	switch n {
	case "16":
		return put, 2, true
	case "32":
		return put, 4, true
	case "64":
		return put, 8, true
	}
	return false, 0, false
}

// firstFieldOf returns the first struct field of the given named struct selected in e.
func firstFieldOf(info *types.Info, e ast.Node, owner *types.Named) string {
	name := ""
	ast.Inspect(e, func(x ast.Node) bool {
		if name != "" {
			return false
		}
		if s, ok := x.(*ast.SelectorExpr); ok {
			if f := core.FieldOf(info, s); f != nil {
				if tv, ok := info.Types[s.X]; ok && namedOf(tv.Type) == owner {
					name = f.Name()
				}
			}
		}
		return true
	})
	return name
}

// fixedLayout extracts field -> byte range from a Serialize or Deserialize method that uses
// constant slice bounds of one buffer.
func fixedLayout(f *core.Func, owner *types.Named) (map[string]fieldRange, []string) {
	info := f.Info()
	out := map[string]fieldRange{}
	var problems []string
	record := func(field string, r fieldRange) {
		if field == "" {
			return
		}
		if old, ok := out[field]; ok && (old.lo != r.lo || old.hi != r.hi) {
			problems = append(problems, fmt.Sprintf("field %s at two ranges [%d:%d] and [%d:%d]", field, old.lo, old.hi, r.lo, r.hi))
		}
		out[field] = r
	}
	ast.Inspect(f.Decl.Body, func(x ast.Node) bool {
		switch v := x.(type) {
		case *ast.CallExpr:
			if put, w, ok := endianWidth(info, v); ok && put && len(v.Args) == 2 {
				if lo, hi, _, ok := sliceConstBounds(info, v.Args[0]); ok {
					record(firstFieldOf(info, v.Args[1], owner), fieldRange{lo, hi, w, v.Pos()})
				}
			}
			if isBuiltinCall(info, v, "copy") && len(v.Args) == 2 {
				if lo, hi, _, ok := sliceConstBounds(info, v.Args[0]); ok { // copy(buf[a:b], h.F[:])
					record(firstFieldOf(info, v.Args[1], owner), fieldRange{lo, hi, 0, v.Pos()})
				} else if lo, hi, _, ok := sliceConstBounds(info, v.Args[1]); ok { // copy(h.F[:], buf[a:b])
					record(firstFieldOf(info, v.Args[0], owner), fieldRange{lo, hi, 0, v.Pos()})
				}
			}
		case *ast.AssignStmt:
			if len(v.Lhs) == 1 && len(v.Rhs) == 1 {
				var get *ast.CallExpr
				ast.Inspect(v.Rhs[0], func(y ast.Node) bool {
					if c, ok := y.(*ast.CallExpr); ok {
						if put, _, ok := endianWidth(info, c); ok && !put {
							get = c
						}
					}
					return true
				})
				if get != nil && len(get.Args) == 1 {
					_, w, _ := endianWidth(info, get)
					if lo, hi, _, ok := sliceConstBounds(info, get.Args[0]); ok {
						record(firstFieldOf(info, v.Lhs[0], owner), fieldRange{lo, hi, w, v.Pos()})
					}
				}
			}
		}
		return true
	})
	return out, problems
}

// seqWidths lists, in source order, the widths of binary put (or get) operations of a function.
func seqWidths(f *core.Func, wantPut bool) []int64 {
	info := f.Info()
	var out []int64
	core.Calls(f.Decl.Body, false, func(c *ast.CallExpr) {
		if put, w, ok := endianWidth(info, c); ok && put == wantPut {
			out = append(out, w)
		}
	})
	return out
}

func fmtWidths(w []int64) string {
	var s []string
	for _, x := range w {
		s = append(s, fmt.Sprint(x))
	}
	return "[" + strings.Join(s, ",") + "]"
}

// entryValidators finds methods of v2.Entry that return an error and whose nil return
// implies len(Key) <= 65535 and len(Data) <= 2^32-1.
func entryValidators(c *core.Ctx) map[*types.Func]bool {
	p := c.P
	out := map[*types.Func]bool{}
	entryT := p.Named(pkgV2, "Entry")
	keyF := p.MustField(pkgV2, "Entry", "Key")
	dataF := p.MustField(pkgV2, "Entry", "Data")
	for _, f := range p.FuncsIn(pkgV2) {
		if f.Decl.Body == nil || f.Decl.Recv == nil {
			continue
		}
		sig := f.Obj.Type().(*types.Signature)
		if namedOf(sig.Recv().Type()) != entryT || sig.Params().Len() != 0 || !core.ReturnsError(sig) || sig.Results().Len() != 1 {
			continue
		}
		info := f.Info()
		fl := core.NewFlow(p, info, f.Decl.Body)
		okAll, any := true, false
		fl.Nodes(func(l core.Loc, n ast.Node) {
			ret, isRet := n.(*ast.ReturnStmt)
			if !isRet || len(ret.Results) != 1 || !core.IsNilIdent(info, ret.Results[0]) {
				return
			}
			any = true
			bound := func(field *types.Var, max int64) bool {
				return holdsAt(fl, f.Decl.Body, l, func(ft core.Fact) bool {
					return cmpFact(ft, func(x ast.Expr, op token.Token, y ast.Expr) bool {
						k, isK := core.ConstInt(info, y)
						if !isK || !isLenOf(info, x, field) {
							return false
						}
						return (op == token.LEQ && k <= max) || (op == token.LSS && k <= max+1)
					})
				})
			}
			if !bound(keyF, 65535) || !bound(dataF, 1<<32-1) {
				okAll = false
			}
		})
		if any && okAll {
			out[f.Obj] = true
			c.Touch(f)
		}
	}
	return out
}

// narrowSites lists the conversions uint16(x)/uint32(x) whose operand derives from len(...)
// in a function.
type narrowSite struct {
	call  *ast.CallExpr
	bits  int
	what  string
	local types.Object
}

func narrowSitesOf(f *core.Func) []narrowSite {
	info := f.Info()
	var out []narrowSite
	lenLocals := map[types.Object]bool{}
	ast.Inspect(f.Decl.Body, func(x ast.Node) bool {
		if as, ok := x.(*ast.AssignStmt); ok && len(as.Lhs) == len(as.Rhs) {
			for i, r := range as.Rhs {
				if c, ok := core.Unparen(r).(*ast.CallExpr); ok && isBuiltinCall(info, c, "len") {
					if o := core.ObjOf(info, as.Lhs[i]); o != nil {
						lenLocals[o] = true
					}
				}
			}
		}
		return true
	})
	cmpOperand := map[ast.Expr]bool{}
	ast.Inspect(f.Decl.Body, func(x ast.Node) bool {
		if be, ok := x.(*ast.BinaryExpr); ok {
			switch be.Op {
			case token.EQL, token.NEQ, token.LSS, token.LEQ, token.GTR, token.GEQ:
				cmpOperand[core.Unparen(be.X)] = true
				cmpOperand[core.Unparen(be.Y)] = true
			}
		}
		return true
	})
	ast.Inspect(f.Decl.Body, func(x ast.Node) bool {
		c, ok := x.(*ast.CallExpr)
		if !ok || len(c.Args) != 1 || cmpOperand[c] {
			return true
		}
		tv, ok := info.Types[c.Fun]
		if !ok || !tv.IsType() {
			return true
		}
		b, ok := tv.Type.Underlying().(*types.Basic)
		if !ok || (b.Kind() != types.Uint16 && b.Kind() != types.Uint32) {
			return true
		}
		arg := core.Unparen(c.Args[0])
		derives := false
		if ac, ok := arg.(*ast.CallExpr); ok && isBuiltinCall(info, ac, "len") {
			derives = true
		}
		var loc types.Object
		if id, ok := arg.(*ast.Ident); ok && lenLocals[info.Uses[id]] {
			derives = true
			loc = info.Uses[id]
		}
		if !derives {
			return true
		}
		bits := 16
		if b.Kind() == types.Uint32 {
			bits = 32
		}
		out = append(out, narrowSite{call: c, bits: bits, what: core.ExprStr(c), local: loc})
		return true
	})
	return out
}

func c01(c *core.Ctx) {
	p := c.P
	c.Explain = "Static necessary conditions for 'the log replays to the last-writer-wins state': every length narrowed into a fixed-width on-disk field is bounded before it is stored (entries validated before buffering, flush forced at the 16-bit entry-count limit, name length checked); writer and reader agree on the fixed header layouts and on the entry field sequence; the replay switch handles every operation code a writer emits, delete removes the key and insert/update store under the key; the chronicler emits DELETE exactly for records with DeletedAt>0; only the writer creates or writes .hyd files and the only in-place rewrite is the 64-byte header; the buffer is flushed when Add asks for it and before the final header is written."
	c.NotCovered = []string{"equality of the replayed map with a reference model for arbitrary histories", "32-bit block size fields (a block would need > 4 GiB)", "compression round trip (C24)", "SwampMetadata / CompressEntries (exported, unreachable from production roots)"}
	cg := c.CG()

	// ---- C01.narrow
	rN := c.Rule("C01.narrow", "a length that is narrowed into a 16/32-bit on-disk field is bounded first: entries pass a validator (len(Key)<=65535, len(Data)<=2^32-1) before WriteBuffer.Add; Add requests a flush when the entry count reaches the 16-bit limit; the swamp name length is checked before the header is built; no other reachable narrowing of a len-derived value exists in the storage package", 6)
	validators := entryValidators(c)
	addFn := c.Fn(pkgV2 + ".WriteBuffer.Add")
	entriesF := p.MustField(pkgV2, "WriteBuffer", "entries")
	nAdd := 0
	for _, f := range p.FuncsIn(pkgV2) {
		if f.Decl.Body == nil {
			continue
		}
		info := f.Info()
		for _, body := range core.Bodies(f.Decl) {
			var fl *core.Flow
			core.Calls(body, false, func(call *ast.CallExpr) {
				if !core.IsWsCallTo(info, call, addFn.Key) || len(call.Args) != 1 {
					return
				}
				nAdd++
				c.Touch(f)
				if fl == nil {
					fl = core.NewFlow(p, info, body)
				}
				loc, ok := fl.Locate(call)
				if !ok {
					return
				}
				ent := core.ObjOf(info, call.Args[0])
				validated := ent != nil && holdsAt(fl, body, loc, func(ft core.Fact) bool {
					// err == nil where err := ent.Validate()
					be, ok := core.Unparen(ft.Expr).(*ast.BinaryExpr)
					if !ok || (be.Op != token.NEQ && be.Op != token.EQL) {
						return false
					}
					isNil := (be.Op == token.EQL) == ft.Truth
					if !isNil {
						return false
					}
					var v ast.Expr
					switch {
					case core.IsNilIdent(info, be.Y):
						v = be.X
					case core.IsNilIdent(info, be.X):
						v = be.Y
					default:
						return false
					}
					obj := core.ObjOf(info, v)
					if obj == nil {
						return false
					}
					def := localDef(info, body, obj)
					dc, ok := core.Unparen(def).(*ast.CallExpr)
					if !ok {
						return false
					}
					callee := core.Callee(info, dc)
					return callee != nil && validators[callee] && core.ObjOf(info, core.RecvExpr(dc)) == ent
				})
				rN.Check(validated, f.Key+":Add("+core.ExprStr(call.Args[0])+")", call.Pos(),
					"entry validated (key<=65535, data<=2^32-1) before it is buffered",
					"an entry reaches the write buffer without a width check: a key longer than 65535 bytes is written with a truncated 16-bit length and the file no longer reads back")
			})
		}
	}
	if nAdd == 0 {
		rN.Bad(pkgV2+":no-Add-sites", addFn.Decl.Pos(), "no call to WriteBuffer.Add found")
	}
	{
		// Add's result: false implies len(entries) < 65535
		info := addFn.Info()
		ok := false
		var pos token.Pos = addFn.Decl.Pos()
		ast.Inspect(addFn.Decl.Body, func(x ast.Node) bool {
			ret, isRet := x.(*ast.ReturnStmt)
			if !isRet || len(ret.Results) != 1 {
				return true
			}
			pos = ret.Pos()
			if implies(info, addFn.Decl.Body, ret.Results[0], false, func(ft core.Fact) bool {
				return cmpFact(ft, func(x ast.Expr, op token.Token, y ast.Expr) bool {
					k, isK := core.ConstInt(info, y)
					return isK && lenOfField(info, x, entriesF) && ((op == token.LSS && k <= 65535) || (op == token.LEQ && k < 65535) || (op == token.NEQ && k <= 65535))
				})
			}) {
				ok = true
			}
			return true
		})
		rN.Check(ok, addFn.Key+":entry-count-trigger", pos, "Add returns true at the latest when len(entries) reaches 65535",
			"Add only looks at the byte size: with a large block size and tiny entries more than 65535 entries end up in one block and the 16-bit entry count wraps (entries silently lost on replay)")
	}
	// inventory of narrowing conversions reachable from production
	roots := []*core.Func{}
	for _, f := range p.FuncsIn(pkgChron) {
		if strings.Contains(f.Key, ".chroniclerV2.") {
			roots = append(roots, f)
		}
	}
	reach := map[*core.Func]bool{}
	var stack []*core.Func
	for _, r := range roots {
		reach[r] = true
		stack = append(stack, r)
	}
	for len(stack) > 0 {
		f := stack[len(stack)-1]
		stack = stack[:len(stack)-1]
		for _, s := range cg.Out[f] {
			if s.Dynamic {
				continue
			}
			for _, t := range s.Targets {
				if !reach[t] {
					reach[t] = true
					stack = append(stack, t)
				}
			}
		}
	}
	nameChecked := false
	for _, f := range p.FuncsIn(pkgV2) {
		if f.Decl.Body == nil || !reach[f] {
			continue
		}
		info := f.Info()
		for _, ns := range narrowSitesOf(f) {
			c.Touch(f)
			construct := f.Key + ":" + ns.what
			switch {
			case f.Key == pkgV2+".Entry.Serialize":
				rN.Ok(construct, ns.call.Pos(), "bounded by the validator every buffered entry passed")
			case f.Key == pkgV2+".WriteBuffer.Flush" && ns.bits == 16:
				rN.Ok(construct, ns.call.Pos(), "bounded by Add's entry-count trigger")
			case ns.bits == 32 && (f.Key == pkgV2+".WriteBuffer.Flush"):
				rN.Ok(construct, ns.call.Pos(), "block size fields: not decided (documented gap, needs a > 4 GiB block)")
			case f.Key == pkgV2+".FileWriter.createNewFile":
				// need a dominating len(<name source>) <= 65535 fact
				fl := core.NewFlow(p, info, f.Decl.Body)
				loc, ok := fl.Locate(ns.call)
				src := ""
				if ns.local == nil {
					if lc, ok := core.Unparen(ns.call.Args[0]).(*ast.CallExpr); ok {
						if id, ok := core.Unparen(lc.Args[0]).(*ast.Ident); ok {
							if def := localDef(info, f.Decl.Body, info.Uses[id]); def != nil {
								src = core.ExprStr(stripConv(info, def))
							}
						}
					}
				}
				bounded := ok && holdsAt(fl, f.Decl.Body, loc, func(ft core.Fact) bool {
					return cmpFact(ft, func(x ast.Expr, op token.Token, y ast.Expr) bool {
						k, isK := core.ConstInt(info, y)
						if !isK {
							return false
						}
						lc, isCall := core.Unparen(x).(*ast.CallExpr)
						if !isCall || !isBuiltinCall(info, lc, "len") {
							return false
						}
						if core.ExprStr(lc.Args[0]) != src && src != "" {
							return false
						}
						return (op == token.LEQ && k <= 65535) || (op == token.LSS && k <= 65536)
					})
				})
				nameChecked = true
				rN.Check(bounded, construct, ns.call.Pos(), "len("+src+") <= 65535 established before the conversion", "swamp name length is narrowed to 16 bits without a bound: an over-long name is stored with a wrapped NameLength and every block offset is misread")
			default:
				rN.Bad(construct, ns.call.Pos(), "unclassified narrowing of a len-derived value in a function reachable from the chronicler: not covered by any width check")
			}
		}
	}
	if !nameChecked {
		rN.Bad(pkgV2+".FileWriter.createNewFile:name-length", c.Fn(pkgV2+".FileWriter.createNewFile").Decl.Pos(), "name length conversion not found")
	}

	// ---- C01.layout
	rL := c.Rule("C01.layout", "Serialize and Deserialize of the fixed-size headers use the same byte range and width per field, ranges do not overlap and stay inside the header size; Entry.Serialize/Deserialize move the same sequence of widths and Entry.Size equals that layout; the swamp name is written right after the header and DataStartOffset accounts for it", 19)
	for _, hdr := range []struct {
		typ, size string
	}{{"FileHeader", "FileHeaderSize"}, {"BlockHeader", "BlockHeaderSize"}} {
		owner := p.Named(pkgV2, hdr.typ)
		ser := c.Fn(pkgV2 + "." + hdr.typ + ".Serialize")
		des := c.Fn(pkgV2 + "." + hdr.typ + ".Deserialize")
		sl, sp := fixedLayout(ser, owner)
		dl, dp := fixedLayout(des, owner)
		for _, pr := range append(sp, dp...) {
			rL.Bad(pkgV2+"."+hdr.typ+":range-conflict", ser.Decl.Pos(), pr)
		}
		sizeC := p.Const(pkgV2, hdr.size)
		size, _ := core.ConstInt(ser.Info(), nil)
		_ = size
		sz := int64(0)
		if v, ok := constIntOf(sizeC); ok {
			sz = v
		}
		var names []string
		for n := range sl {
			names = append(names, n)
		}
		for n := range dl {
			if _, ok := sl[n]; !ok {
				names = append(names, n)
			}
		}
		sort.Strings(names)
		for _, n := range names {
			a, okA := sl[n]
			b, okB := dl[n]
			construct := pkgV2 + "." + hdr.typ + "." + n
			switch {
			case !okA || !okB:
				pos := a.pos
				if !okA {
					pos = b.pos
				}
				rL.Bad(construct, pos, "field is written but not read, or read but not written")
			case a.lo != b.lo || a.hi != b.hi || (a.width != 0 && b.width != 0 && a.width != b.width):
				rL.Bad(construct, b.pos, fmt.Sprintf("writer puts it at [%d:%d] width %d, reader takes it from [%d:%d] width %d", a.lo, a.hi, a.width, b.lo, b.hi, b.width))
			case (a.width != 0 && a.hi-a.lo != a.width) || a.hi > sz || a.lo < 0:
				rL.Bad(construct, a.pos, fmt.Sprintf("range [%d:%d] does not match width %d or exceeds the %d-byte header", a.lo, a.hi, a.width, sz))
			default:
				rL.Ok(construct, a.pos, fmt.Sprintf("[%d:%d]", a.lo, a.hi))
			}
		}
		// overlap
		for i, n1 := range names {
			for _, n2 := range names[i+1:] {
				a, b := sl[n1], sl[n2]
				if a.lo < b.hi && b.lo < a.hi && (a.hi > a.lo) && (b.hi > b.lo) {
					rL.Bad(pkgV2+"."+hdr.typ+":overlap:"+n1+"/"+n2, a.pos, "serialized fields overlap")
				}
			}
		}
	}
	{
		ser := c.Fn(pkgV2 + ".Entry.Serialize")
		des := c.Fn(pkgV2 + ".Entry.Deserialize")
		sw, dw := seqWidths(ser, true), seqWidths(des, false)
		rL.Check(fmtWidths(sw) == fmtWidths(dw) && fmtWidths(sw) == "[2,4]", pkgV2+".Entry:width-sequence", ser.Decl.Pos(), "op(1) keyLen(2) key dataLen(4) data on both sides", "Entry.Serialize moves widths "+fmtWidths(sw)+" but Entry.Deserialize "+fmtWidths(dw))
		// Size(): constant part equals 1 + sum(widths)
		sizeFn := c.Fn(pkgV2 + ".Entry.Size")
		var sum int64
		lens := 0
		var walk func(e ast.Expr)
		walk = func(e ast.Expr) {
			e = core.Unparen(e)
			if be, ok := e.(*ast.BinaryExpr); ok && be.Op == token.ADD {
				walk(be.X)
				walk(be.Y)
				return
			}
			if v, ok := core.ConstInt(sizeFn.Info(), e); ok {
				sum += v
				return
			}
			if cl, ok := e.(*ast.CallExpr); ok && isBuiltinCall(sizeFn.Info(), cl, "len") {
				lens++
			}
		}
		ast.Inspect(sizeFn.Decl.Body, func(x ast.Node) bool {
			if ret, ok := x.(*ast.ReturnStmt); ok && len(ret.Results) == 1 {
				walk(ret.Results[0])
			}
			return true
		})
		rL.Check(sum == 7 && lens == 2, sizeFn.Key, sizeFn.Decl.Pos(), "1+2+len(key)+4+len(data)", fmt.Sprintf("Entry.Size has constant part %d and %d length terms; the encoded form has 7 and 2 (flush threshold and offsets drift)", sum, lens))
		// name area: createNewFile writes header.Serialize() then the name bytes
		cr := c.Fn(pkgV2 + ".FileWriter.createNewFile")
		info := cr.Info()
		fl := core.NewFlow(p, info, cr.Decl.Body)
		var hdrW, nameW *ast.CallExpr
		core.Calls(cr.Decl.Body, false, func(call *ast.CallExpr) {
			if !core.IsCallTo(info, call, "os.File.Write") || len(call.Args) != 1 {
				return
			}
			if ac, ok := core.Unparen(call.Args[0]).(*ast.CallExpr); ok && core.IsWsCallTo(info, ac, pkgV2+".FileHeader.Serialize") {
				hdrW = call
			} else {
				nameW = call
			}
		})
		ordered := false
		if hdrW != nil && nameW != nil {
			if ok, _ := fl.OnlyAfterSuccess(cr.Decl.Body, hdrW, nameW); ok {
				ordered = true
			}
		}
		rL.Check(ordered, cr.Key+":header-then-name", cr.Decl.Pos(), "name bytes are written right after the serialized header", "createNewFile does not write the name directly after the header")
		dso := c.Fn(pkgV2 + ".FileHeader.DataStartOffset")
		usesName := false
		ast.Inspect(dso.Decl.Body, func(x ast.Node) bool {
			if s, ok := x.(*ast.SelectorExpr); ok {
				if f := core.FieldOf(dso.Info(), s); f != nil && f.Name() == "NameLength" {
					usesName = true
				}
			}
			return true
		})
		rL.Check(usesName, dso.Key, dso.Decl.Pos(), "data starts at header size + name length", "DataStartOffset ignores NameLength")
	}

	// ---- C01.replay
	rR := c.Rule("C01.replay", "the replay callbacks (LoadIndex, CalculateFragmentation) switch over the entry operation with a case for every operation constant a writer emits; the delete case removes entry.Key, the insert/update case stores under entry.Key; the callback keeps reading", 8)
	opsEmitted := map[string]token.Pos{}
	entryT := p.Named(pkgV2, "Entry")
	for _, f := range p.FuncsUnder("app/") {
		if f.Decl.Body == nil {
			continue
		}
		info := f.Info()
		ast.Inspect(f.Decl.Body, func(x ast.Node) bool {
			cl, ok := x.(*ast.CompositeLit)
			if !ok {
				return true
			}
			if tv, ok := info.Types[cl]; !ok || namedOf(tv.Type) != entryT {
				return true
			}
			for i, el := range cl.Elts {
				var v ast.Expr
				if kv, ok := el.(*ast.KeyValueExpr); ok {
					if kv.Key.(*ast.Ident).Name != "Operation" {
						continue
					}
					v = kv.Value
				} else if i == 0 {
					v = el
				} else {
					continue
				}
				if o, ok := core.ObjOf(info, v).(*types.Const); ok {
					opsEmitted[o.Name()] = v.Pos()
				} else if lv, ok := core.ObjOf(info, v).(*types.Var); ok && !lv.IsField() {
					// operation held in a local: every constant assigned to it in this function
					ast.Inspect(f.Decl.Body, func(y ast.Node) bool {
						if as, ok := y.(*ast.AssignStmt); ok && len(as.Lhs) == len(as.Rhs) {
							for i, l := range as.Lhs {
								if core.ObjOf(info, l) == lv {
									if k, ok := core.ObjOf(info, as.Rhs[i]).(*types.Const); ok {
										opsEmitted[k.Name()] = as.Rhs[i].Pos()
									}
								}
							}
						}
						return true
					})
				}
			}
			return true
		})
	}
	for _, k := range []string{pkgV2 + ".FileReader.LoadIndex", pkgV2 + ".FileReader.CalculateFragmentation"} {
		f := c.Fn(k)
		info := f.Info()
		var sw *ast.SwitchStmt
		var lit *ast.FuncLit
		for _, l := range core.AllLits(f.Decl.Body) {
			ast.Inspect(l.Body, func(x ast.Node) bool {
				if s, ok := x.(*ast.SwitchStmt); ok && s.Tag != nil {
					if fld := core.FieldOf(info, s.Tag); fld != nil && fld.Name() == "Operation" {
						sw, lit = s, l
					}
				}
				return true
			})
		}
		if sw == nil {
			rR.Bad(k+":switch", f.Decl.Pos(), "replay callback no longer switches over entry.Operation")
			continue
		}
		cases := map[string]*ast.CaseClause{}
		for _, cl := range sw.Body.List {
			cc := cl.(*ast.CaseClause)
			for _, e := range cc.List {
				if o, ok := core.ObjOf(info, e).(*types.Const); ok {
					cases[o.Name()] = cc
				}
			}
		}
		var ops []string
		for o := range opsEmitted {
			ops = append(ops, o)
		}
		sort.Strings(ops)
		for _, o := range ops {
			if o == "OpMetadata" && strings.HasSuffix(k, "CalculateFragmentation") {
				continue // metadata entries carry no record
			}
			_, ok := cases[o]
			rR.Check(ok, k+":case "+o, sw.Pos(), "handled", "operation "+o+" is written by some writer but has no case in the replay switch: such entries are silently skipped")
		}
		entryParam := lit.Type.Params.List[0].Names[0]
		entryObj := info.Defs[entryParam]
		usesKey := func(n ast.Node) bool {
			// exactly entry.Key (no derived expression)
			e, ok := n.(ast.Expr)
			if !ok {
				return false
			}
			s, ok := core.Unparen(e).(*ast.SelectorExpr)
			if !ok {
				return false
			}
			fld := core.FieldOf(info, s)
			return fld != nil && fld.Name() == "Key" && core.ObjOf(info, s.X) == entryObj
		}
		if cc := cases["OpDelete"]; cc != nil {
			ok := false
			for _, st := range cc.Body {
				core.Calls(st, false, func(call *ast.CallExpr) {
					if isBuiltinCall(info, call, "delete") && len(call.Args) == 2 && usesKey(call.Args[1]) {
						ok = true
					}
				})
			}
			rR.Check(ok, k+":delete-removes-key", cc.Pos(), "delete(index, entry.Key)", "the delete case does not remove entry.Key from the replayed map: deleted records come back")
		}
		for _, o := range []string{"OpInsert", "OpUpdate"} {
			if cc := cases[o]; cc != nil {
				ok := false
				for _, st := range cc.Body {
					if as, isAs := st.(*ast.AssignStmt); isAs && len(as.Lhs) == 1 {
						if ix, isIx := core.Unparen(as.Lhs[0]).(*ast.IndexExpr); isIx && usesKey(ix.Index) {
							ok = true
						}
					}
				}
				rR.Check(ok, k+":"+o+"-stores-under-key", cc.Pos(), "index[entry.Key] = ...", "the "+o+" case does not store under entry.Key")
			}
		}
		// callback returns true at its end
		n := len(lit.Body.List)
		cont := false
		if n > 0 {
			if ret, ok := lit.Body.List[n-1].(*ast.ReturnStmt); ok && len(ret.Results) == 1 {
				if v, ok := core.BoolLit(info, ret.Results[0]); ok && v {
					cont = true
				}
			}
		}
		rR.Check(cont, k+":continues", lit.Pos(), "callback returns true", "replay callback stops early")
	}

	// ---- C01.opchoice
	rO := c.Rule("C01.opchoice", "chroniclerV2.Write builds the OpDelete entry exactly on the branch where GetDeletedAt() > 0 and an insert/update entry on the other branch, and the entry it built is the one handed to WriteEntry", 3)
	{
		w := c.Fn(pkgChron + ".chroniclerV2.Write")
		info := w.Info()
		var loopBody *ast.BlockStmt
		ast.Inspect(w.Decl.Body, func(x ast.Node) bool {
			if rs, ok := x.(*ast.RangeStmt); ok && loopBody == nil {
				loopBody = rs.Body
			}
			return true
		})
		fl := core.NewFlow(p, info, w.Decl.Body)
		isDeletedAtom := func(want bool) func(core.Fact) bool {
			return func(ft core.Fact) bool {
				return cmpFact(ft, func(x ast.Expr, op token.Token, y ast.Expr) bool {
					call, ok := core.Unparen(x).(*ast.CallExpr)
					if !ok || !isConst(info, y, 0) {
						return false
					}
					f := core.Callee(info, call)
					if f == nil || f.Name() != "GetDeletedAt" {
						return false
					}
					if want {
						return op == token.GTR || op == token.NEQ
					}
					return op == token.LEQ || op == token.EQL
				})
			}
		}
		nDel, nPut := 0, 0
		ast.Inspect(w.Decl.Body, func(x ast.Node) bool {
			cl, ok := x.(*ast.CompositeLit)
			if !ok {
				return true
			}
			if tv, ok := info.Types[cl]; !ok || namedOf(tv.Type) != entryT {
				return true
			}
			var opExpr ast.Expr
			for _, el := range cl.Elts {
				if kv, ok := el.(*ast.KeyValueExpr); ok && kv.Key.(*ast.Ident).Name == "Operation" {
					opExpr = kv.Value
				}
			}
			loc, found := fl.Locate(cl)
			if !found || opExpr == nil {
				return true
			}
			isDel := false
			if o, ok := core.ObjOf(info, opExpr).(*types.Const); ok && o.Name() == "OpDelete" {
				isDel = true
			}
			if isDel {
				nDel++
				rO.Check(holdsAt(fl, w.Decl.Body, loc, isDeletedAtom(true)), w.Key+":OpDelete-literal", cl.Pos(), "built only when GetDeletedAt() > 0", "a DELETE entry is built on a branch that is not guarded by GetDeletedAt() > 0: live records are logged as deleted")
			} else {
				nPut++
				rO.Check(holdsAt(fl, w.Decl.Body, loc, isDeletedAtom(false)), w.Key+":put-literal", cl.Pos(), "built only when GetDeletedAt() <= 0", "an insert/update entry is built for a record that may be deleted: deleted records are logged as live")
			}
			return true
		})
		if nDel == 0 {
			rO.Bad(w.Key+":OpDelete-literal", w.Decl.Pos(), "Write never emits OpDelete")
		}
		if nPut == 0 {
			rO.Bad(w.Key+":put-literal", w.Decl.Pos(), "Write never emits insert/update")
		}
		// WriteEntry receives the variable assigned from those literals
		okArg := false
		core.Calls(w.Decl.Body, false, func(call *ast.CallExpr) {
			if core.IsWsCallTo(info, call, pkgV2+".FileWriter.WriteEntry") && len(call.Args) == 1 {
				if obj := core.ObjOf(info, call.Args[0]); obj != nil {
					n := 0
					ast.Inspect(w.Decl.Body, func(x ast.Node) bool {
						if as, ok := x.(*ast.AssignStmt); ok && len(as.Lhs) == 1 && core.ObjOf(info, as.Lhs[0]) == obj {
							if _, isLit := core.Unparen(as.Rhs[0]).(*ast.CompositeLit); isLit {
								n++
							}
						}
						return true
					})
					okArg = n == nDel+nPut && n > 0
				}
			}
		})
		rO.Check(okArg, w.Key+":WriteEntry(entry)", w.Decl.Pos(), "the built entry is written", "the entry handed to WriteEntry is not the one built on the delete/put branches")
		_ = loopBody
	}

	// ---- C01.appendonly
	rA := c.Rule("C01.appendonly", "files are created or opened for writing, written, truncated or renamed only inside the storage writer/compactor (and the CLI/migrator tools); the only write that follows a seek to the file start writes the serialized 64-byte header", 5)
	allowedWriters := map[string]string{
		pkgV2 + ".FileWriter.createNewFile":    "creates the file",
		pkgV2 + ".FileWriter.openExistingFile": "opens for append",
	}
	for _, f := range append(p.FuncsIn(pkgV2), p.FuncsIn(pkgChron)...) {
		if f.Decl.Body == nil {
			continue
		}
		info := f.Info()
		core.Calls(f.Decl.Body, true, func(call *ast.CallExpr) {
			q := core.QName(core.Callee(info, call))
			switch q {
			case "os.Create", "os.OpenFile", "os.WriteFile":
				c.Touch(f)
				_, ok := allowedWriters[f.Key]
				if q == "os.OpenFile" && ok {
					// flags must not contain O_TRUNC
					if len(call.Args) >= 2 && strings.Contains(core.ExprStr(call.Args[1]), "O_TRUNC") {
						ok = false
					}
				}
				rA.Check(ok, f.Key+"->"+q, call.Pos(), allowedWriters[f.Key], "a storage file is created/opened for writing outside the writer's two constructors (append-only discipline cannot be assumed)")
			}
		})
	}
	for _, f := range p.FuncsIn(pkgV2) {
		if f.Decl.Body == nil {
			continue
		}
		info := f.Info()
		var fl *core.Flow
		core.Calls(f.Decl.Body, false, func(call *ast.CallExpr) {
			if !core.IsCallTo(info, call, "os.File.Seek") || len(call.Args) != 2 {
				return
			}
			if core.ExprStr(call.Args[1]) != "io.SeekStart" || !isConst(info, call.Args[0], 0) {
				return
			}
			if strings.Contains(f.Key, "FileReader") {
				return
			}
			c.Touch(f)
			if fl == nil {
				fl = core.NewFlow(p, info, f.Decl.Body)
			}
			loc, ok := fl.Locate(call)
			if !ok {
				return
			}
			// the next os.File.Write reachable from here writes header.Serialize()
			bad := false
			isWrite := core.NodeHasCall(func(c2 *ast.CallExpr) bool { return core.IsCallTo(info, c2, "os.File.Write", "os.File.WriteAt", "os.File.WriteString") })
			isSeek := core.NodeHasCall(func(c2 *ast.CallExpr) bool { return core.IsCallTo(info, c2, "os.File.Seek") })
			fl.Walk(loc, nil, false, func(l core.Loc, n ast.Node) bool {
				if isWrite(n) {
					hdr := false
					core.Calls(n, false, func(c2 *ast.CallExpr) {
						if core.IsCallTo(info, c2, "os.File.Write") && len(c2.Args) == 1 {
							if ac, ok := core.Unparen(c2.Args[0]).(*ast.CallExpr); ok && core.IsWsCallTo(info, ac, pkgV2+".FileHeader.Serialize") {
								hdr = true
							}
						}
					})
					if !hdr {
						bad = true
					}
					// after the header write the position must be moved again before any other write
					return true
				}
				if isSeek(n) {
					return false
				}
				return true
			})
			rA.Check(!bad, f.Key+":Seek(0,SeekStart)", call.Pos(), "only the serialized header is written at the file start", "something other than the serialized header is written after seeking to the file start: existing entries are overwritten")
		})
	}

	// ---- C01.flush
	rQ := c.Rule("C01.fifo", "every block appended to the file is produced by the write buffer's Flush (entries leave in the order they were added): the BlockHeader whose serialized form is written comes from WriteBuffer.Flush in the writing function, or is a parameter that every caller fills from WriteBuffer.Flush", 1)
	{
		bufFlushFn := c.Fn(pkgV2 + ".WriteBuffer.Flush")
		cgq := c.CG()
		fromFlush := func(f *core.Func, obj types.Object) bool {
			if obj == nil {
				return false
			}
			def := localDefMulti(f.Info(), f.Decl.Body, obj)
			if def == nil {
				return false
			}
			call, ok := core.Unparen(def).(*ast.CallExpr)
			return ok && core.IsWsCallTo(f.Info(), call, bufFlushFn.Key)
		}
		for _, w := range v2BlockWriters(c) {
			info := w.Info()
			sig := w.Obj.Type().(*types.Signature)
			core.Calls(w.Decl.Body, false, func(call *ast.CallExpr) {
				if !core.IsCallTo(info, call, "os.File.Write") || len(call.Args) != 1 {
					return
				}
				ac, ok := core.Unparen(call.Args[0]).(*ast.CallExpr)
				if !ok || !core.IsWsCallTo(info, ac, pkgV2+".BlockHeader.Serialize") {
					return
				}
				hdr := core.ObjOf(info, core.RecvExpr(ac))
				construct := w.Key + ":block-source"
				if fromFlush(w, hdr) {
					rQ.Ok(construct, call.Pos(), "block comes from WriteBuffer.Flush")
					return
				}
				pi := -1
				for i := 0; i < sig.Params().Len(); i++ {
					if sig.Params().At(i) == hdr {
						pi = i
					}
				}
				if pi < 0 {
					rQ.Bad(construct, call.Pos(), "a block is appended that does not come from the write buffer's Flush: entries buffered earlier reach the file after it and replay no longer yields the last write")
					return
				}
				callers := cgq.In[w]
				if len(callers) == 0 {
					rQ.Bad(construct, call.Pos(), "block writer without callers")
				}
				for _, s := range callers {
					okc := s.Caller != nil && pi < len(s.Call.Args) && fromFlush(s.Caller, core.ObjOf(s.Caller.Info(), s.Call.Args[pi]))
					key := "?"
					if s.Caller != nil {
						key = s.Caller.Key
						c.Touch(s.Caller)
					}
					rQ.Check(okc, key+"->"+w.Obj.Name()+":block-source", s.Call.Pos(), "block comes from WriteBuffer.Flush", "a block is appended that does not come from the write buffer's Flush: entries buffered earlier reach the file after it and replay no longer yields the last write")
				}
			})
		}
	}

	rF := c.Rule("C01.flush", "wherever an entry is added to the write buffer, the branch on which Add reported the buffer full calls a function that flushes it (reaches WriteBuffer.Flush); the public WriteEntry/WriteEntries reach such an Add site; Sync and Close flush successfully before they write the final header", 4)
	flushKey := pkgV2 + ".FileWriter.flushLocked"
	cgF := c.CG()
	bufFlush := c.Fn(pkgV2 + ".WriteBuffer.Flush")
	flushers := cgF.ReachersOf(bufFlush)
	addSiteFuncs := map[*core.Func]bool{}
	for _, f := range p.FuncsIn(pkgV2) {
		if f.Decl.Body == nil {
			continue
		}
		info := f.Info()
		var adds []*ast.CallExpr
		core.Calls(f.Decl.Body, true, func(call *ast.CallExpr) {
			if core.IsWsCallTo(info, call, addFn.Key) {
				adds = append(adds, call)
			}
		})
		if len(adds) == 0 {
			continue
		}
		addSiteFuncs[f] = true
		c.Touch(f)
		isAddResult := func(ft core.Fact, truth bool) bool {
			if ft.Truth != truth {
				return false
			}
			e := core.Unparen(ft.Expr)
			if ce, isCall := e.(*ast.CallExpr); isCall && core.IsWsCallTo(info, ce, addFn.Key) {
				return true
			}
			if id, isId := e.(*ast.Ident); isId {
				if def := localDef(info, f.Decl.Body, info.Uses[id]); def != nil {
					if ce, isCall := core.Unparen(def).(*ast.CallExpr); isCall && core.IsWsCallTo(info, ce, addFn.Key) {
						return true
					}
				}
			}
			return false
		}
		ok := false
		core.Calls(f.Decl.Body, true, func(call *ast.CallExpr) {
			t := p.ByObj[core.Callee(info, call)]
			if t == nil || !(t == bufFlush || flushers[t]) {
				return
			}
			// innermost if statement whose body holds the flush: its condition being false must imply
			// that Add returned false (i.e. Add()==true always leads to the flush)
			var encl *ast.IfStmt
			for _, n := range core.PathTo(f.Decl.Body, call) {
				if is, isIf := n.(*ast.IfStmt); isIf && is.Body.Pos() <= call.Pos() && call.End() <= is.Body.End() {
					encl = is
				}
			}
			if encl == nil {
				ok = true // unconditional flush
				return
			}
			if implies(info, f.Decl.Body, encl.Cond, false, func(ft core.Fact) bool { return isAddResult(ft, false) }) {
				ok = true
			}
		})
		rF.Check(ok, f.Key+":flush-when-full", adds[0].Pos(), "flush on the Add()==true branch", "the buffer is not flushed when Add reports it full: blocks grow past the configured size and the 16-bit entry count")
	}
	for _, k := range []string{pkgV2 + ".FileWriter.WriteEntry", pkgV2 + ".FileWriter.WriteEntries"} {
		f := c.Fn(k)
		reaches := addSiteFuncs[f]
		for g := range addSiteFuncs {
			if cgF.ReachersOf(g)[f] {
				reaches = true
			}
		}
		rF.Check(reaches, k+":reaches-buffer", f.Decl.Pos(), "entries go through the write buffer", "the public write entry point does not add its entries to the write buffer")
	}
	for _, k := range []string{pkgV2 + ".FileWriter.Sync", pkgV2 + ".FileWriter.Close"} {
		f := c.Fn(k)
		info := f.Info()
		fl := core.NewFlow(p, info, f.Decl.Body)
		var flush, hdrWrite *ast.CallExpr
		core.Calls(f.Decl.Body, false, func(call *ast.CallExpr) {
			if core.IsWsCallTo(info, call, flushKey) && flush == nil {
				flush = call
			}
			if core.IsCallTo(info, call, "os.File.Write") && hdrWrite == nil {
				hdrWrite = call
			}
		})
		ok := false
		why := "no flush or no header write"
		if flush != nil && hdrWrite != nil {
			ok, why = fl.OnlyAfterSuccess(f.Decl.Body, flush, hdrWrite)
		}
		rF.Check(ok, k+":flush-before-header", f.Decl.Pos(), "buffer flushed before the final header", "final header is written without a successful flush first ("+why+"): buffered entries are lost at close/sync")
	}
}

func constIntOf(c *types.Const) (int64, bool) {
	return core.ConstValInt(c)
}
