package core

import (
	"go/ast"
	"go/token"
	"go/types"
	"strings"

	"golang.org/x/tools/go/types/typeutil"
)

// Callee resolves the static callee of a call (function, method or interface method).
func Callee(info *types.Info, call *ast.CallExpr) *types.Func {
	f, _ := typeutil.Callee(info, call).(*types.Func)
	if f != nil {
		return f.Origin()
	}
	return nil
}

// QName renders pkgpath.Recv.Name with the full import path (std lib and deps included).
func QName(f *types.Func) string {
	if f == nil {
		return ""
	}
	pkg := ""
	if f.Pkg() != nil {
		pkg = f.Pkg().Path()
	}
	sig, _ := f.Type().(*types.Signature)
	if sig != nil && sig.Recv() != nil {
		return pkg + "." + RecvName(sig.Recv().Type()) + "." + f.Name()
	}
	return pkg + "." + f.Name()
}

// IsCallTo reports whether the call's resolved callee has the given qualified name
// (full import path, e.g. "os.Rename", "os.File.Sync", "sync.Mutex.Lock").
func IsCallTo(info *types.Info, call *ast.CallExpr, qnames ...string) bool {
	q := QName(Callee(info, call))
	for _, n := range qnames {
		if q == n {
			return true
		}
	}
	return false
}

// IsWsCallTo matches a workspace callee by short key (see FuncKey).
func IsWsCallTo(info *types.Info, call *ast.CallExpr, keys ...string) bool {
	f := Callee(info, call)
	if f == nil || f.Pkg() == nil || !strings.HasPrefix(f.Pkg().Path(), ModRoot) {
		return false
	}
	k := FuncKey(f)
	for _, n := range keys {
		if k == n {
			return true
		}
	}
	return false
}

// MethodNamed matches a method call by bare method name and receiver type name in a
// workspace package (interface or concrete): e.g. ("app/core/hydra/swamp/vigil","Vigil","CeaseVigil").
func MethodNamed(info *types.Info, call *ast.CallExpr, shortPkg string, recvNames []string, name string) bool {
	f := Callee(info, call)
	if f == nil || f.Name() != name || f.Pkg() == nil || Short(f.Pkg().Path()) != shortPkg {
		return false
	}
	sig := f.Type().(*types.Signature)
	if sig.Recv() == nil {
		return false
	}
	rn := RecvName(sig.Recv().Type())
	for _, r := range recvNames {
		if r == rn {
			return true
		}
	}
	return false
}

// Calls enumerates the call expressions under n in source order.
// Function literals are entered only when intoLits is true.
func Calls(n ast.Node, intoLits bool, f func(*ast.CallExpr)) {
	if n == nil {
		return
	}
	ast.Inspect(n, func(x ast.Node) bool {
		switch v := x.(type) {
		case *ast.FuncLit:
			return intoLits
		case *ast.CallExpr:
			f(v)
		}
		return true
	})
}

// FindCalls collects the calls under n that satisfy pred.
func FindCalls(n ast.Node, intoLits bool, pred func(*ast.CallExpr) bool) []*ast.CallExpr {
	var out []*ast.CallExpr
	Calls(n, intoLits, func(c *ast.CallExpr) {
		if pred(c) {
			out = append(out, c)
		}
	})
	return out
}

// Unparen strips parentheses.
func Unparen(e ast.Expr) ast.Expr {
	for {
		p, ok := e.(*ast.ParenExpr)
		if !ok {
			return e
		}
		e = p.X
	}
}

// RecvExpr is the receiver expression of a method call (nil for plain calls).
func RecvExpr(call *ast.CallExpr) ast.Expr {
	if s, ok := Unparen(call.Fun).(*ast.SelectorExpr); ok {
		return s.X
	}
	return nil
}

// ExprStr renders an expression (types.ExprString; literals kept short).
func ExprStr(e ast.Expr) string {
	if e == nil {
		return ""
	}
	return types.ExprString(e)
}

// ObjOf resolves an identifier or selector to its object.
func ObjOf(info *types.Info, e ast.Expr) types.Object {
	switch v := Unparen(e).(type) {
	case *ast.Ident:
		if o := info.Uses[v]; o != nil {
			return o
		}
		return info.Defs[v]
	case *ast.SelectorExpr:
		return info.Uses[v.Sel]
	}
	return nil
}

// FieldOf resolves a selector expression x.f to the struct field object.
func FieldOf(info *types.Info, e ast.Expr) *types.Var {
	s, ok := Unparen(e).(*ast.SelectorExpr)
	if !ok {
		return nil
	}
	if sel := info.Selections[s]; sel != nil && sel.Kind() == types.FieldVal {
		if v, ok := sel.Obj().(*types.Var); ok {
			return v
		}
	}
	return nil
}

// ConstInt evaluates a constant integer expression.
func ConstInt(info *types.Info, e ast.Expr) (int64, bool) {
	tv, ok := info.Types[e]
	if !ok || tv.Value == nil {
		return 0, false
	}
	return constToInt(tv)
}

// Mentions reports whether the expression tree uses the object.
func Mentions(info *types.Info, n ast.Node, obj types.Object) bool {
	found := false
	ast.Inspect(n, func(x ast.Node) bool {
		if id, ok := x.(*ast.Ident); ok {
			if info.Uses[id] == obj || info.Defs[id] == obj {
				found = true
			}
		}
		return !found
	})
	return found
}

// MentionsField reports whether the tree selects the given struct field.
func MentionsField(info *types.Info, n ast.Node, field *types.Var) bool {
	found := false
	ast.Inspect(n, func(x ast.Node) bool {
		if s, ok := x.(*ast.SelectorExpr); ok {
			if FieldOf(info, s) == field {
				found = true
			}
		}
		return !found
	})
	return found
}

// IsNilIdent reports whether e is the predeclared nil.
func IsNilIdent(info *types.Info, e ast.Expr) bool {
	id, ok := Unparen(e).(*ast.Ident)
	if !ok {
		return false
	}
	_, isNil := info.Uses[id].(*types.Nil)
	return isNil
}

// Negate flips a comparison operator.
func Negate(op token.Token) token.Token {
	switch op {
	case token.EQL:
		return token.NEQ
	case token.NEQ:
		return token.EQL
	case token.LSS:
		return token.GEQ
	case token.GEQ:
		return token.LSS
	case token.GTR:
		return token.LEQ
	case token.LEQ:
		return token.GTR
	}
	return token.ILLEGAL
}

// ConstValInt returns the integer value of a constant object.
func ConstValInt(c *types.Const) (int64, bool) {
	if c == nil || c.Val() == nil {
		return 0, false
	}
	return constToInt(types.TypeAndValue{Value: c.Val()})
}
