#!/usr/bin/env python3
"""kf.py <property> <rule> <construct> <status known|fixed> <what> [demo] : append to known_findings.json
(for fixed, the current /repo HEAD short hash is recorded)."""
import json, subprocess, sys
prop, rule, construct, status, what = sys.argv[1:6]
demo = sys.argv[6] if len(sys.argv) > 6 else ""
k = json.load(open("/verif/known_findings.json"))
e = {"property": prop, "rule": rule, "construct": construct, "status": status}
if status == "fixed":
    h = subprocess.check_output(["git", "-C", "/repo", "log", "--format=%h", "-1"]).decode().strip()
    e["commit"] = h
    what = f"fixed: property={prop} {h} {what}"
e["what"] = what
if demo: e["demo"] = demo
k.append(e)
json.dump(k, open("/verif/known_findings.json", "w"), indent=1)
print("recorded", status, prop, rule)
