package gateway

import (
	"context"
	"io"
	"os"
	"os/exec"
	"testing"

	hydrapb "github.com/hydraide/hydraide/sdk/go/hydraidego/v3/hydraidepbgo"
	"google.golang.org/grpc"
)

type demoBulkStream struct {
	grpc.ServerStream
	reqs []*hydrapb.DestroyBulkRequest
	last *hydrapb.DestroyBulkResponse
}

func (s *demoBulkStream) Context() context.Context { return context.Background() }
func (s *demoBulkStream) Send(r *hydrapb.DestroyBulkResponse) error {
	s.last = r
	return nil
}
func (s *demoBulkStream) Recv() (*hydrapb.DestroyBulkRequest, error) {
	if len(s.reqs) == 0 {
		return nil, io.EOF
	}
	r := s.reqs[0]
	s.reqs = s.reqs[1:]
	return r, nil
}

// A malformed request must produce an error, never crash the process (C26). DestroyBulk parses
// the swamp name inside worker goroutines that have no recover: a name with fewer than three
// parts panics there and takes the whole server down. The crash happens in a child process.
func TestDemoDestroyBulkMalformedNameCrashesProcess(t *testing.T) {
	if os.Getenv("HV_DEMO_CHILD") == "1" {
		rig := newGatewayPatchTestRig(t, "zz-demo-c26", "bulk", "crash")
		st := &demoBulkStream{reqs: []*hydrapb.DestroyBulkRequest{{Targets: []*hydrapb.DestroyBulkTarget{{IslandID: 1, SwampName: "only-one-part"}}}}}
		err := rig.gw.DestroyBulk(st)
		if err != nil {
			return // an error is fine
		}
		if st.last == nil || st.last.GetFailed() != 1 {
			t.Fatalf("malformed target was not reported as failed: %+v", st.last)
		}
		return
	}
	cmd := exec.Command(os.Args[0], "-test.run", "TestDemoDestroyBulkMalformedNameCrashesProcess")
	cmd.Env = append(os.Environ(), "HV_DEMO_CHILD=1")
	out, err := cmd.CombinedOutput()
	if err != nil {
		s := string(out)
		if i := len(s) - 600; i > 0 {
			s = s[i:]
		}
		t.Fatalf("a DestroyBulk request with a malformed swamp name killed the server process: %v\n...%s", err, s)
	}
}
