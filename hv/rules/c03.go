package rules

import (
	"go/ast"
	"go/token"
	"go/types"
	"strings"

	"hv/core"
)

func init() {
	register("C03", c03)
	register("C04", c04)
	register("C29", c29)
}

func c03(c *core.Ctx) {
	p := c.P
	cg := c.CG()
	c.Explain = "Static necessary conditions for 'compaction never changes the stored state': every creation of the .compact temp writer is preceded, in the same function, by the removal of that path (a leftover temp file can never be appended to, whichever entry point runs); the rename over the real file happens only after the temp writer closed (fsynced) successfully and every failing exit after the temp file exists removes it; the compaction loop writes exactly the index it loaded (range key and value, OpInsert, no filtering) with the name it loaded; the chronicler's writer state is only touched under its mutex and the open writer is closed before the file is compacted."
	c.NotCovered = []string{"equality of the live set before/after on real files", "crash images inside compaction (directory fsync, rename atomicity of the file system)", "the format-migration tool's temp protocol (.fmtmigrate), cross-checked only informally"}

	isTempWriterCall := func(info *types.Info, call *ast.CallExpr) bool {
		return core.IsWsCallTo(info, call, pkgV2+".NewFileWriterWithName", pkgV2+".NewFileWriter")
	}
	rT := c.Rule("C03.temp", "in every compaction function the temp-file writer is created only after os.Remove of the same path on every path (NewFileWriter* opens an existing file for appending)", 2)
	rA := c.Rule("C03.atomic", "os.Rename(temp, final) is reachable only after the temp writer's Close succeeded; every failure exit after the temp writer exists passes os.Remove(temp); the rename target is the compacted file", 4)
	rC := c.Rule("C03.content", "the compaction loop ranges over the loaded index and writes Entry{OpInsert, key, data} for every element, without continue/filter, using the swamp name that was loaded with the index (or passed in)", 4)
	nFuncs := 0
	for _, k := range []string{pkgV2 + ".Compactor.Compact", pkgV2 + ".CompactFromIndex"} {
		f := c.Fn(k)
		info := f.Info()
		fl := core.NewFlow(p, info, f.Decl.Body)
		var mk *ast.CallExpr
		core.Calls(f.Decl.Body, false, func(call *ast.CallExpr) {
			if isTempWriterCall(info, call) && mk == nil {
				mk = call
			}
		})
		if mk == nil {
			rT.Bad(k+":temp-writer", f.Decl.Pos(), "no temp writer creation found (rule needs review)")
			continue
		}
		nFuncs++
		tempObj := core.ObjOf(info, mk.Args[0])
		loc := fl.MustLocate(mk)
		isRemoveTemp := func(c2 *ast.CallExpr) bool {
			return core.IsCallTo(info, c2, "os.Remove") && len(c2.Args) == 1 && tempObj != nil && core.ObjOf(info, c2.Args[0]) == tempObj
		}
		// removal dominates creation: no path from entry to the creation avoiding a removal
		reachable, _ := fl.CanReach(fl.Entry(), nil, core.NodeHasCall(isRemoveTemp), core.ContainsNode(mk))
		rT.Check(!reachable, k+":remove-before-create", mk.Pos(), "os.Remove(temp) on every path before the temp writer is created",
			"the temp writer is created without removing a leftover temp file first: NewFileWriterWithName appends to the stale file and the rename publishes its old records (deleted keys reappear)")
		// temp path derives from the target path + ".compact"
		_ = loc

		// rename
		var ren, wclose *ast.CallExpr
		writerObj := types.Object(nil)
		ast.Inspect(f.Decl.Body, func(x ast.Node) bool {
			if as, ok := x.(*ast.AssignStmt); ok && len(as.Rhs) == 1 && core.Unparen(as.Rhs[0]) == ast.Expr(mk) {
				writerObj = core.ObjOf(info, as.Lhs[0])
			}
			return true
		})
		core.Calls(f.Decl.Body, false, func(call *ast.CallExpr) {
			if core.IsCallTo(info, call, "os.Rename") {
				ren = call
			}
		})
		// the Close whose error is tested (not the abandon-close on error paths)
		core.Calls(f.Decl.Body, false, func(call *ast.CallExpr) {
			if core.IsWsCallTo(info, call, pkgV2+".FileWriter.Close") && core.ObjOf(info, core.RecvExpr(call)) == writerObj {
				if core.ErrObjOfCall(info, f.Decl.Body, call) != nil {
					wclose = call
				}
			}
		})
		if ren == nil || wclose == nil {
			rA.Bad(k+":rename", f.Decl.Pos(), "no rename or no checked writer.Close found")
		} else {
			ok, why := fl.OnlyAfterSuccess(f.Decl.Body, wclose, ren)
			rA.Check(ok, k+":close-then-rename", ren.Pos(), "rename only after the temp file was closed and fsynced successfully", "the temp file can be renamed over the swamp file although closing/syncing it failed ("+why+")")
			srcOK := len(ren.Args) == 2 && core.ObjOf(info, ren.Args[0]) == tempObj
			rA.Check(srcOK, k+":rename-source", ren.Pos(), "renames the temp file", "the rename does not move the temp file")
		}
		// every failing exit after creation removes the temp: for each return after mk whose last result is a non-nil error
		leaks := false
		fl.Nodes(func(l core.Loc, n ast.Node) {
			ret, ok := n.(*ast.ReturnStmt)
			if !ok || len(ret.Results) == 0 {
				return
			}
			last := ret.Results[len(ret.Results)-1]
			if core.IsNilIdent(info, last) {
				return
			}
			if !fl.Dominates(loc, l) || l == loc {
				return
			}
			// creation failed itself: nothing to remove
			if edges, ok := fl.FailEdgesOfCall(f.Decl.Body, mk); ok {
				only := true
				for e := range edges {
					tgt := int(fl.G.Blocks[e.From].Succs[e.Succ].Index)
					if !fl.BlockDom(tgt, l.B) {
						only = false
					}
				}
				if only {
					return
				}
			}
			// rename already done: temp no longer exists
			if ren != nil {
				if lr, ok := fl.Locate(ren); ok && fl.Dominates(lr, l) {
					if es, ok := fl.FailEdgesOfCall(f.Decl.Body, ren); ok {
						onFail := false
						for e := range es {
							tgt := int(fl.G.Blocks[e.From].Succs[e.Succ].Index)
							if fl.BlockDom(tgt, l.B) {
								onFail = true
							}
						}
						if !onFail {
							return
						}
					}
				}
			}
			// some removal must dominate this return after the creation
			found := false
			fl.Nodes(func(l2 core.Loc, n2 ast.Node) {
				if core.NodeHasCall(isRemoveTemp)(n2) && fl.Dominates(loc, l2) && fl.Dominates(l2, l) && l2 != loc {
					found = true
				}
			})
			if !found {
				leaks = true
			}
		})
		rA.Check(!leaks, k+":error-exits-remove-temp", f.Decl.Pos(), "every failing exit after the temp file exists removes it", "a failing exit leaves the temp file behind")

		// content
		var loop *ast.RangeStmt
		ast.Inspect(f.Decl.Body, func(x ast.Node) bool {
			if rs, ok := x.(*ast.RangeStmt); ok {
				if _, isMap := info.TypeOf(rs.X).Underlying().(*types.Map); isMap {
					loop = rs
				}
			}
			return true
		})
		if loop == nil {
			rC.Bad(k+":loop", f.Decl.Pos(), "no range over the index map")
			continue
		}
		keyObj, valObj := core.ObjOf(info, loop.Key), core.ObjOf(info, loop.Value)
		entryOK, opOK := false, false
		ast.Inspect(loop.Body, func(x ast.Node) bool {
			cl, ok := x.(*ast.CompositeLit)
			if !ok {
				return true
			}
			var op, key, data ast.Expr
			for i, el := range cl.Elts {
				if kv, ok := el.(*ast.KeyValueExpr); ok {
					switch kv.Key.(*ast.Ident).Name {
					case "Operation":
						op = kv.Value
					case "Key":
						key = kv.Value
					case "Data":
						data = kv.Value
					}
				} else {
					switch i {
					case 0:
						op = el
					case 1:
						key = el
					case 2:
						data = el
					}
				}
			}
			if key != nil && data != nil && core.ObjOf(info, key) == keyObj && core.ObjOf(info, data) == valObj {
				entryOK = true
			}
			if o, ok := core.ObjOf(info, op).(*types.Const); ok && o.Name() == "OpInsert" {
				opOK = true
			}
			return true
		})
		filtered := false
		ast.Inspect(loop.Body, func(x ast.Node) bool {
			if br, ok := x.(*ast.BranchStmt); ok && (br.Tok == token.CONTINUE || br.Tok == token.BREAK) {
				filtered = true
			}
			return true
		})
		// WriteEntry is not nested under a condition other than its own error test
		uncond := false
		for _, st := range loop.Body.List {
			core.Calls(st, false, func(call *ast.CallExpr) {
				if core.IsWsCallTo(info, call, pkgV2+".FileWriter.WriteEntry") {
					if is, ok := st.(*ast.IfStmt); ok && is.Init != nil && is.Init.Pos() <= call.Pos() && call.End() <= is.Init.End() {
						uncond = true
					}
					if _, ok := st.(*ast.AssignStmt); ok {
						uncond = true
					}
				}
			})
		}
		rC.Check(entryOK && opOK && !filtered && uncond, k+":loop-writes-index", loop.Pos(), "Entry{OpInsert, key, data} for every element",
			"the compaction loop does not write every (key, data) of the index as OpInsert (entry="+b2s(entryOK)+" opInsert="+b2s(opOK)+" filtered="+b2s(filtered)+" unconditionalWrite="+b2s(uncond)+")")
		// the index ranged over comes from LoadIndex (or is the parameter) and the name passed to the writer is LoadIndex's second result / the parameter
		idxObj := core.ObjOf(info, loop.X)
		nameArg := mk.Args[len(mk.Args)-1]
		nameObj := core.ObjOf(info, nameArg)
		srcOK := false
		isParam := func(o types.Object) bool {
			sig := f.Obj.Type().(*types.Signature)
			for i := 0; i < sig.Params().Len(); i++ {
				if sig.Params().At(i) == o {
					return true
				}
			}
			return false
		}
		if isParam(idxObj) && isParam(nameObj) {
			srcOK = true
		}
		ast.Inspect(f.Decl.Body, func(x ast.Node) bool {
			if as, ok := x.(*ast.AssignStmt); ok && len(as.Rhs) == 1 && len(as.Lhs) == 3 {
				if call, ok := core.Unparen(as.Rhs[0]).(*ast.CallExpr); ok && core.IsWsCallTo(info, call, pkgV2+".FileReader.LoadIndex") {
					if core.ObjOf(info, as.Lhs[0]) == idxObj && core.ObjOf(info, as.Lhs[1]) == nameObj {
						srcOK = true
					}
				}
			}
			return true
		})
		rC.Check(srcOK && len(mk.Args) == 3, k+":index-and-name-source", mk.Pos(), "index and swamp name come from the same LoadIndex call (or the parameters)", "the compacted file is not written from the loaded index with its loaded swamp name (the name would be lost or replaced)")
	}
	if nFuncs < 2 {
		rT.Bad(pkgV2+":compaction-functions", token.NoPos, "fewer than two compaction functions found")
	}

	// entry points (evidence + who-may-call): every caller of Compact / CompactFromIndex
	rW := c.Rule("C03.entrypoints", "Compactor.Compact and CompactFromIndex are called only from the known entry points (inline/forced/CLI/load); the chronicler closes its open writer before compacting the file in place", 4)
	allowed := map[string]bool{
		pkgV2 + ".Compactor.CompactIfNeeded": true, pkgV2 + ".Compactor.ForceCompact": true,
		pkgChron + ".chroniclerV2.runCompactionLocked": true, pkgChron + ".chroniclerV2.Load": true,
		"app/hydraidectl/cmd.compactSwamp": true,
	}
	for _, k := range []string{pkgV2 + ".Compactor.Compact", pkgV2 + ".CompactFromIndex"} {
		for _, s := range cg.CallersOf(c.Fn(k)) {
			c.Touch(s.Caller)
			rW.Check(allowed[s.Caller.Key], s.Caller.Key+"->"+k, s.Call.Pos(), "known entry point (relies on the callee removing a leftover temp file itself)", "new compaction entry point: confirm it cannot run while a writer has the file open")
		}
	}
	closeBeforeCompact(c, rW)

	rX := c.Rule("C03.excl", "chroniclerV2.writer, writerClosed, totalEntriesInFile and lastFragmentation are only touched with c.mu held (compaction and writes are mutually exclusive)", 20)
	core.ReportGuarded(c, rX, core.CheckGuarded(p, core.GuardSpec{
		Pkg: pkgChron, Type: "chroniclerV2", Fields: []string{"writer", "writerClosed", "totalEntriesInFile", "lastFragmentation"}, Locks: []string{"mu"}, ReadsNeedLock: true,
	}))
}

func c04(c *core.Ctx) {
	p := c.P
	c.Explain = "Static necessary conditions for safe loading of damaged files: allocation sizes taken from 32/64-bit file fields are compared against an upper bound on every path before make (16-bit sizes are bounded by type); in ParseBlock decompression and entry decoding are reachable only after the CRC matched and the uncompressed size matched; the header magic and version are checked before any other field is trusted and a reader uses a header only after Deserialize succeeded; every index/slice expression of the four Deserialize functions is within range on every path (SSA linear-form guard discharge)."
	c.NotCovered = []string{"all byte strings (no fuzzing in this family)", "memory allocated inside the snappy decoder", "ParseBlock's uncompressed[offset:] (needs the post-condition 'Deserialize consumes <= len(buf)')", "hangs (loop progress)"}

	rA := c.Rule("C04.alloc", "a make() whose size comes from a 32/64-bit field read from the file is dominated by a comparison of that size against an upper bound (file size / remaining bytes / buffer length)", 3)
	for _, f := range p.FuncsIn(pkgV2) {
		if f.Decl.Body == nil {
			continue
		}
		if !(strings.Contains(f.Key, "FileReader") || strings.Contains(f.Key, "Deserialize") || strings.Contains(f.Key, "ParseBlock") || strings.Contains(f.Key, "NewFileReader") || strings.Contains(f.Key, "ReadSwampName")) {
			continue
		}
		info := f.Info()
		var fl *core.Flow
		core.Calls(f.Decl.Body, true, func(call *ast.CallExpr) {
			if !isBuiltinCall(info, call, "make") || len(call.Args) < 2 {
				return
			}
			for _, szArg := range call.Args[1:] {
				sz := stripConv(info, szArg)
				// source: a struct field of a header type, or a local defined from binary.*.UintN
				bits := 0
				src := core.ExprStr(sz)
				if fld := core.FieldOf(info, sz); fld != nil {
					if b, u := intBitsOf(fld.Type()); u {
						bits = b
					}
				} else if obj := core.ObjOf(info, sz); obj != nil {
					if def := localDef(info, f.Decl.Body, obj); def != nil {
						ast.Inspect(def, func(y ast.Node) bool {
							if c2, ok := y.(*ast.CallExpr); ok {
								if put, w, ok := endianWidth(info, c2); ok && !put {
									bits = int(w) * 8
								}
							}
							return true
						})
					}
				}
				if bits == 0 {
					continue // not a file-derived size (len(...) of in-memory data etc.)
				}
				c.Touch(f)
				construct := f.Key + ":make(" + src + ")"
				if bits <= 16 {
					rA.Ok(construct, call.Pos(), "16-bit size: at most 65535 elements")
					continue
				}
				body := core.BodyContaining(f.Decl, call)
				if fl == nil || fl.Body != body {
					fl = core.NewFlow(p, info, body)
				}
				loc, ok := fl.Locate(call)
				if !ok {
					continue
				}
				bounded := holdsAt(fl, body, loc, func(ft core.Fact) bool {
					return cmpFact(ft, func(x ast.Expr, op token.Token, y ast.Expr) bool {
						// size <= something, or something >= ...+size
						mentions := func(e ast.Expr) bool {
							m := false
							ast.Inspect(e, func(z ast.Node) bool {
								if ze, ok := z.(ast.Expr); ok && core.ExprStr(ze) == src {
									m = true
								}
								return !m
							})
							return m
						}
						if mentions(x) && !mentions(y) && (op == token.LEQ || op == token.LSS) {
							return true
						}
						if mentions(y) && !mentions(x) && (op == token.GEQ || op == token.GTR) {
							return true
						}
						return false
					})
				})
				rA.Check(bounded, construct, call.Pos(), "size compared with an upper bound before allocating", "a "+itoa(bits)+"-bit size read from the file is used in make() without an upper bound: a damaged field makes the loader allocate gigabytes")
			}
		})
	}

	rC := c.Rule("C04.crc", "ParseBlock: the decompressor and Entry.Deserialize are reachable only when ValidateChecksum returned true; entry decoding only after the uncompressed length equals the header's UncompressedSize; Entry.Deserialize has no other production caller", 4)
	{
		f := c.Fn(pkgV2 + ".ParseBlock")
		info := f.Info()
		fl := core.NewFlow(p, info, f.Decl.Body)
		var deco, deser *ast.CallExpr
		core.Calls(f.Decl.Body, false, func(call *ast.CallExpr) {
			if fo := core.Callee(info, call); fo != nil && fo.Name() == "Decompress" {
				deco = call
			}
			if core.IsWsCallTo(info, call, pkgV2+".Entry.Deserialize") {
				deser = call
			}
		})
		crcAtom := func(ft core.Fact) bool {
			call, ok := core.Unparen(ft.Expr).(*ast.CallExpr)
			return ok && ft.Truth && core.IsWsCallTo(info, call, pkgV2+".ValidateChecksum")
		}
		sizeAtom := func(ft core.Fact) bool {
			return cmpFact(ft, func(x ast.Expr, op token.Token, y ast.Expr) bool {
				fld := core.FieldOf(info, y)
				return op == token.EQL && fld != nil && fld.Name() == "UncompressedSize"
			})
		}
		for _, it := range []struct {
			name string
			call *ast.CallExpr
			atom func(core.Fact) bool
			bad  string
		}{
			{"decompress-after-crc", deco, crcAtom, "data is decompressed although the block checksum was not verified: damaged bytes are decoded"},
			{"entries-after-crc", deser, crcAtom, "entries are decoded although the block checksum was not verified"},
			{"entries-after-size-check", deser, sizeAtom, "entries are decoded without checking the uncompressed size against the header"},
		} {
			if it.call == nil {
				rC.Bad(f.Key+":"+it.name, f.Decl.Pos(), "call not found")
				continue
			}
			loc := fl.MustLocate(it.call)
			rC.Check(holdsAt(fl, f.Decl.Body, loc, it.atom), f.Key+":"+it.name, it.call.Pos(), "guarded", it.bad)
		}
		callers := c.CG().CallersOf(c.Fn(pkgV2 + ".Entry.Deserialize"))
		only := true
		for _, s := range callers {
			if s.Caller.Key != f.Key {
				only = false
			}
		}
		rC.Check(only && len(callers) > 0, pkgV2+".Entry.Deserialize:callers", f.Decl.Pos(), "only ParseBlock decodes entries", "Entry.Deserialize is called outside ParseBlock (bytes that were not checksum-verified may be decoded)")
	}

	rM := c.Rule("C04.magic", "FileHeader.Deserialize checks the magic bytes and the version before any other header field is assigned; NewFileReader and the appending writer use the header only after Deserialize succeeded", 3)
	{
		f := c.Fn(pkgV2 + ".FileHeader.Deserialize")
		info := f.Info()
		fl := core.NewFlow(p, info, f.Decl.Body)
		owner := p.Named(pkgV2, "FileHeader")
		st := owner.Underlying().(*types.Struct)
		own := map[*types.Var]bool{}
		for i := 0; i < st.NumFields(); i++ {
			own[st.Field(i)] = true
		}
		bad := ""
		for _, a := range core.Accesses(info, f.Decl.Body, own, false) {
			if !a.Write || a.Field.Name() == "Magic" || a.Field.Name() == "Version" {
				continue
			}
			loc, ok := fl.Locate(a.Node)
			if !ok {
				continue
			}
			magicOK := holdsAt(fl, f.Decl.Body, loc, func(ft core.Fact) bool {
				return cmpFact(ft, func(x ast.Expr, op token.Token, y ast.Expr) bool {
					o := core.ObjOf(info, y)
					return op == token.EQL && o != nil && o.Name() == "MagicBytes"
				})
			})
			verOK := false
			for _, cnd := range fl.CondsAt(loc) {
				if !cnd.Truth && strings.Contains(core.ExprStr(cnd.Expr), "Version") && strings.Contains(core.ExprStr(cnd.Expr), "!=") {
					verOK = true
				}
			}
			if !magicOK || !verOK {
				bad = a.Field.Name()
			}
		}
		rM.Check(bad == "", f.Key+":magic+version-first", f.Decl.Pos(), "all other fields assigned after the magic and version checks", "field "+bad+" is decoded before the magic/version check: a non-HydrAIDE file is partially trusted")
		for _, k := range []string{pkgV2 + ".NewFileReader", pkgV2 + ".FileWriter.openExistingFile"} {
			g := c.Fn(k)
			ginfo := g.Info()
			gfl := core.NewFlow(p, ginfo, g.Decl.Body)
			var des *ast.CallExpr
			core.Calls(g.Decl.Body, false, func(call *ast.CallExpr) {
				if core.IsWsCallTo(ginfo, call, pkgV2+".FileHeader.Deserialize") {
					des = call
				}
			})
			ok := des != nil
			if ok {
				gfl.Nodes(func(l core.Loc, n ast.Node) {
					ret, isRet := n.(*ast.ReturnStmt)
					if !isRet || len(ret.Results) == 0 || !core.IsNilIdent(ginfo, ret.Results[len(ret.Results)-1]) {
						return
					}
					if good, _ := gfl.OnlyAfterSuccess(g.Decl.Body, des, ret); !good {
						ok = false
					}
				})
			}
			rM.Check(ok, k+":header-validated", g.Decl.Pos(), "success only after Deserialize succeeded", k+" can succeed with a header that failed validation")
		}
	}

	rB := c.Rule("C04.bounds", "every index/slice expression in FileHeader/BlockHeader/Entry/SwampMetadata.Deserialize is within range on every path", 40)
	for _, k := range []string{pkgV2 + ".FileHeader.Deserialize", pkgV2 + ".BlockHeader.Deserialize", pkgV2 + ".Entry.Deserialize", pkgV2 + ".SwampMetadata.Deserialize"} {
		core.ReportBounds(c, rB, c.Fn(k), nil)
	}
}

func intBitsOf(t types.Type) (int, bool) {
	b, ok := t.Underlying().(*types.Basic)
	if !ok {
		return 0, false
	}
	switch b.Kind() {
	case types.Uint8:
		return 8, true
	case types.Uint16:
		return 16, true
	case types.Uint32:
		return 32, true
	case types.Uint64, types.Uint:
		return 64, true
	}
	return 0, false
}

func itoa(i int) string {
	return strings.TrimSpace(strings.Replace(" "+string(rune('0'+i/10))+string(rune('0'+i%10)), " 0", " ", 1))
}

func c29(c *core.Ctx) {
	p := c.P
	cg := c.CG()
	c.Explain = "Static necessary conditions for 'fast name discovery agrees with the stored name': writer and reader agree on the name area (NameLength field range, name written right after the header, read with that length, data starts behind it); every call that can create a .hyd passes a swamp name that derives from the chronicler's name / the loaded name / a parameter, never a constant, and production builds the V2 chronicler only through NewV2WithName; the metadata-entry key used by the fallback lookup has one value across reader, explorer, CLI and migrator."
	c.NotCovered = []string{"that the explorer listing equals the directory contents (decided only: a successful rescan starts from an empty index and inserts)", "legacy V1 folders (name stored in meta file)", "runtime equality of written and read names"}

	rL := c.Rule("C29.layout", "NameLength has the same byte range in FileHeader.Serialize and Deserialize; NewFileReader reads exactly NameLength bytes right after the header; createNewFile sets NameLength from the bytes it writes", 3)
	{
		owner := p.Named(pkgV2, "FileHeader")
		sl, _ := fixedLayout(c.Fn(pkgV2+".FileHeader.Serialize"), owner)
		dl, _ := fixedLayout(c.Fn(pkgV2+".FileHeader.Deserialize"), owner)
		a, okA := sl["NameLength"]
		b, okB := dl["NameLength"]
		rL.Check(okA && okB && a.lo == b.lo && a.hi == b.hi && a.width == 2 && b.width == 2, pkgV2+".FileHeader.NameLength", a.pos, "same 2-byte range", "NameLength is written and read at different places")
		nr := c.Fn(pkgV2 + ".NewFileReader")
		info := nr.Info()
		ok := false
		ast.Inspect(nr.Decl.Body, func(x ast.Node) bool {
			as, isAs := x.(*ast.AssignStmt)
			if !isAs || len(as.Rhs) != 1 {
				return true
			}
			if mk, isCall := core.Unparen(as.Rhs[0]).(*ast.CallExpr); isCall && isBuiltinCall(info, mk, "make") && len(mk.Args) == 2 {
				if fld := core.FieldOf(info, mk.Args[1]); fld != nil && fld.Name() == "NameLength" {
					bufObj := core.ObjOf(info, as.Lhs[0])
					core.Calls(nr.Decl.Body, false, func(call *ast.CallExpr) {
						if core.IsCallTo(info, call, "io.ReadFull") && len(call.Args) == 2 && core.ObjOf(info, call.Args[1]) == bufObj {
							ok = true
						}
					})
				}
			}
			return true
		})
		rL.Check(ok, nr.Key+":read-name", nr.Decl.Pos(), "reads NameLength bytes after the header", "the reader does not read exactly NameLength bytes of name")
		cr := c.Fn(pkgV2 + ".FileWriter.createNewFile")
		cinfo := cr.Info()
		set := false
		for _, ac := range core.Accesses(cinfo, cr.Decl.Body, nil, false) {
			if ac.Write && ac.Field.Name() == "NameLength" {
				as := ac.Node.(*ast.AssignStmt)
				// rhs: uint16(len(nameBytes)) and nameBytes is what gets written
				var lenArg types.Object
				ast.Inspect(as.Rhs[0], func(y ast.Node) bool {
					if c2, ok := y.(*ast.CallExpr); ok && isBuiltinCall(cinfo, c2, "len") {
						lenArg = core.ObjOf(cinfo, c2.Args[0])
					}
					return true
				})
				core.Calls(cr.Decl.Body, false, func(call *ast.CallExpr) {
					if core.IsCallTo(cinfo, call, "os.File.Write") && len(call.Args) == 1 && lenArg != nil && core.ObjOf(cinfo, call.Args[0]) == lenArg {
						set = true
					}
				})
			}
		}
		rL.Check(set, cr.Key+":NameLength=len(written name)", cr.Decl.Pos(), "NameLength is the length of the bytes written", "NameLength is not the length of the name bytes that are written")
	}

	rP := c.Rule("C29.propagate", "every NewFileWriterWithName call passes a non-constant swamp name (a name field, LoadIndex's result or a parameter); the unnamed NewFileWriter is used in production only to append to an existing file; NewV2 / NewV2WithConfig (nameless chronicler) have no production caller", 4)
	withName := c.Fn(pkgV2 + ".NewFileWriterWithName")
	for _, s := range cg.CallersOf(withName) {
		c.Touch(s.Caller)
		info := s.Caller.Info()
		arg := s.Call.Args[len(s.Call.Args)-1]
		_, isLit := core.Unparen(arg).(*ast.BasicLit)
		tv := info.Types[arg]
		rP.Check(!isLit && tv.Value == nil, s.Caller.Key+"->NewFileWriterWithName("+core.ExprStr(arg)+")", s.Call.Pos(), "name is a variable", "a storage file is created with a constant/empty swamp name: the fast name lookup returns the wrong name")
	}
	plain := c.Fn(pkgV2 + ".NewFileWriter")
	for _, s := range cg.CallersOf(plain) {
		c.Touch(s.Caller)
		if strings.HasPrefix(s.Caller.Key, "app/hydraidectl") {
			continue
		}
		info := s.Caller.Info()
		ok := false
		if s.Caller.Key == pkgChron+".chroniclerV2.ensureWriter" {
			// the plain constructor must sit on the branch that is not (isNewFile && swampName != "")
			fl := core.NewFlow(p, info, s.Caller.Decl.Body)
			if loc, found := fl.Locate(s.Call); found {
				// bool locals set to true only where os.IsNotExist reported the file missing
				missingFlag := map[types.Object]bool{}
				ast.Inspect(s.Caller.Decl.Body, func(x ast.Node) bool {
					is, isIf := x.(*ast.IfStmt)
					if !isIf {
						return true
					}
					notExist := false
					core.Calls(is.Cond, false, func(c2 *ast.CallExpr) {
						if core.IsCallTo(info, c2, "os.IsNotExist") {
							notExist = true
						}
					})
					if !notExist {
						return true
					}
					for _, st := range is.Body.List {
						if as, isAs := st.(*ast.AssignStmt); isAs && len(as.Lhs) == 1 && len(as.Rhs) == 1 {
							if v, isB := core.BoolLit(info, as.Rhs[0]); isB && v {
								missingFlag[core.ObjOf(info, as.Lhs[0])] = true
							}
						}
					}
					return true
				})
				nameF := core.StructFields(mustStruct(p, pkgChron, "chroniclerV2"))["swampName"]
				for _, cnd := range fl.CondsAt(loc) {
					if cnd.Truth {
						continue
					}
					hasFlag, hasName := false, false
					ast.Inspect(cnd.Expr, func(y ast.Node) bool {
						if id, isId := y.(*ast.Ident); isId && missingFlag[info.Uses[id]] {
							hasFlag = true
						}
						if sel, isSel := y.(*ast.SelectorExpr); isSel && nameF != nil && core.FieldOf(info, sel) == nameF {
							hasName = true
						}
						return true
					})
					if hasFlag && hasName {
						ok = true
					}
				}
			}
		}
		rP.Check(ok, s.Caller.Key+"->NewFileWriter", s.Call.Pos(), "only when the file exists already or no name is known", "a new storage file can be created without its swamp name")
	}
	for _, k := range []string{pkgChron + ".NewV2", pkgChron + ".NewV2WithConfig"} {
		f := c.Fn(k)
		n := 0
		for _, s := range cg.CallersOf(f) {
			_ = s
			n++
		}
		rP.Check(n == 0, k+":production-callers", f.Decl.Pos(), "no non-test caller", "production code builds a nameless V2 chronicler: files it creates carry no swamp name")
	}

	rNR := c.Rule("C29.norecreate", "a storage file that exists is never created anew: every call to a function that calls os.Create on the writer's path is made on the branch where os.IsNotExist reported the file missing (an existing file keeps the name stored in it; the writer that opens it for appending carries no name)", 2)
	{
		var creators []*core.Func
		for _, f := range p.FuncsIn(pkgV2) {
			if f.Decl.Body == nil {
				continue
			}
			isCreator := false
			core.Calls(f.Decl.Body, false, func(call *ast.CallExpr) {
				if core.IsCallTo(f.Info(), call, "os.Create") {
					isCreator = true
				}
			})
			if isCreator && f.Decl.Recv != nil {
				creators = append(creators, f)
				c.Touch(f)
			}
		}
		n := 0
		for _, cr := range creators {
			for _, s := range c.CG().In[cr] {
				if s.Caller == nil || s.Caller.Decl.Body == nil {
					continue
				}
				n++
				ci := s.Caller.Info()
				body := core.BodyContaining(s.Caller.Decl, s.Call)
				cfl := core.NewFlow(p, ci, body)
				l, ok := cfl.Locate(s.Call)
				missing := false
				if ok {
					for _, ft := range cfl.FactsAt(l) {
						if gc, isCall := core.Unparen(ft.Expr).(*ast.CallExpr); isCall && ft.Truth && core.IsCallTo(ci, gc, "os.IsNotExist") {
							missing = true
						}
						if gc, isCall := core.Unparen(ft.Expr).(*ast.CallExpr); isCall && ft.Truth && core.IsCallTo(ci, gc, "errors.Is") && len(gc.Args) == 2 && strings.Contains(core.ExprStr(gc.Args[1]), "ErrNotExist") {
							missing = true
						}
					}
				}
				rNR.Check(missing, s.Caller.Key+"->"+cr.Obj.Name(), s.Call.Pos(), "only when the file does not exist", "the file is created anew although it may exist: os.Create empties it and the name area is rewritten with this writer's name - empty for a writer that was opened to append - so the stored swamp name is lost (and with it every block already in the file)")
			}
		}
		if n == 0 {
			rNR.Bad(pkgV2+":file-creators", token.NoPos, "no caller of a file-creating writer method found")
		}
	}

	// C29.listing: a scan that reports success has replaced the previous listing.
	rLs := c.Rule("C29.listing", "the explorer's listing is rebuilt by every scan that reports success: on every path from the entry of Explorer.Scan to a return that can carry a nil error the root of the index the List*/Get* methods read has been reset (assigned a fresh container) - in Scan itself or in a function it calls, on each of that function's own success exits - and the scan inserts into an index (a swamp removed from disk cannot survive a successful rescan, whatever the new scan found)", 2)
	{
		const pkgExplorer = "app/server/explorer"
		scan := c.Fn(pkgExplorer + ".Explorer.Scan")
		// the index type: the struct whose map-typed root fields are assigned wholesale somewhere and
		// read by the listing methods; found through the field of Explorer that ListSwamps reads
		lister := c.Fn(pkgExplorer + ".Explorer.ListSwamps")
		var idxField *types.Var
		for _, a := range core.Accesses(lister.Info(), lister.Decl.Body, nil, false) {
			if !a.Write && a.Field != nil {
				if _, isPtr := a.Field.Type().(*types.Pointer); isPtr {
					idxField = a.Field
				}
			}
		}
		var roots = map[*types.Var]bool{}
		if idxField != nil {
			if st, ok := idxField.Type().(*types.Pointer).Elem().Underlying().(*types.Struct); ok {
				for i := 0; i < st.NumFields(); i++ {
					if _, isMap := st.Field(i).Type().Underlying().(*types.Map); isMap {
						roots[st.Field(i)] = true
					}
				}
			}
		}
		if idxField == nil || len(roots) == 0 {
			rLs.Bad(pkgExplorer+":index-root", lister.Decl.Pos(), "cannot identify the index the listing methods read (rule needs review)")
		} else {
			// direct resetters: functions that assign a root wholesale on every path
			direct := map[*core.Func]bool{}
			inserter := map[*core.Func]bool{}
			for _, g := range p.FuncsIn(pkgExplorer) {
				if g.Decl.Body == nil {
					continue
				}
				for _, a := range core.Accesses(g.Info(), g.Decl.Body, roots, false) {
					if a.Write && a.Form == "assign" {
						fl := core.NewFlow(p, g.Info(), g.Decl.Body)
						if !fl.ExitWithout(fl.Entry(), nil, false, core.ContainsNode(a.Node)) || len(fl.G.Blocks) == 1 {
							direct[g] = true
						}
					}
					if a.Write && a.Form == "elem" {
						inserter[g] = true
					}
				}
			}
			// success-capable returns of f that are reachable without a reset
			var missing func(f *core.Func, depth int) []*ast.ReturnStmt
			memo := map[*core.Func][]*ast.ReturnStmt{}
			done := map[*core.Func]bool{}
			missing = func(f *core.Func, depth int) []*ast.ReturnStmt {
				if done[f] {
					return memo[f]
				}
				info := f.Info()
				fl := core.NewFlow(p, info, f.Decl.Body)
				isReset := core.NodeHasCall(func(call *ast.CallExpr) bool {
					g := p.ByObj[core.Callee(info, call)]
					if g == nil || g == f || g.Decl.Body == nil {
						return false
					}
					if direct[g] {
						return true
					}
					if depth < 2 && g.Pkg == f.Pkg {
						sig, _ := g.Obj.Type().(*types.Signature)
						if sig != nil && core.ReturnsError(sig) {
							return len(missing(g, depth+1)) == 0
						}
					}
					return false
				})
				var out []*ast.ReturnStmt
				fl.Nodes(func(l core.Loc, n ast.Node) {
					ret, ok := n.(*ast.ReturnStmt)
					if !ok {
						return
					}
					if len(ret.Results) > 0 {
						last := core.Unparen(ret.Results[len(ret.Results)-1])
						if call, isCall := last.(*ast.CallExpr); isCall && core.IsCallTo(info, call, "fmt.Errorf", "errors.New") {
							return
						}
						if obj := core.ObjOf(info, last); obj != nil {
							nonNil := false
							for _, ft := range fl.FactsAt(l) {
								cmpFact(ft, func(x ast.Expr, op token.Token, y ast.Expr) bool {
									if op == token.NEQ && core.ObjOf(info, x) == obj && core.IsNilIdent(info, y) {
										nonNil = true
									}
									return false
								})
							}
							if nonNil {
								return
							}
						}
					}
					if r, _ := fl.CanReach(fl.Entry(), nil, isReset, core.ContainsNode(ret)); r {
						out = append(out, ret)
					}
				})
				done[f] = true
				memo[f] = out
				return out
			}
			miss := missing(scan, 0)
			if len(miss) > 0 {
				rLs.Bad(scan.Key+":success-implies-reset", miss[0].Pos(), "Scan can report success on a path on which the previous listing was never reset (neither here nor on every success exit of the function it calls): swamps that were removed from disk stay in ListSwamps / GetSwampDetail after the rescan")
			} else {
				rLs.Ok(scan.Key+":success-implies-reset", scan.Decl.Pos(), "every success-capable return follows a reset of the index root")
			}
			// the scan inserts what it finds
			ins := false
			for g := range inserter {
				if cg.ReachersOf(g)[scan] {
					ins = true
				}
			}
			rLs.Check(ins, scan.Key+":scan-inserts", scan.Decl.Pos(), "a function that inserts into the index is reachable from Scan", "nothing reachable from Scan inserts into the index any more")
		}
	}

	rK := c.Rule("C29.const", "the metadata entry key constants of the reader and the migrator have the same value, and every comparison of an entry key against the metadata key uses one of them", 2)
	a := p.Const(pkgV2, "MetadataEntryKey")
	b := p.Const(pkgV2+"/migrator", "MetadataEntryKey")
	rK.Check(a.Val().ExactString() == b.Val().ExactString(), "MetadataEntryKey:reader=migrator", a.Pos(), a.Val().ExactString(), "reader uses "+a.Val().ExactString()+" but the migrator writes "+b.Val().ExactString()+": migrated files lose their name")
	nUses := 0
	for _, f := range p.FuncsUnder("app/") {
		if f.Decl.Body == nil {
			continue
		}
		info := f.Info()
		ast.Inspect(f.Decl.Body, func(x ast.Node) bool {
			be, ok := x.(*ast.BinaryExpr)
			if !ok || (be.Op != token.EQL && be.Op != token.NEQ) {
				return true
			}
			for _, pair := range [][2]ast.Expr{{be.X, be.Y}, {be.Y, be.X}} {
				if fld := core.FieldOf(info, pair[0]); fld != nil && fld.Name() == "Key" && namedOf(info.TypeOf(core.Unparen(pair[0]).(*ast.SelectorExpr).X)) == p.Named(pkgV2, "Entry") {
					if tv, ok := info.Types[pair[1]]; ok && tv.Value != nil && strings.Contains(tv.Value.ExactString(), "meta") {
						nUses++
						c.Touch(f)
						rK.Check(tv.Value.ExactString() == a.Val().ExactString(), f.Key+":entry.Key=="+tv.Value.ExactString(), be.Pos(), "same key", "compares against a different metadata key")
					}
				}
			}
			return true
		})
	}
	_ = nUses
}

// closeBeforeCompact: wherever the chronicler compacts its own file in place (a call to
// Compactor.Compact from a chroniclerV2 method), the open writer is closed - and with it the
// buffered entries flushed into the file that is about to be rewritten - before the compaction,
// not after it and not by a defer: a call that closes the FileWriter (directly, or through a
// helper of the package that does) dominates the Compact call, either itself or through the
// `if writer open` test that guards it.
func closeBeforeCompact(c *core.Ctx, r *core.Rule) {
	p := c.P
	// helpers of the chronicler package that close the writer on all paths where it is open
	closers := map[*core.Func]bool{}
	for _, g := range p.FuncsIn(pkgChron) {
		if g.Decl.Body == nil {
			continue
		}
		n := len(core.FindCalls(g.Decl.Body, false, func(c2 *ast.CallExpr) bool { return core.IsWsCallTo(g.Info(), c2, pkgV2+".FileWriter.Close") }))
		if n > 0 {
			closers[g] = true
		}
	}
	// the writer field (by type) and its "closed" flags: bool fields of the same struct that are set to
	// true in a function that closes the writer and to false in a function that stores a new writer
	var writerF *types.Var
	closedFlags := map[*types.Var]bool{}
	if _, st := p.StructOf(pkgChron, "chroniclerV2"); st != nil {
		fwNamed := p.Named(pkgV2, "FileWriter")
		for i := 0; i < st.NumFields(); i++ {
			if pt, ok := st.Field(i).Type().(*types.Pointer); ok && fwNamed != nil && types.Identical(pt.Elem(), fwNamed) {
				writerF = st.Field(i)
			}
		}
		setTrue, setFalse := map[*types.Var]bool{}, map[*types.Var]bool{}
		for _, g := range p.FuncsIn(pkgChron) {
			if g.Decl.Body == nil {
				continue
			}
			storesWriter := false
			for _, a := range core.Accesses(g.Info(), g.Decl.Body, map[*types.Var]bool{writerF: true}, false) {
				if a.Write {
					if as, ok := a.Node.(*ast.AssignStmt); ok && len(as.Rhs) == 1 && !core.IsNilIdent(g.Info(), as.Rhs[0]) {
						storesWriter = true
					}
				}
			}
			for _, a := range core.Accesses(g.Info(), g.Decl.Body, nil, false) {
				if b, ok := a.Field.Type().Underlying().(*types.Basic); !ok || b.Kind() != types.Bool {
					continue
				}
				if a.Form == "assign-true" && closers[g] {
					setTrue[a.Field] = true
				}
				if a.Form == "assign-false" && storesWriter {
					setFalse[a.Field] = true
				}
			}
		}
		for fld := range setTrue {
			if setFalse[fld] {
				closedFlags[fld] = true
			}
		}
	}
	if writerF == nil {
		r.Bad(pkgChron+".chroniclerV2:writer-field", token.NoPos, "the chronicler has no *v2.FileWriter field any more (rule needs review)")
		return
	}
	nSites := 0
	for _, f := range p.FuncsIn(pkgChron) {
		if f.Decl.Body == nil || f.Decl.Recv == nil {
			continue
		}
		info := f.Info()
		var compact *ast.CallExpr
		core.Calls(f.Decl.Body, false, func(call *ast.CallExpr) {
			if core.IsWsCallTo(info, call, pkgV2+".Compactor.Compact") {
				compact = call
			}
		})
		if compact == nil {
			continue
		}
		nSites++
		c.Touch(f)
		fl := core.NewFlow(p, info, f.Decl.Body)
		// a node that closes the writer before the compaction (not deferred: a defer runs after it)
		isCloseNode := func(n ast.Node) bool {
			if _, isDefer := n.(*ast.DeferStmt); isDefer {
				return false
			}
			return core.NodeHasCall(func(call *ast.CallExpr) bool {
				if core.IsWsCallTo(info, call, pkgV2+".FileWriter.Close") {
					return true
				}
				t := p.ByObj[core.Callee(info, call)]
				return t != nil && closers[t] && t != f
			})(n)
		}
		// an edge on which the writer is known not to be open: writer == nil, or the closed flag is set.
		// A compound test is taken apart: the false edge of `w != nil && !closed && X` only proves
		// "not open" when the negation of every conjunct does - an extra conjunct (say, "buffer not
		// empty") lets an open writer through on that edge.
		var notOpen func(e ast.Expr, truth bool) bool
		notOpen = func(e ast.Expr, truth bool) bool {
			e = core.Unparen(e)
			switch v := e.(type) {
			case *ast.UnaryExpr:
				if v.Op == token.NOT {
					return notOpen(v.X, !truth)
				}
			case *ast.BinaryExpr:
				switch v.Op {
				case token.LAND:
					if truth {
						return notOpen(v.X, true) || notOpen(v.Y, true)
					}
					return notOpen(v.X, false) && notOpen(v.Y, false)
				case token.LOR:
					if truth {
						return notOpen(v.X, true) && notOpen(v.Y, true)
					}
					return notOpen(v.X, false) || notOpen(v.Y, false)
				case token.EQL, token.NEQ:
					var other ast.Expr
					if fld := core.FieldOf(info, v.X); fld != nil && fld == writerF {
						other = v.Y
					} else if fld := core.FieldOf(info, v.Y); fld != nil && fld == writerF {
						other = v.X
					}
					if other != nil && core.IsNilIdent(info, other) {
						return (v.Op == token.EQL) == truth
					}
				}
			case *ast.SelectorExpr:
				if fld := core.FieldOf(info, v); fld != nil && closedFlags[fld] {
					return truth
				}
			}
			return false
		}
		cut := map[core.Edge]bool{}
		for bi := range fl.G.Blocks {
			cond := fl.CondOf(bi)
			if cond == nil {
				continue
			}
			for si := 0; si < 2; si++ {
				if notOpen(cond, si == 0) {
					cut[core.Edge{From: bi, Succ: si}] = true
				}
			}
		}
		reach, _ := fl.CanReach(fl.Entry(), cut, isCloseNode, core.ContainsNode(compact))
		ok := !reach
		r.Check(ok, f.Key+":close-writer-before-compact", f.Decl.Pos(), "open writer closed (buffer flushed) before the in-place compaction", "the file is compacted while the chronicler's writer is still open: the entries still buffered in it are flushed into the replaced inode afterwards and are lost; the writer keeps appending to a file that no longer has a name")
	}
	if nSites == 0 {
		r.Bad(pkgChron+":in-place-compaction", token.NoPos, "no in-place compaction call site found in the chronicler")
	}
}
