package rules

import (
	"go/ast"
	"go/token"
	"go/types"

	"hv/core"
)

// localDef returns the right-hand side of the unique definition `x := e` / `var x = e` of a local.
func localDef(info *types.Info, body ast.Node, obj types.Object) ast.Expr {
	var def ast.Expr
	n := 0
	ast.Inspect(body, func(x ast.Node) bool {
		switch v := x.(type) {
		case *ast.AssignStmt:
			if len(v.Lhs) == len(v.Rhs) {
				for i, l := range v.Lhs {
					if id, ok := l.(*ast.Ident); ok && (info.Defs[id] == obj || info.Uses[id] == obj) {
						def = v.Rhs[i]
						n++
					}
				}
			} else {
				for _, l := range v.Lhs {
					if id, ok := l.(*ast.Ident); ok && (info.Defs[id] == obj || info.Uses[id] == obj) {
						n += 2 // multi-value definition: not a simple expression
					}
				}
			}
		case *ast.ValueSpec:
			for i, id := range v.Names {
				if info.Defs[id] == obj && i < len(v.Values) {
					def = v.Values[i]
					n++
				}
			}
		}
		return true
	})
	if n == 1 {
		return def
	}
	return nil
}

// expandFacts replaces boolean locals in facts by their (unique) definitions, recursively splitting.
func expandFacts(info *types.Info, body ast.Node, facts []core.Fact) []core.Fact {
	var out []core.Fact
	for _, f := range facts {
		out = append(out, f)
		if id, ok := core.Unparen(f.Expr).(*ast.Ident); ok {
			if obj := info.Uses[id]; obj != nil {
				if def := localDef(info, body, obj); def != nil {
					out = append(out, splitBool(def, f.Truth)...)
				}
			}
		}
	}
	return out
}

func splitBool(e ast.Expr, truth bool) []core.Fact {
	e = core.Unparen(e)
	switch v := e.(type) {
	case *ast.UnaryExpr:
		if v.Op == token.NOT {
			return splitBool(v.X, !truth)
		}
	case *ast.BinaryExpr:
		if (v.Op == token.LAND && truth) || (v.Op == token.LOR && !truth) {
			return append(splitBool(v.X, truth), splitBool(v.Y, truth)...)
		}
	}
	return []core.Fact{{Expr: e, Truth: truth}}
}

// cmpFact matches a fact of the form  X op Y  (after normalising truth), calling m(x, op, y)
// with the effective operator; it also tries the mirrored form.
func cmpFact(f core.Fact, m func(x ast.Expr, op token.Token, y ast.Expr) bool) bool {
	be, ok := core.Unparen(f.Expr).(*ast.BinaryExpr)
	if !ok {
		return false
	}
	op := be.Op
	if !f.Truth {
		op = core.Negate(op)
	}
	if op == token.ILLEGAL {
		return false
	}
	if m(be.X, op, be.Y) {
		return true
	}
	return m(be.Y, mirror(op), be.X)
}

func mirror(op token.Token) token.Token {
	switch op {
	case token.LSS:
		return token.GTR
	case token.GTR:
		return token.LSS
	case token.LEQ:
		return token.GEQ
	case token.GEQ:
		return token.LEQ
	}
	return op
}

// isBuiltinCall reports a call to the named builtin.
func isBuiltinCall(info *types.Info, call *ast.CallExpr, name string) bool {
	id, ok := core.Unparen(call.Fun).(*ast.Ident)
	if !ok || id.Name != name {
		return false
	}
	_, isB := info.Uses[id].(*types.Builtin)
	return isB
}

// lenOfField matches len(<x>.<field>).
func lenOfField(info *types.Info, e ast.Expr, field *types.Var) bool { return isLenOf(info, e, field) }

// methodOfIface finds an interface method object by name.
func methodOfIface(n *types.Named, name string) *types.Func {
	it, ok := n.Underlying().(*types.Interface)
	if !ok {
		return nil
	}
	for i := 0; i < it.NumMethods(); i++ {
		if it.Method(i).Name() == name {
			return it.Method(i)
		}
	}
	return nil
}

// implies reports whether expression e having the given truth value guarantees the atom
// property, by structural induction over && / || / ! and unique local boolean definitions.
func implies(info *types.Info, body ast.Node, e ast.Expr, truth bool, atom func(core.Fact) bool) bool {
	e = core.Unparen(e)
	switch v := e.(type) {
	case *ast.UnaryExpr:
		if v.Op == token.NOT {
			return implies(info, body, v.X, !truth, atom)
		}
	case *ast.BinaryExpr:
		if v.Op == token.LAND || v.Op == token.LOR {
			conj := (v.Op == token.LAND) == truth // behaves as a conjunction of (sub, truth)
			a := implies(info, body, v.X, truth, atom)
			b := implies(info, body, v.Y, truth, atom)
			if conj {
				return a || b
			}
			return a && b
		}
	case *ast.Ident:
		if obj := info.Uses[v]; obj != nil {
			if def := localDef(info, body, obj); def != nil {
				if _, isBool := info.TypeOf(def).Underlying().(*types.Basic); isBool {
					if implies(info, body, def, truth, atom) {
						return true
					}
				}
			}
		}
	}
	return atom(core.Fact{Expr: e, Truth: truth})
}

// holdsAt reports whether some dominating branch condition at loc guarantees the atom property.
func holdsAt(fl *core.Flow, body ast.Node, loc core.Loc, atom func(core.Fact) bool) bool {
	for _, c := range fl.CondsAt(loc) {
		if implies(fl.Info, body, c.Expr, c.Truth, atom) {
			return true
		}
	}
	return false
}

func token0() token.Pos { return token.NoPos }

func mustStruct(p *core.Prog, short, name string) *types.Struct {
	_, st := p.StructOf(short, name)
	if st == nil {
		core.Failf("struct %s.%s not found", short, name)
	}
	return st
}

// v2BlockWriters finds, by role, the functions of the V2 storage package that append a block to
// the file: they pass the serialized form of a BlockHeader to (*os.File).Write. The rules about
// block appends are applied wherever these writes live (today FileWriter.flushLocked), so that
// moving them into a helper does not hide them from the rules or break the rules' anchors.
func v2BlockWriters(c *core.Ctx) []*core.Func {
	var out []*core.Func
	for _, f := range c.P.FuncsIn(pkgV2) {
		if f.Decl.Body == nil {
			continue
		}
		info := f.Info()
		found := false
		core.Calls(f.Decl.Body, false, func(call *ast.CallExpr) {
			if core.IsCallTo(info, call, "os.File.Write") && len(call.Args) == 1 {
				if ac, ok := core.Unparen(call.Args[0]).(*ast.CallExpr); ok && core.IsWsCallTo(info, ac, pkgV2+".BlockHeader.Serialize") {
					found = true
				}
			}
		})
		if found {
			out = append(out, f)
			c.Touch(f)
		}
	}
	return out
}
