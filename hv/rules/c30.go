package rules

import (
	"go/ast"
	"go/token"
	"go/types"
	"strings"

	"hv/core"
)

func init() { register("C30", c30) }

const pkgBeacon = "app/core/hydra/swamp/beacon"

// expiryAbstraction classifies atoms over (exp, now): exp vs 0 and exp vs now.
type expiryCase struct {
	name     string
	isZero   bool // exp == 0
	beforeNow bool // exp < now
	equalNow bool // exp == now
}

var expiryCases = []expiryCase{
	{"exp==0(now>0)", true, true, false},
	{"exp<0<now", false, true, false},
	{"0<exp<now", false, true, false},
	{"exp==now", false, false, true},
	{"exp>now", false, false, false},
}

// isExpExpr / isNowExpr recognise the expiry value and the current time (directly or through a local).
func isExpExpr(info *types.Info, body ast.Node, e ast.Expr, depth int) bool {
	e = stripConv(info, e)
	switch v := e.(type) {
	case *ast.CallExpr:
		if f := core.Callee(info, v); f != nil && f.Name() == "GetExpirationTime" {
			return true
		}
	case *ast.SelectorExpr:
		if f := core.FieldOf(info, v); f != nil && f.Name() == "ExpirationTime" {
			return true
		}
	case *ast.Ident:
		if depth > 2 {
			return false
		}
		if obj := info.Uses[v]; obj != nil {
			if def := localDef(info, body, obj); def != nil {
				return isExpExpr(info, body, def, depth+1)
			}
		}
	}
	return false
}

func isNowExpr(info *types.Info, body ast.Node, e ast.Expr, depth int) bool {
	e = stripConv(info, e)
	switch v := e.(type) {
	case *ast.CallExpr:
		if f := core.Callee(info, v); f != nil && f.Name() == "UnixNano" && f.Pkg() != nil && f.Pkg().Path() == "time" {
			// receiver chain must start at time.Now()
			hasNow := false
			ast.Inspect(v, func(x ast.Node) bool {
				if c, ok := x.(*ast.CallExpr); ok && core.IsCallTo(info, c, "time.Now") {
					hasNow = true
				}
				return true
			})
			return hasNow
		}
	case *ast.Ident:
		if depth > 2 {
			return false
		}
		if obj := info.Uses[v]; obj != nil {
			if def := localDef(info, body, obj); def != nil {
				return isNowExpr(info, body, def, depth+1)
			}
		}
	}
	return false
}

// expiryAtom evaluates an atomic comparison under one abstract case; unknown for anything else.
func expiryAtom(info *types.Info, body ast.Node, cs expiryCase) core.AtomVal {
	var atom core.AtomVal
	atom = func(e ast.Expr) (bool, bool) {
		e = core.Unparen(e)
		if id, ok := e.(*ast.Ident); ok {
			if obj := info.Uses[id]; obj != nil {
				if def := localDef(info, body, obj); def != nil {
					if b, isB := info.TypeOf(def).Underlying().(*types.Basic); isB && b.Info()&types.IsBoolean != 0 {
						return core.EvalBool(info, def, atom)
					}
				}
			}
			return false, false
		}
		// a call of a one-line boolean helper of the same package: evaluate its body with the
		// arguments substituted (`expiredAt(exp, now)` for `exp != 0 && exp < now`)
		if call, isCall := e.(*ast.CallExpr); isCall {
			if inl := inlineBoolHelper(info, call); inl != nil {
				return core.EvalBool(info, inl, atom)
			}
			return false, false
		}
		be, ok := e.(*ast.BinaryExpr)
		if !ok {
			return false, false
		}
		x, y, op := be.X, be.Y, be.Op
		if isExpExpr(info, body, y, 0) && !isExpExpr(info, body, x, 0) {
			x, y, op = y, x, mirror(op)
		}
		if !isExpExpr(info, body, x, 0) {
			return false, false
		}
		var lt, eq bool // exp < y, exp == y
		switch {
		case isConst(info, y, 0):
			eq = cs.isZero
			lt = !cs.isZero && cs.name == "exp<0<now"
		case isNowExpr(info, body, y, 0):
			eq = cs.equalNow
			lt = cs.beforeNow
		default:
			return false, false
		}
		switch op {
		case token.EQL:
			return eq, true
		case token.NEQ:
			return !eq, true
		case token.LSS:
			return lt, true
		case token.LEQ:
			return lt || eq, true
		case token.GTR:
			return !lt && !eq, true
		case token.GEQ:
			return !lt, true
		}
		return false, false
	}
	return atom
}

func c30(c *core.Ctx) {
	p := c.P
	curProg = p
	c.Explain = "Static necessary conditions for consistent expiry semantics: each 'is expired' decision (treasure.IsExpired and the three claim sites of the expiry index), evaluated exhaustively over the abstract order cases of (expiry vs 0, expiry vs now), is true exactly for a non-zero expiry strictly before now (pre-epoch included); SetExpirationTime maps the zero time to 0; every insertion into the expiry index is guarded by expiry != 0; every 'has an expiry' test in core and gateway compares with != 0 / == 0 (never > 0); expiry travels in nanoseconds to time.Unix(0, x)."
	c.NotCovered = []string{"value-level agreement on concrete histories", "clock skew between calls of time.Now", "filter semantics on the expiry field"}

	rLI := c.Rule("C30.lazyinit", "the expiry index (like every lazily built index) is never marked initialized by a side effect before it was built: each initializing beacon call on an index field follows buildBeacon of that field or is guarded by IsInitialized() on it (shared with C07.lazyinit) - otherwise index-based expiry reads and claims miss the records that existed before", 20)
	lazyInitRule(c, rLI)

	rWin := c.Rule("C30.window", "an expiry-ordered read sees the same expiry values as the expired-shift: findTimeRangeBounds realises the half-open window [from,to) on both directions and leaves a side open when its bound is absent, so a record whose expiry lies before 1970 (non-zero, in the past: expired) is not dropped from a read that gives only an upper bound (shared with C07.window)", 4)
	windowRule(c, rWin)
	rPs := c.Rule("C30.persist", "a change of the expiry - setting, sliding and clearing alike - reaches the file: every record method that assigns the expiry attribute sets one of the change flags SaveFunction tests on every path through the assignment, so a cleared expiry does not come back after a reload and make the record expire again (shared with C05.dirtyflag, restricted to the expiry attribute)", 1)
	dirtyFlagRule(c, rPs, "ExpirationTime")

	rP := c.Rule("C30.predicate", "an 'is expired' decision is true exactly when expiry != 0 and expiry < now (5 abstract order cases per site, pre-epoch included)", 20)
	// (a) treasure.IsExpired: simulate the function
	{
		f := c.Fn(pkgTreasure + ".treasure.IsExpired")
		info := f.Info()
		for _, cs := range expiryCases {
			atom := expiryAtom(info, f.Decl.Body, cs)
			out := core.SimStmts(info, f.Decl.Body.List, atom, func(ast.Stmt) bool { return true })
			want := !cs.isZero && cs.beforeNow
			construct := f.Key + ":" + cs.name
			if out.Unknown || !out.Returned || len(out.Ret.Results) != 1 {
				rP.Undecided(construct, f.Decl.Pos(), "cannot simulate IsExpired: "+out.Why)
				continue
			}
			got, ok := core.EvalBool(info, out.Ret.Results[0], atom)
			if !ok {
				rP.Undecided(construct, out.Ret.Pos(), "result not decidable")
				continue
			}
			rP.Check(got == want, construct, out.Ret.Pos(), "agrees", "IsExpired returns "+b2s(got)+" in case "+cs.name+" (specified: "+b2s(want)+")")
		}
	}
	// (b) claim sites in the beacon: the append into the claimed slice
	for _, k := range []string{pkgBeacon + ".beacon.ShiftExpired", pkgBeacon + ".beacon.SelectExpiredForPatch", pkgBeacon + ".beacon.SelectExpiredForPatchWithCap"} {
		f := c.Fn(k)
		info := f.Info()
		fl := core.NewFlow(p, info, f.Decl.Body)
		// the claimed slice is the one returned first
		var claimedObj types.Object
		ast.Inspect(f.Decl.Body, func(x ast.Node) bool {
			if ret, ok := x.(*ast.ReturnStmt); ok && len(ret.Results) >= 1 {
				if o := core.ObjOf(info, ret.Results[0]); o != nil {
					claimedObj = o
				}
			}
			return true
		})
		var claim *ast.AssignStmt
		ast.Inspect(f.Decl.Body, func(x ast.Node) bool {
			as, ok := x.(*ast.AssignStmt)
			if !ok || len(as.Lhs) != 1 || len(as.Rhs) != 1 || core.ObjOf(info, as.Lhs[0]) != claimedObj || claimedObj == nil {
				return true
			}
			if call, ok := core.Unparen(as.Rhs[0]).(*ast.CallExpr); ok && isBuiltinCall(info, call, "append") {
				claim = as
			}
			return true
		})
		if claim == nil {
			rP.Bad(k+":claim", f.Decl.Pos(), "claim site (append to the returned slice) not found")
			continue
		}
		loc := fl.MustLocate(claim)
		conds := fl.CondsAt(loc)
		for _, cs := range expiryCases {
			atom := expiryAtom(info, f.Decl.Body, cs)
			reachable := true
			constrained := false
			for _, cnd := range conds {
				v, known := core.EvalBool(info, cnd.Expr, atom)
				if known {
					constrained = true
					if v != cnd.Truth {
						reachable = false
					}
				} else {
					// partially known: a conjunction with a known-false conjunct is caught by EvalBool; otherwise free
					// try: if the condition must be true and some conjunct is known false EvalBool returned known=false only when undecided
				}
			}
			_ = constrained
			want := !cs.isZero && cs.beforeNow
			rP.Check(reachable == want, k+":"+cs.name, claim.Pos(), "claim reachable="+b2s(reachable), "a record is claimed as expired in case "+cs.name+": reachable="+b2s(reachable)+", specified="+b2s(want))
		}
	}

	rZ := c.Rule("C30.zero", "SetExpirationTime stores 0 for the zero time; every insertion into the expiration index is guarded by expiry != 0; every test of an expiry against the constant 0 uses != or ==", 10)
	{
		f := c.Fn(pkgTreasure + ".treasure.SetExpirationTime")
		info := f.Info()
		fl := core.NewFlow(p, info, f.Decl.Body)
		zeroStored := false
		for _, a := range core.Accesses(info, f.Decl.Body, nil, false) {
			if a.Write && a.Field.Name() == "ExpirationTime" {
				as := a.Node.(*ast.AssignStmt)
				if isConst(info, as.Rhs[0], 0) {
					loc := fl.MustLocate(as)
					if holdsAt(fl, f.Decl.Body, loc, func(ft core.Fact) bool {
						call, ok := core.Unparen(ft.Expr).(*ast.CallExpr)
						return ok && ft.Truth && core.IsCallTo(info, call, "time.Time.IsZero")
					}) {
						zeroStored = true
					}
				}
			}
		}
		rZ.Check(zeroStored, f.Key+":zero-time->0", f.Decl.Pos(), "IsZero() -> 0", "the zero time is not stored as 0: a cleared expiry becomes a huge negative expiry (year 1) and the record expires at once")
	}
	// insertion sites into the expiration index
	isExpNonZeroFact := func(info *types.Info, body ast.Node) func(core.Fact) bool {
		return func(ft core.Fact) bool {
			return cmpFact(ft, func(x ast.Expr, op token.Token, y ast.Expr) bool {
				return isExpExpr(info, body, x, 0) && isConst(info, y, 0) && op == token.NEQ
			})
		}
	}
	for _, f := range p.FuncsIn(pkgSwamp) {
		if f.Decl.Body == nil {
			continue
		}
		info := f.Info()
		var fl *core.Flow
		core.Calls(f.Decl.Body, false, func(call *ast.CallExpr) {
			isIns := core.IsWsCallTo(info, call, pkgSwamp+".swamp.addToExpirationTimeBeacon")
			if !isIns && core.MethodNamed(info, call, pkgBeacon, []string{"Beacon"}, "Add") {
				if s, ok := core.RecvExpr(call).(*ast.SelectorExpr); ok && strings.HasPrefix(s.Sel.Name, "expirationTimeBeacon") && f.Key != pkgSwamp+".swamp.addToExpirationTimeBeacon" {
					isIns = true
				}
			}
			if !isIns {
				return
			}
			c.Touch(f)
			if fl == nil {
				fl = core.NewFlow(p, info, f.Decl.Body)
			}
			loc, ok := fl.Locate(call)
			if !ok {
				return
			}
			rZ.Check(holdsAt(fl, f.Decl.Body, loc, isExpNonZeroFact(info, f.Decl.Body)), f.Key+"->expiration-index-insert", call.Pos(), "guarded by expiry != 0", "a record can be inserted into the expiry index without an expiry: it would be claimed as 'expired' or sorted first")
		})
	}
	{
		f := c.Fn(pkgBeacon + ".beacon.ReindexExpiration")
		info := f.Info()
		fl := core.NewFlow(p, info, f.Decl.Body)
		n := 0
		for _, a := range core.Accesses(info, f.Decl.Body, nil, false) {
			if a.Write && a.Field.Name() == "treasuresByOrder" && a.Form == "append" {
				// the append of a caller-supplied record (argument is the range variable over the parameter)
				as := a.Node.(*ast.AssignStmt)
				call := core.Unparen(as.Rhs[0]).(*ast.CallExpr)
				if len(call.Args) != 2 {
					continue
				}
				n++
				loc := fl.MustLocate(as)
				rZ.Check(holdsAt(fl, f.Decl.Body, loc, isExpNonZeroFact(info, f.Decl.Body)), f.Key+":append", as.Pos(), "guarded by expiry != 0", "ReindexExpiration re-inserts a record whose expiry was cleared")
			}
		}
		if n == 0 {
			rZ.Bad(f.Key+":append", f.Decl.Pos(), "no re-insertion found")
		}
	}
	// comparisons of an expiry against the constant zero
	for _, f := range append(p.FuncsUnder("app/core/hydra/swamp"), p.FuncsIn(pkgGateway)...) {
		if f.Decl.Body == nil {
			continue
		}
		info := f.Info()
		ast.Inspect(f.Decl.Body, func(x ast.Node) bool {
			be, ok := x.(*ast.BinaryExpr)
			if !ok {
				return true
			}
			xx, yy, op := be.X, be.Y, be.Op
			if isConst(info, xx, 0) {
				xx, yy, op = yy, xx, mirror(op)
			}
			if !isConst(info, yy, 0) || !isExpExpr(info, f.Decl.Body, xx, 0) {
				return true
			}
			switch op {
			case token.EQL, token.NEQ:
				c.Touch(f)
				rZ.Ok(f.Key+":expiry"+op.String()+"0", be.Pos(), "zero test")
			case token.GTR, token.GEQ, token.LSS, token.LEQ:
				c.Touch(f)
				rZ.Bad(f.Key+":expiry"+op.String()+"0", be.Pos(), "'has expiry' is decided with "+op.String()+" 0 instead of != 0: pre-epoch expiries are treated as 'no expiry' here but as expired by the claim paths")
			}
			return true
		})
	}

	rU := c.Rule("C30.units", "expiry values reach time.Unix only as the nanosecond argument", 2)
	unitRule(c, rU, func(info *types.Info, body ast.Node, e ast.Expr) bool { return isExpExpr(info, body, e, 0) }, "expiry")
}

// unitRule: every time.Unix(a, b) call whose argument derives from a nanosecond source must use it as b with a == 0.
func unitRule(c *core.Ctx, r *core.Rule, isNanoSource func(*types.Info, ast.Node, ast.Expr) bool, what string) {
	p := c.P
	for _, f := range append(append(p.FuncsUnder("app/core/hydra"), p.FuncsIn(pkgGateway)...), p.FuncsUnder("app/server/explorer")...) {
		if f.Decl.Body == nil {
			continue
		}
		info := f.Info()
		core.Calls(f.Decl.Body, true, func(call *ast.CallExpr) {
			if !core.IsCallTo(info, call, "time.Unix") || len(call.Args) != 2 {
				return
			}
			a0 := isNanoSource(info, f.Decl.Body, call.Args[0])
			a1 := isNanoSource(info, f.Decl.Body, call.Args[1])
			if !a0 && !a1 {
				return
			}
			c.Touch(f)
			construct := f.Key + ":time.Unix(" + core.ExprStr(call.Args[0]) + "," + core.ExprStr(call.Args[1]) + ")"
			r.Check(a1 && !a0 && isConst(info, call.Args[0], 0), construct, call.Pos(), "nanoseconds", "a nanosecond "+what+" value is passed to time.Unix as seconds: the resulting time is off by a factor of 10^9")
		})
	}
}

// curProg is the program of the running check (set by the rule functions that inline helpers).
var curProg *core.Prog

// inlineBoolHelper returns the body expression of a same-package function that consists of a single
// `return <bool expr>`, with its parameters replaced by the call's arguments; nil when the callee is
// not of that shape. Only identifiers that name parameters are replaced; every other node is shared
// with the callee's syntax tree, so type information stays available (same package, same types.Info).
func inlineBoolHelper(info *types.Info, call *ast.CallExpr) ast.Expr {
	if curProg == nil {
		return nil
	}
	fo := core.Callee(info, call)
	t := curProg.ByObj[fo]
	if t == nil || t.Decl.Body == nil || t.Info() != info || len(t.Decl.Body.List) != 1 {
		return nil
	}
	ret, ok := t.Decl.Body.List[0].(*ast.ReturnStmt)
	if !ok || len(ret.Results) != 1 {
		return nil
	}
	sig := fo.Type().(*types.Signature)
	if sig.Results().Len() != 1 || sig.Params().Len() != len(call.Args) || sig.Variadic() {
		return nil
	}
	sub := map[types.Object]ast.Expr{}
	for i := 0; i < sig.Params().Len(); i++ {
		sub[sig.Params().At(i)] = call.Args[i]
	}
	var rw func(e ast.Expr) ast.Expr
	rw = func(e ast.Expr) ast.Expr {
		switch v := e.(type) {
		case *ast.Ident:
			if a, ok := sub[info.Uses[v]]; ok {
				return a
			}
			return v
		case *ast.ParenExpr:
			return &ast.ParenExpr{Lparen: v.Lparen, X: rw(v.X), Rparen: v.Rparen}
		case *ast.UnaryExpr:
			return &ast.UnaryExpr{OpPos: v.OpPos, Op: v.Op, X: rw(v.X)}
		case *ast.BinaryExpr:
			return &ast.BinaryExpr{X: rw(v.X), OpPos: v.OpPos, Op: v.Op, Y: rw(v.Y)}
		}
		return e
	}
	return rw(ret.Results[0])
}
