package core

import (
	"go/ast"
	"go/token"
	"go/types"

	"golang.org/x/tools/go/cfg"
)

// Loc addresses one CFG node: block index and node index within the block.
type Loc struct{ B, I int }

// Flow is the control-flow graph of one function body (or function literal body)
// with dominators. Function literals nested in the body are opaque expressions here;
// build a separate Flow for them.
type Flow struct {
	P     *Prog
	Info  *types.Info
	Body  *ast.BlockStmt
	G     *cfg.CFG
	preds [][]int
	idom  []int
	rpo   []int
	rpoIx []int
}

// NoReturnCall reports whether the call never returns (panic, os.Exit, log.Fatal*, runtime.Goexit).
func NoReturnCall(info *types.Info, call *ast.CallExpr) bool {
	if id, ok := Unparen(call.Fun).(*ast.Ident); ok {
		if b, ok := info.Uses[id].(*types.Builtin); ok && b.Name() == "panic" {
			return true
		}
	}
	switch QName(Callee(info, call)) {
	case "os.Exit", "log.Fatal", "log.Fatalf", "log.Fatalln", "runtime.Goexit",
		"log.Panic", "log.Panicf", "log.Panicln", "log.Logger.Fatal", "log.Logger.Fatalf", "log.Logger.Fatalln":
		return true
	}
	return false
}

// NewFlow builds the CFG and dominator tree of a body.
func NewFlow(p *Prog, info *types.Info, body *ast.BlockStmt) *Flow {
	fl := &Flow{P: p, Info: info, Body: body}
	fl.G = cfg.New(body, func(c *ast.CallExpr) bool { return !NoReturnCall(info, c) })
	n := len(fl.G.Blocks)
	fl.preds = make([][]int, n)
	for _, b := range fl.G.Blocks {
		for _, s := range b.Succs {
			fl.preds[s.Index] = append(fl.preds[s.Index], int(b.Index))
		}
	}
	// reverse postorder from entry
	seen := make([]bool, n)
	var post []int
	var dfs func(int)
	dfs = func(i int) {
		seen[i] = true
		for _, s := range fl.G.Blocks[i].Succs {
			if !seen[s.Index] {
				dfs(int(s.Index))
			}
		}
		post = append(post, i)
	}
	if n > 0 {
		dfs(0)
	}
	fl.rpoIx = make([]int, n)
	for i := range fl.rpoIx {
		fl.rpoIx[i] = -1
	}
	for i := len(post) - 1; i >= 0; i-- {
		fl.rpoIx[post[i]] = len(fl.rpo)
		fl.rpo = append(fl.rpo, post[i])
	}
	// Cooper-Harvey-Kennedy iterative dominators
	fl.idom = make([]int, n)
	for i := range fl.idom {
		fl.idom[i] = -1
	}
	if n > 0 {
		fl.idom[0] = 0
		changed := true
		for changed {
			changed = false
			for _, b := range fl.rpo[1:] {
				nd := -1
				for _, p := range fl.preds[b] {
					if fl.idom[p] == -1 {
						continue
					}
					if nd == -1 {
						nd = p
					} else {
						nd = fl.intersect(p, nd)
					}
				}
				if nd != -1 && fl.idom[b] != nd {
					fl.idom[b] = nd
					changed = true
				}
			}
		}
	}
	return fl
}

func (fl *Flow) intersect(a, b int) int {
	for a != b {
		for fl.rpoIx[a] > fl.rpoIx[b] {
			a = fl.idom[a]
		}
		for fl.rpoIx[b] > fl.rpoIx[a] {
			b = fl.idom[b]
		}
	}
	return a
}

// Reachable reports whether the block is reachable from entry.
func (fl *Flow) Reachable(b int) bool { return fl.rpoIx[b] >= 0 }

// BlockDom reports whether block a dominates block b.
func (fl *Flow) BlockDom(a, b int) bool {
	if !fl.Reachable(a) || !fl.Reachable(b) {
		return false
	}
	for {
		if b == a {
			return true
		}
		if b == 0 {
			return false
		}
		b = fl.idom[b]
	}
}

// Dominates reports whether node a is executed before node b on every path reaching b.
func (fl *Flow) Dominates(a, b Loc) bool {
	if a.B == b.B {
		return a.I <= b.I
	}
	return fl.BlockDom(a.B, b.B)
}

// Node returns the CFG node at a location.
func (fl *Flow) Node(l Loc) ast.Node { return fl.G.Blocks[l.B].Nodes[l.I] }

// Locate finds the CFG node containing n. ok is false if n is not in this body's CFG
// (dead code, or nested inside a function literal).
func (fl *Flow) Locate(n ast.Node) (Loc, bool) {
	best := Loc{-1, -1}
	var bestSize token.Pos = 1 << 60
	for _, b := range fl.G.Blocks {
		if !fl.Reachable(int(b.Index)) {
			continue
		}
		for i, x := range b.Nodes {
			if x.Pos() <= n.Pos() && n.End() <= x.End() {
				if sz := x.End() - x.Pos(); sz < bestSize {
					bestSize = sz
					best = Loc{int(b.Index), i}
				}
			}
		}
	}
	if best.B < 0 {
		return best, false
	}
	// reject when n sits inside a function literal of that node (and is not the node itself)
	host := fl.Node(best)
	inLit := false
	ast.Inspect(host, func(x ast.Node) bool {
		if l, ok := x.(*ast.FuncLit); ok && x != n {
			if l.Body.Pos() <= n.Pos() && n.End() <= l.Body.End() {
				inLit = true
			}
			return false
		}
		return !inLit
	})
	if inLit {
		return best, false
	}
	return best, true
}

// MustLocate is Locate for anchors that have to exist.
func (fl *Flow) MustLocate(n ast.Node) Loc {
	l, ok := fl.Locate(n)
	if !ok {
		Failf("cannot locate node at %s in CFG", fl.P.Pos(n.Pos()))
	}
	return l
}

// Edge is a CFG edge: the Succ-th successor of block From.
type Edge struct{ From, Succ int }

// Walk explores every node reachable strictly after 'from' (following all edges except cut).
// visit returns false to cut the path at that node (the node is still visited).
// The result reports whether some uncut path reaches a function exit: a return statement when
// panics is false; additionally a no-return call (panic) when panics is true.
func (fl *Flow) Walk(from Loc, cut map[Edge]bool, panics bool, visit func(Loc, ast.Node) bool) (exit bool) {
	seenBlock := map[int]bool{}
	var run func(b, i int)
	run = func(b, i int) {
		blk := fl.G.Blocks[b]
		for ; i < len(blk.Nodes); i++ {
			n := blk.Nodes[i]
			if !visit(Loc{b, i}, n) {
				return
			}
			if _, ok := n.(*ast.ReturnStmt); ok {
				exit = true
				return
			}
		}
		if len(blk.Succs) == 0 {
			// block without successor and without return: a no-return call (panic etc.)
			if panics {
				exit = true
			}
			return
		}
		for si, s := range blk.Succs {
			if cut[Edge{b, si}] {
				continue
			}
			if seenBlock[int(s.Index)] {
				continue
			}
			seenBlock[int(s.Index)] = true
			run(int(s.Index), 0)
		}
	}
	run(from.B, from.I+1)
	return exit
}

// Entry is the pseudo location before the first node.
func (fl *Flow) Entry() Loc { return Loc{0, -1} }

// CanReach reports whether some path from 'from' (exclusive) reaches a node satisfying target
// without first passing a node satisfying avoid.
func (fl *Flow) CanReach(from Loc, cut map[Edge]bool, avoid, target func(ast.Node) bool) (bool, Loc) {
	found := false
	var at Loc
	fl.Walk(from, cut, false, func(l Loc, n ast.Node) bool {
		if found {
			return false
		}
		if target(n) {
			found = true
			at = l
			return false
		}
		if avoid != nil && avoid(n) {
			return false
		}
		return true
	})
	return found, at
}

// ExitWithout reports whether some path from 'from' (exclusive) reaches a function exit
// without passing a node satisfying pass. Deferred calls are not considered here; see Defers.
func (fl *Flow) ExitWithout(from Loc, cut map[Edge]bool, panics bool, pass func(ast.Node) bool) bool {
	return fl.Walk(from, cut, panics, func(l Loc, n ast.Node) bool { return !pass(n) })
}

// Defers lists the defer statements of the body with their locations.
func (fl *Flow) Defers() []Loc {
	var out []Loc
	for _, b := range fl.G.Blocks {
		if !fl.Reachable(int(b.Index)) {
			continue
		}
		for i, n := range b.Nodes {
			if _, ok := n.(*ast.DeferStmt); ok {
				out = append(out, Loc{int(b.Index), i})
			}
		}
	}
	return out
}

// Nodes enumerates all reachable CFG nodes.
func (fl *Flow) Nodes(f func(Loc, ast.Node)) {
	for _, bi := range fl.rpo {
		b := fl.G.Blocks[bi]
		for i, n := range b.Nodes {
			f(Loc{bi, i}, n)
		}
	}
}

// CondOf returns the boolean condition ending a two-way block that stems from an if or for
// statement (nil for range/switch/select blocks).
func (fl *Flow) CondOf(b int) ast.Expr {
	blk := fl.G.Blocks[b]
	if len(blk.Succs) != 2 || len(blk.Nodes) == 0 {
		return nil
	}
	last, ok := blk.Nodes[len(blk.Nodes)-1].(ast.Expr)
	if !ok {
		return nil
	}
	// The tested block carries the condition; find the statement that owns it via the successors.
	for _, s := range blk.Succs {
		switch st := s.Stmt.(type) {
		case *ast.IfStmt:
			if st.Cond == last {
				return last
			}
		case *ast.ForStmt:
			if st.Cond == last {
				return last
			}
		case *ast.CaseClause:
			// tagless switch: each case expression is a boolean condition
			for _, e := range st.List {
				if e == last && fl.taglessCase(st) {
					return last
				}
			}
		}
	}
	return nil
}

// taglessCase reports whether the clause belongs to a `switch { ... }` without tag.
func (fl *Flow) taglessCase(cc *ast.CaseClause) bool {
	tagless := false
	ast.Inspect(fl.Body, func(x ast.Node) bool {
		if sw, ok := x.(*ast.SwitchStmt); ok && sw.Tag == nil {
			for _, c := range sw.Body.List {
				if c == ast.Stmt(cc) {
					tagless = true
				}
			}
		}
		return !tagless
	})
	return tagless
}

// Fact is an atomic boolean condition known to hold (Truth) at some point.
type Fact struct {
	Expr  ast.Expr
	Truth bool
	Edge  Edge
}

func splitFacts(e ast.Expr, truth bool, edge Edge, out *[]Fact) {
	e = Unparen(e)
	switch v := e.(type) {
	case *ast.UnaryExpr:
		if v.Op == token.NOT {
			splitFacts(v.X, !truth, edge, out)
			return
		}
	case *ast.BinaryExpr:
		if v.Op == token.LAND && truth {
			splitFacts(v.X, true, edge, out)
			splitFacts(v.Y, true, edge, out)
			return
		}
		if v.Op == token.LOR && !truth {
			splitFacts(v.X, false, edge, out)
			splitFacts(v.Y, false, edge, out)
			return
		}
	}
	*out = append(*out, Fact{Expr: e, Truth: truth, Edge: edge})
}

// edgeDominates reports whether every path from entry to block w traverses edge (u -> succ si).
func (fl *Flow) edgeDominates(u, si, w int) bool {
	blk := fl.G.Blocks[u]
	v := int(blk.Succs[si].Index)
	for sj, s := range blk.Succs {
		if sj != si && int(s.Index) == v {
			return false
		}
	}
	if !fl.BlockDom(v, w) {
		return false
	}
	for _, p := range fl.preds[v] {
		if p == u {
			continue
		}
		if !fl.Reachable(p) {
			continue
		}
		if !fl.BlockDom(v, p) { // another way into v that is not a back edge
			return false
		}
	}
	return true
}

// FactsAt lists the atomic conditions established by dominating if/for edges at a location.
// Conditions are syntactic; callers that care about reassignment between test and use must check it.
func (fl *Flow) FactsAt(l Loc) []Fact {
	var out []Fact
	for _, bi := range fl.rpo {
		c := fl.CondOf(bi)
		if c == nil {
			continue
		}
		for si := 0; si < 2; si++ {
			if fl.edgeDominates(bi, si, l.B) {
				splitFacts(c, si == 0, Edge{bi, si}, &out)
			}
		}
	}
	return out
}

// CondsAt lists the unsplit conditions of the if/for edges that dominate a location
// (Truth tells which edge was taken).
func (fl *Flow) CondsAt(l Loc) []Fact {
	var out []Fact
	for _, bi := range fl.rpo {
		c := fl.CondOf(bi)
		if c == nil {
			continue
		}
		for si := 0; si < 2; si++ {
			if fl.edgeDominates(bi, si, l.B) {
				out = append(out, Fact{Expr: c, Truth: si == 0, Edge: Edge{bi, si}})
			}
		}
	}
	return out
}

// ErrCheckAfter finds, for a call whose error result is bound to errObj, the conditional
// edges taken when the error is non-nil ("failure edges"). It scans forward from the call.
func (fl *Flow) FailureEdges(errObj types.Object) map[Edge]bool {
	out := map[Edge]bool{}
	for _, bi := range fl.rpo {
		c := fl.CondOf(bi)
		if c == nil {
			continue
		}
		for si := 0; si < 2; si++ {
			var fs []Fact
			splitFacts(c, si == 0, Edge{bi, si}, &fs)
			for _, f := range fs {
				be, ok := f.Expr.(*ast.BinaryExpr)
				if !ok {
					continue
				}
				var other ast.Expr
				if ObjOf(fl.Info, be.X) == errObj {
					other = be.Y
				} else if ObjOf(fl.Info, be.Y) == errObj {
					other = be.X
				} else {
					continue
				}
				if !IsNilIdent(fl.Info, other) {
					continue
				}
				nonNil := (be.Op == token.NEQ) == f.Truth
				if be.Op != token.NEQ && be.Op != token.EQL {
					continue
				}
				if nonNil {
					out[Edge{bi, si}] = true
				}
			}
		}
	}
	return out
}

// Lits lists the function literals directly nested in n (not those nested in other literals).
func Lits(n ast.Node) []*ast.FuncLit {
	var out []*ast.FuncLit
	ast.Inspect(n, func(x ast.Node) bool {
		if l, ok := x.(*ast.FuncLit); ok {
			out = append(out, l)
			return false
		}
		return true
	})
	return out
}

// AllLits lists every function literal under n, nested ones included.
func AllLits(n ast.Node) []*ast.FuncLit {
	var out []*ast.FuncLit
	ast.Inspect(n, func(x ast.Node) bool {
		if l, ok := x.(*ast.FuncLit); ok {
			out = append(out, l)
		}
		return true
	})
	return out
}

// Bodies returns the function's own body followed by the bodies of all nested literals.
func Bodies(fd *ast.FuncDecl) []*ast.BlockStmt {
	if fd.Body == nil {
		return nil
	}
	out := []*ast.BlockStmt{fd.Body}
	for _, l := range AllLits(fd.Body) {
		out = append(out, l.Body)
	}
	return out
}

// BodyContaining picks, among the function body and its literals, the innermost body containing n.
func BodyContaining(fd *ast.FuncDecl, n ast.Node) *ast.BlockStmt {
	var best *ast.BlockStmt
	for _, b := range Bodies(fd) {
		if b.Pos() <= n.Pos() && n.End() <= b.End() {
			if best == nil || (b.End()-b.Pos()) < (best.End()-best.Pos()) {
				best = b
			}
		}
	}
	return best
}

// EdgeFacts lists the atomic conditions established by taking successor si of block b
// (empty when the block does not end in an if/for condition).
func (fl *Flow) EdgeFacts(b, si int) []Fact {
	c := fl.CondOf(b)
	if c == nil || si > 1 {
		return nil
	}
	var out []Fact
	splitFacts(c, si == 0, Edge{b, si}, &out)
	return out
}
