#!/usr/bin/env python3
"""Runs the repository's baseline test command in a scratch copy of a tree and compares
with /root/.vp/BASELINE.json stable_pass. Usage: run_baseline.py <tree> (default: fresh rsync of /repo).
Never run inside /repo: the suites write settings/ and data/ next to the packages."""
import json, subprocess, sys, os, shutil, tempfile
base = json.load(open("/root/.vp/BASELINE.json"))
stable = set(base["stable_pass"])
src = sys.argv[1] if len(sys.argv) > 1 else "/repo"
tmp = tempfile.mkdtemp(prefix="hvbase_", dir="/tmp")
tree = os.path.join(tmp, "repo")
subprocess.check_call(["rsync", "-a", "--exclude", ".git", src.rstrip("/") + "/", tree + "/"])
res = {}
try:
    for mod in [".", "sdk/go/hydraidego"]:
        cmd = ["go", "test", "-json", "-vet=off", "-count=1", "-timeout", "25m", "./..."]
        env = dict(os.environ)
        for k in ("GOFLAGS", "GOWORK", "GOTOOLCHAIN", "GOSUMDB"):
            env.pop(k, None)
        env["GOPROXY"] = "off"
        p = subprocess.run(cmd, cwd=os.path.join(tree, mod), env=env, capture_output=True, text=True)
        for line in p.stdout.splitlines():
            try:
                e = json.loads(line)
            except Exception:
                continue
            if e.get("Action") in ("pass", "fail", "skip") and e.get("Test"):
                res[f'{e["Package"]}::{e["Test"]}'] = e["Action"]
finally:
    shutil.rmtree(tmp, ignore_errors=True)
missing = sorted(t for t in stable if res.get(t) != "pass")
print(f"stable={len(stable)} passed_now={sum(1 for t in stable if res.get(t)=='pass')} not_passing={len(missing)}")
for t in missing[:40]:
    print("  NOT PASSING:", t, res.get(t))
sys.exit(1 if missing else 0)
