#!/usr/bin/env python3
"""Checker self-test (NOT a registered check): builds a behaviour-preserving variant of /repo in which
dozens of local variables and parameters are renamed (gofmt -r), makes sure it still compiles, and runs
every property's rules on it. Any VIOLATION or CHECK-BROKEN is a rule that depends on the spelling of a
local identifier - forbidden by DESIGN.md section 3."""
import json, os, shutil, subprocess, sys, tempfile
RENAMES = ["counter:takenSoFar", "treasureObj:recObj", "lockerID:gidA", "guardID:gidB", "waiter:slotW", "swampObj:swObj",
           "swampInterface:swIf", "treasureInterface:trIf", "header:hdrX", "compressed:zdata", "entry:ent0", "shouldFlush:isFull",
           "effectiveHowMany:effN", "selected:picked", "remainingTreasures:restT", "shiftedTreasures:takenT", "blockStart:bStart0",
           "existedTreasureObj:prevObj", "isNewFile:freshFile", "budget:roomLeft", "condition:guardCond", "isAscending:ascendingOrder",
           "fromNano:loNs", "toNano:hiNs", "startIdx:firstIx", "endIdx:lastIx", "exp:expNs", "now:nowNs", "matched:hit",
           "capReached:capHit", "pattern:pat", "score:rank", "best:winner", "existing:prev"]
tmp = tempfile.mkdtemp(prefix="hvrename_")
repo, verif = os.path.join(tmp, "repo"), os.path.join(tmp, "verif")
os.makedirs(verif)
env = {k: v for k, v in os.environ.items() if k not in ("GOFLAGS", "GOWORK", "GOTOOLCHAIN", "GOSUMDB")}
bad = 0
try:
    subprocess.check_call(["rsync", "-a", "--exclude", ".git", "/repo/", repo + "/"])
    shutil.copy("/verif/known_findings.json", verif)
    for pair in RENAMES:
        a, b = pair.split(":")
        files = subprocess.run(f"grep -rlw '{a}' --include=*.go app sdk | grep -v _test.go | grep -v '\\.pb\\.go'", shell=True, cwd=repo, capture_output=True, text=True).stdout.split()
        if files:
            subprocess.run(["gofmt", "-r", f"{a} -> {b}", "-w"] + files, cwd=repo, capture_output=True)
    for d in (repo, os.path.join(repo, "sdk/go/hydraidego")):
        b = subprocess.run(["go", "build", "./..."], cwd=d, capture_output=True, text=True, env=env)
        if b.returncode != 0:
            print("variant does not compile:", b.stderr[:500]); sys.exit(2)
    props = sorted(json.load(open("/verif/tools/claims.json")).keys())
    for p in props:
        r = subprocess.run(["/verif/bin/hv", "check", "-prop", p], capture_output=True, text=True, env=dict(os.environ, HV_REPO=repo, HV_VERIF=verif))
        if r.returncode != 0:
            bad += 1
            print(f"FAIL {p} exit={r.returncode}")
            print("\n".join(l[:240] for l in r.stdout.splitlines() if l.strip().startswith("rule=") or "BROKEN" in l)[:1500])
        else:
            print("ok  ", p)
finally:
    shutil.rmtree(tmp, ignore_errors=True)
print(f"rename variant: {len(RENAMES)} identifiers renamed, {bad} checks disturbed")
sys.exit(1 if bad else 0)
