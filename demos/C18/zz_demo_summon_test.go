package hydra

// DEMONSTRATION tests for defect L3: SummonSwamp can hand out two different LIVE swamp
// objects for one swamp name.
//
// SummonSwamp serialises callers of one name through a *SwampWaiter kept in
// h.summoningSwamps. The slot is removed from the map as soon as waiter.count drops to 0
// in the deferred block of a finishing owner - even though goroutines parked in
// waiter.cond.Wait() still reference that waiter. The next of them becomes "owner" of the
// orphaned waiter, while any new caller LoadOrStore()s a brand new waiter and becomes owner
// as well: the create section is no longer mutually exclusive. If the swamp does not exist
// at that moment, both call createNewSwamp and the second h.swamps.Store overwrites the first.
//
// NOTE: for this to end in two objects, the finishing owner must leave NO swamp behind
// (otherwise both owners simply find the stored swamp). With plain concurrent summons of a
// fresh name that never happens: the first owner always Stores before it releases. It does
// happen when the finishing owner's request context is cancelled (gateway passes the gRPC
// ctx) while it waited for a closing swamp - test 1 forces exactly that - and when two
// owners both wait for the same closing swamp - test 2 (stress) looks for any of these.

import (
	"context"
	"fmt"
	"os"
	"sync"
	"sync/atomic"
	"testing"
	"time"

	"github.com/hydraide/hydraide/app/core/filesystem"
	"github.com/hydraide/hydraide/app/core/hydra/lock"
	"github.com/hydraide/hydraide/app/core/hydra/swamp"
	"github.com/hydraide/hydraide/app/core/hydra/swamp/treasure"
	"github.com/hydraide/hydraide/app/core/safeops"
	"github.com/hydraide/hydraide/app/core/settings"
	"github.com/hydraide/hydraide/app/core/settings/setting"
	"github.com/hydraide/hydraide/app/name"
)

const demoL3Sanctuary = "demol3"

// demoGatedSettings wraps the real settings. createNewSwamp starts with
// settingsInterface.GetBySwampName(name) (its only caller in package hydra), so blocking
// there models a slow swamp creation (e.g. loading a big file) and lets the test see how
// many goroutines are inside the create section of one name at the same time.
type demoGatedSettings struct {
	settings.Settings
	enabled  atomic.Bool
	gateName string
	arrived  chan struct{}
	release  chan struct{}
	inside   atomic.Int32
	maxSeen  atomic.Int32
}

func (g *demoGatedSettings) GetBySwampName(n name.Name) setting.Setting {
	if g.enabled.Load() && n.Get() == g.gateName {
		cur := g.inside.Add(1)
		for {
			m := g.maxSeen.Load()
			if cur <= m || g.maxSeen.CompareAndSwap(m, cur) {
				break
			}
		}
		g.arrived <- struct{}{}
		<-g.release
		g.inside.Add(-1)
	}
	return g.Settings.GetBySwampName(n)
}

func demoL3Hydra(t *testing.T) (Hydra, *demoGatedSettings) {
	t.Helper()
	real := settings.New(testMaxDepth, testMaxFolderPerLevel)
	// persistent swamps, close after 1h idle: the idle closer never takes part
	real.RegisterPattern(name.New().Sanctuary(demoL3Sanctuary).Realm("*").Swamp("*"), false, 3600,
		&settings.FileSystemSettings{WriteIntervalSec: 1, MaxFileSizeByte: 8192})
	gs := &demoGatedSettings{Settings: real, arrived: make(chan struct{}, 64), release: make(chan struct{})}
	h := New(gs, safeops.New(), lock.New(), filesystem.New())
	t.Cleanup(func() {
		real.DeregisterPattern(name.New().Sanctuary(demoL3Sanctuary).Realm("*").Swamp("*"))
	})
	return h, gs
}

// demoSummonState reads the waiter bookkeeping. It is used ONLY to know when the helper
// goroutines are parked where the scenario needs them (instead of sleeping); it changes nothing.
func demoSummonState(h Hydra, n name.Name) (present bool, ready bool, count int32) {
	v, ok := h.(*hydra).summoningSwamps.Load(n.Get())
	if !ok {
		return false, false, 0
	}
	w := v.(*SwampWaiter)
	w.cond.L.Lock()
	ready = w.ready
	count = w.count
	w.cond.L.Unlock()
	return true, ready, count
}

func demoL3WaitUntil(t *testing.T, what string, cond func() bool) {
	t.Helper()
	deadline := time.Now().Add(10 * time.Second)
	for !cond() {
		if time.Now().After(deadline) {
			t.Fatalf("timeout while waiting for: %s", what)
		}
		time.Sleep(time.Millisecond)
	}
}

func demoL3Set(s swamp.Swamp, key, value string) treasure.TreasureStatus {
	tr := s.CreateTreasure(key)
	gid := tr.StartTreasureGuard(true)
	defer tr.ReleaseTreasureGuard(gid)
	tr.SetContentString(gid, value)
	return tr.Save(gid)
}

type demoSummonResult struct {
	who string
	s   swamp.Swamp
	err error
}

// Test 1: forced interleaving.
//
//	S1 (old instance of X) is closing: Destroy() waits for one in-flight vigil.
//	A (cancellable ctx) owns the waiter and waits for S1 to close; B1,B2 park on the waiter.
//	A's ctx is cancelled, S1 finishes closing: A returns an error WITHOUT creating, its
//	deferred block brings count to 0 and deletes the slot -> B1 is owner of the orphaned
//	waiter; C arrives, gets a NEW waiter, is owner too -> both run createNewSwamp(X).
func TestDemoL3_TwoLiveInstancesOfOneSwamp_Forced(t *testing.T) {

	h, gate := demoL3Hydra(t)
	swampName := name.New().Sanctuary(demoL3Sanctuary).Realm("forced").Swamp(fmt.Sprintf("x-%d", time.Now().UnixNano()))
	gate.gateName = swampName.Get()
	bg := context.Background()

	// old instance S1 with one record
	s1, err := h.SummonSwamp(bg, 10, swampName)
	if err != nil {
		t.Fatal(err)
	}
	s1.BeginVigil()
	demoL3Set(s1, "seed", "1")
	s1.CeaseVigil()

	_, _, leftover := demoSummonState(h, swampName)
	t.Logf("waiter count left behind by one uncontended SummonSwamp: %d", leftover)
	needWaiters := int(1 - leftover) // so that the owner's decrement lands exactly on 0
	if needWaiters < 1 {
		t.Fatalf("unexpected leftover count %d", leftover)
	}

	// S1 starts closing and is held there by an in-flight request's vigil
	s1.BeginVigil()
	destroyDone := make(chan struct{})
	go func() { s1.Destroy(); close(destroyDone) }()
	demoL3WaitUntil(t, "S1 closing", func() bool { return s1.IsClosing() })

	results := make(chan demoSummonResult, 16)
	summon := func(who string, ctx context.Context) {
		go func() {
			s, err := h.SummonSwamp(ctx, 10, swampName)
			results <- demoSummonResult{who, s, err}
		}()
	}

	// A: owner, blocks in WaitForGracefulClose(S1)
	ctxA, cancelA := context.WithCancel(bg)
	defer cancelA()
	summon("A", ctxA)
	demoL3WaitUntil(t, "A to own the waiter", func() bool { _, ready, _ := demoSummonState(h, swampName); return ready })

	// B1..Bn: park in cond.Wait() behind A
	for i := 0; i < needWaiters; i++ {
		summon(fmt.Sprintf("B%d", i+1), bg)
	}
	demoL3WaitUntil(t, "B's parked", func() bool { _, _, c := demoSummonState(h, swampName); return c == leftover+int32(needWaiters) })

	// A's client gives up; then S1 finishes closing
	cancelA()
	gate.enabled.Store(true)
	s1.CeaseVigil()
	<-destroyDone

	resA := <-results
	if resA.who != "A" || resA.err == nil {
		t.Fatalf("expected A to return first with a context error, got %+v", resA)
	}
	t.Logf("A returned %q without creating the swamp", resA.err)

	// a B is now in createNewSwamp (held at the gate) as owner of the orphaned waiter
	select {
	case <-gate.arrived:
	case <-time.After(5 * time.Second):
		t.Fatal("no B reached createNewSwamp")
	}
	present, _, _ := demoSummonState(h, swampName)
	t.Logf("a B is creating the swamp; waiter slot still registered in h.summoningSwamps: %v", present)

	// C: a new request for the same name while the creation is still running
	summon("C", bg)
	secondCreator := false
	select {
	case <-gate.arrived:
		secondCreator = true
	case <-time.After(1 * time.Second):
		// correct behaviour: C waits behind the running creation
	}
	close(gate.release)

	var got []demoSummonResult
	for i := 0; i < needWaiters+1; i++ {
		select {
		case r := <-results:
			if r.err != nil {
				t.Fatalf("%s: unexpected error %v", r.who, r.err)
			}
			got = append(got, r)
		case <-time.After(10 * time.Second):
			t.Fatal("summoners did not return")
		}
	}

	distinct := map[swamp.Swamp][]string{}
	for _, r := range got {
		distinct[r.s] = append(distinct[r.s], r.who)
	}
	registered := h.(*hydra).getSwamp(swampName)

	defer func() {
		for s := range distinct {
			s.Destroy()
		}
	}()

	if secondCreator {
		t.Errorf("createNewSwamp(%s) was entered by %d goroutines at the same time", swampName.Get(), gate.maxSeen.Load())
	}
	if len(distinct) != 1 {
		t.Errorf("SummonSwamp returned %d DIFFERENT live swamp objects for one name: %v", len(distinct), distinct)
		// consequence: a write through the instance that lost the h.swamps.Store race is
		// invisible to every later request
		for s, who := range distinct {
			if s == registered || s.IsClosing() {
				continue
			}
			s.BeginVigil()
			st := demoL3Set(s, "k", "v")
			s.CeaseVigil()
			again, _ := h.SummonSwamp(bg, 10, swampName)
			again.BeginVigil()
			visible := again.TreasureExists("k")
			again.CeaseVigil()
			t.Errorf("write through the instance held by %v: status=%v (1=new), IsClosing=%v; visible to the next SummonSwamp: %v",
				who, st, s.IsClosing(), visible)
		}
	}
}

// Test 2: bounded stress without any context cancellation. Writers (summon, vigil, set) and
// destroyers (summon, Destroy) hammer ONE persistent swamp name - the shape of the existing
// TestInMemRapidSummonDestroyRace. Every goroutine registers the object it holds under vigil;
// the defect shows as two different objects of the same name, both not closing, held at once.
func TestDemoL3_TwoLiveInstancesOfOneSwamp_Stress(t *testing.T) {

	h, _ := demoL3Hydra(t)

	budget := 25 * time.Second
	if v := os.Getenv("DEMO_L3_BUDGET_SEC"); v != "" {
		var sec int
		fmt.Sscanf(v, "%d", &sec)
		budget = time.Duration(sec) * time.Second
	}
	end := time.Now().Add(budget)

	// The waiter count of one name drifts away from 0 under load (owners never increment,
	// cancelled/looping waiters increment more than once); once it is far from 0 the slot is
	// never deleted again and the defect hides. So the stress runs in short rounds, each on a
	// fresh swamp name, until the first detection or the end of the budget.
	for round := 0; time.Now().Before(end) && !t.Failed(); round++ {
		demoL3StressRound(t, h, round, 300*time.Millisecond)
	}
}

func demoL3StressRound(t *testing.T, h Hydra, round int, budget time.Duration) {

	swampName := name.New().Sanctuary(demoL3Sanctuary).Realm("stress").Swamp(fmt.Sprintf("y-%d-%d", time.Now().UnixNano(), round))
	deadline := time.Now().Add(budget)

	var mu sync.Mutex
	holders := map[swamp.Swamp]int{}
	var twins, summons, summonErrs int64
	var firstTwin atomic.Value
	stop := make(chan struct{})
	var stopOnce sync.Once

	writer := func(id int) {
		for i := 0; time.Now().Before(deadline); i++ {
			select {
			case <-stop:
				return
			default:
			}
			ctx, cancel := context.WithTimeout(context.Background(), 60*time.Second) // never fires
			s, err := h.SummonSwamp(ctx, 10, swampName)
			cancel()
			atomic.AddInt64(&summons, 1)
			if err != nil {
				atomic.AddInt64(&summonErrs, 1)
				continue
			}
			s.BeginVigil()
			mu.Lock()
			for other, n := range holders {
				if n > 0 && other != s && !other.IsClosing() && !s.IsClosing() {
					atomic.AddInt64(&twins, 1)
					firstTwin.CompareAndSwap(nil, fmt.Sprintf("writer %d iteration %d after %s", id, i, budget-time.Until(deadline)))
					stopOnce.Do(func() { close(stop) })
				}
			}
			holders[s]++
			mu.Unlock()

			demoL3Set(s, fmt.Sprintf("w%d-%d", id, i), "v")

			mu.Lock()
			holders[s]--
			if holders[s] == 0 {
				delete(holders, s)
			}
			mu.Unlock()
			s.CeaseVigil()
		}
	}
	destroyer := func() {
		for time.Now().Before(deadline) {
			select {
			case <-stop:
				return
			default:
			}
			s, err := h.SummonSwamp(context.Background(), 10, swampName)
			atomic.AddInt64(&summons, 1)
			if err != nil {
				atomic.AddInt64(&summonErrs, 1)
				continue
			}
			s.Destroy()
			time.Sleep(200 * time.Microsecond)
		}
	}

	var wg sync.WaitGroup
	for i := 0; i < 12; i++ {
		wg.Add(1)
		go func(id int) { defer wg.Done(); writer(id) }(i)
	}
	for i := 0; i < 2; i++ {
		wg.Add(1)
		go func() { defer wg.Done(); destroyer() }()
	}
	wg.Wait()

	if s := h.(*hydra).getSwamp(swampName); s != nil {
		s.Destroy()
	}

	if twins > 0 {
		t.Errorf("round %d (summons=%d errors=%d): two different live (not closing) swamp objects of %s were held under vigil at the same time; first seen by %v",
			round, summons, summonErrs, swampName.Get(), firstTwin.Load())
	}
}
