package c09demo

import (
	"testing"
	"time"

	"github.com/hydraide/hydraide/app/core/hydra/swamp"
	"github.com/hydraide/hydraide/app/core/hydra/swamp/metadata"
	"github.com/hydraide/hydraide/app/core/hydra/swamp/treasure/msgpackpatch"
	"github.com/hydraide/hydraide/app/name"
)

// Client A obtained the in-flight record of a fresh key but has not saved yet. Client B's
// create-if-missing patch on the same key gets the same in-flight record, its condition fails,
// and its cleanup removes the record from the in-flight tracker although A still uses it. Client C
// then gets a second record object for the key; A's and C's acknowledged increments go to
// different objects.
func TestDemoC09_SharedInflightDroppedByFailedPatch(t *testing.T) {
	swampName := name.New().Sanctuary("c09demo").Realm("shared-inflight").Swamp("patch-cleanup")
	s := swamp.New(swampName, time.Hour, nil,
		func(e *swamp.Event) {}, func(i *swamp.Info) {}, func(n name.Name) {},
		metadata.NewNoop())
	s.BeginVigil()
	defer s.CeaseVigil()

	const key = "counter"
	a := s.CreateTreasure(key) // client A, between CreateTreasure and its guarded write

	// client B: conditional create-if-missing patch whose condition is not met
	res, err := s.PatchFields(key, nil, &msgpackpatch.Condition{Path: "missing", Op: msgpackpatch.CondExists}, swamp.PatchFieldsOptions{CreateIfNotExist: true})
	if err != nil {
		t.Fatal(err)
	}
	t.Logf("client B patch status: %v", res.Status)

	c := s.CreateTreasure(key) // client C
	if a != c {
		t.Fatalf("two live record objects for one key: client A holds %p, client C was handed %p - their guarded writes do not serialize and one acknowledged update is lost", a, c)
	}
}
