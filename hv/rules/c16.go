package rules

import (
	"go/ast"
	"go/token"
	"go/types"
	"strings"

	"hv/core"
)

func init() {
	register("C16", c16)
	register("C18", c18)
}

func c16(c *core.Ctx) {
	p := c.P
	cg := c.CG()
	c.Explain = "Static necessary conditions for 'acknowledged writes survive eviction, auto-destroy and shutdown': every gateway operation on a summoned swamp holds a vigil for its whole duration (BeginVigil + immediately deferred CeaseVigil); Destroy marks the swamp closing, drains the vigils, and only then destroys the storage and announces the close; Close flushes and closes the chronicler before announcing the close; only the close callback removes a swamp from the live map. Two check-then-act decisions are reported: (1) the auto-destroy decision (swamp empty) is not re-validated after the vigil drain although in-flight writers may have added records meanwhile, and (2) Close never waits for vigils, so a request that obtained the swamp just before the idle check can save after Close's final flush. Both are recorded known findings with runtime demonstrations."
	c.NotCovered = []string{"loss windows over real schedules beyond the two recorded ones", "graceful stop timing (30 s force close)", "in-memory swamps (no durability claimed)"}

	rV := c.Rule("C16.vigil", "every gateway BeginVigil on a summoned swamp is immediately followed by a deferred CeaseVigil in the same function body", 30)
	{
		for _, f := range p.FuncsIn(pkgGateway) {
			if f.Decl.Body == nil {
				continue
			}
			info := f.Info()
			for _, body := range core.Bodies(f.Decl) {
				var fl *core.Flow
				core.Calls(body, false, func(call *ast.CallExpr) {
					if !isVigilCall(info, call, "BeginVigil") {
						return
					}
					if fl == nil {
						fl = core.NewFlow(p, info, body)
					}
					c.Touch(f)
					recv := core.ExprStr(core.RecvExpr(call))
					loc, ok := fl.Locate(call)
					if !ok {
						return
					}
					isRelease := func(n ast.Node) bool {
						d, ok := n.(*ast.DeferStmt)
						if !ok {
							return false
						}
						found := false
						core.Calls(d, true, func(c2 *ast.CallExpr) {
							if isVigilCall(info, c2, "CeaseVigil") && core.ExprStr(core.RecvExpr(c2)) == recv {
								found = true
							}
						})
						return found
					}
					leaks := fl.ExitWithout(loc, nil, true, isRelease)
					rV.Check(!leaks, f.Key+":"+recv+".BeginVigil", call.Pos(), "paired with a deferred CeaseVigil", "a vigil begun here is not ceased on some exit: the swamp can never be destroyed or, conversely, the request runs without protection")
				})
			}
		}
	}

	rO := c.Rule("C16.destroyorder", "Destroy: closing=1 is stored first, the vigil drain comes before the swamp mutex and before the chronicler is destroyed, the closed event is last; hydra.swamps.Delete is called only from the close callback", 5)
	{
		f := c.Fn(pkgSwamp + ".swamp.Destroy")
		info := f.Info()
		fl := core.NewFlow(p, info, f.Decl.Body)
		find := func(pred func(*ast.CallExpr) bool) *ast.CallExpr {
			var out *ast.CallExpr
			core.Calls(f.Decl.Body, false, func(call *ast.CallExpr) {
				if out == nil && pred(call) {
					out = call
				}
			})
			return out
		}
		closing := find(func(c2 *ast.CallExpr) bool {
			return core.IsCallTo(info, c2, "sync/atomic.StoreInt32") && strings.Contains(core.ExprStr(c2.Args[0]), "closing")
		})
		drain := find(func(c2 *ast.CallExpr) bool { return isVigilCall(info, c2, "WaitForActiveVigilsClosed") })
		chron := find(func(c2 *ast.CallExpr) bool { return core.MethodNamed(info, c2, pkgChron, []string{"Chronicler"}, "Destroy") })
		ev := find(func(c2 *ast.CallExpr) bool { return core.IsWsCallTo(info, c2, pkgSwamp+".swamp.sendClosedEvent") })
		if closing == nil || drain == nil || chron == nil || ev == nil {
			rO.Bad(f.Key+":steps", f.Decl.Pos(), "Destroy no longer has the closing store, vigil drain, chronicler destroy and closed event")
		} else {
			lc, ld, lch, le := fl.MustLocate(closing), fl.MustLocate(drain), fl.MustLocate(chron), fl.MustLocate(ev)
			rO.Check(fl.Dominates(lc, ld), f.Key+":closing-before-drain", closing.Pos(), "new requests are turned away before the drain", "vigils are drained before the swamp is marked closing: new requests keep arriving and the drain may never end or end too early")
			rO.Check(fl.Dominates(ld, lch), f.Key+":drain-before-storage-destroy", drain.Pos(), "storage destroyed only after in-flight operations ended", "the storage is destroyed while operations may still be in flight")
			rO.Check(fl.Dominates(lch, le) || fl.Dominates(ld, le), f.Key+":event-last", ev.Pos(), "closed event after the drain", "the swamp is announced closed before it is drained")
		}
		// who deletes from hydra.swamps
		swampsF := p.MustField(pkgHydra, "hydra", "swamps")
		n := 0
		for _, g := range p.FuncsIn(pkgHydra) {
			if g.Decl.Body == nil {
				continue
			}
			for _, a := range core.Accesses(g.Info(), g.Decl.Body, map[*types.Var]bool{swampsF: true}, true) {
				if a.Form == "method:Delete" || a.Form == "method:LoadAndDelete" || a.Form == "method:Clear" {
					n++
					c.Touch(g)
					rO.Check(g.Key == pkgHydra+".hydra.closeEventCallbackFunction", g.Key+":swamps.Delete", a.Node.Pos(), "close callback", "a live swamp is removed from the map outside the close callback: a second instance can be created while the first is still writing")
				}
			}
		}
		if n == 0 {
			rO.Bad(pkgHydra+":swamps.Delete", token.NoPos, "no removal from the live swamp map found")
		}
		// the close callback is only invoked through sendClosedEvent (Close / Destroy)
		for _, s := range cg.CallersOf(c.Fn(pkgSwamp + ".swamp.sendClosedEvent")) {
			ok := s.Caller.Key == pkgSwamp+".swamp.Close" || s.Caller.Key == pkgSwamp+".swamp.Destroy"
			rO.Check(ok, s.Caller.Key+"->sendClosedEvent", s.Call.Pos(), "announced by Close/Destroy only", "the swamp is announced closed from "+s.Caller.Key)
		}
	}

	rC := c.Rule("C16.checkact", "a destructive lifecycle action decided on shared state is re-validated after the point where concurrent operations are excluded: (1) the auto-destroy decision (no records) after the vigil drain, (2) Close's final flush after all in-flight operations ended", 2)
	{
		// (1) every auto-destroy site: Count()==0 -> Destroy; Destroy (or the site after it) must re-check emptiness after WaitForActiveVigilsClosed
		d := c.Fn(pkgSwamp + ".swamp.Destroy")
		info := d.Info()
		fl := core.NewFlow(p, info, d.Decl.Body)
		var drain *ast.CallExpr
		core.Calls(d.Decl.Body, false, func(call *ast.CallExpr) {
			if isVigilCall(info, call, "WaitForActiveVigilsClosed") {
				drain = call
			}
		})
		recheck := false
		if drain != nil {
			ld := fl.MustLocate(drain)
			core.Calls(d.Decl.Body, false, func(call *ast.CallExpr) {
				if strings.Contains(core.ExprStr(call.Fun), "Count") {
					if l, ok := fl.Locate(call); ok && fl.Dominates(ld, l) && l != ld {
						recheck = true
					}
				}
			})
		}
		autoSites := 0
		for _, f := range p.FuncsIn(pkgSwamp) {
			if f.Decl.Body != nil && f != d && callsDirect(f, pkgSwamp+".swamp.Destroy") && callsDirectAny(f, "Count") {
				autoSites++
				c.Touch(f)
			}
		}
		rC.Check(recheck || autoSites == 0, pkgSwamp+".swamp.Destroy:auto-destroy-recheck", d.Decl.Pos(), "emptiness re-checked after the drain",
			"the swamp is destroyed because it was empty before the vigil drain, but in-flight operations (which the drain waits for) may have saved new records meanwhile; their acknowledged writes are deleted with the storage file")
		// (2) Close: waits for vigils (or re-flushes after them)
		cl := c.Fn(pkgSwamp + ".swamp.Close")
		waits := false
		core.Calls(cl.Decl.Body, true, func(call *ast.CallExpr) {
			if isVigilCall(cl.Info(), call, "WaitForActiveVigilsClosed") {
				waits = true
			}
		})
		rC.Check(waits, pkgSwamp+".swamp.Close:flush-after-vigils", cl.Decl.Pos(), "Close drains vigils before its final flush",
			"Close flushes once and closes the chronicler without waiting for operations that already hold the swamp (the idle check and Close are not atomic with SummonSwamp+BeginVigil): a save acknowledged after the flush is never written")
	}

	rS := c.Rule("C16.shutdown", "graceful stop marks the hydra shutting down before it closes the swamps, and the closing pass ranges over the live swamp map calling Close", 2)
	{
		g := c.Fn(pkgHydra + ".hydra.GracefulStop")
		info := g.Info()
		fl := core.NewFlow(p, info, g.Decl.Body)
		var mark, closeAll ast.Node
		core.Calls(g.Decl.Body, true, func(call *ast.CallExpr) {
			if core.IsWsCallTo(info, call, pkgHydra+".hydra.MarkShuttingDown") {
				mark = call
			}
			if core.IsWsCallTo(info, call, pkgHydra+".hydra.tryToCloseAllSwamps") {
				closeAll = call
			}
		})
		ok := false
		if mark != nil && closeAll != nil {
			lm, ok1 := fl.Locate(mark)
			// closeAll sits inside a literal passed to SafeGo: locate the enclosing statement
			var host ast.Node
			for _, n := range core.PathTo(g.Decl.Body, closeAll) {
				if _, isStmt := n.(ast.Stmt); isStmt && host == nil {
					if _, isBlock := n.(*ast.BlockStmt); !isBlock {
						host = n
					}
				}
			}
			if host != nil {
				lh, ok2 := fl.Locate(host)
				ok = ok1 && ok2 && fl.Dominates(lm, lh)
			}
		}
		rS.Check(ok, g.Key+":mark-then-close", g.Decl.Pos(), "no new summons once closing starts", "swamps are closed before new summons are refused: a swamp can be re-created during shutdown and its writes lost")
		t := c.Fn(pkgHydra + ".hydra.tryToCloseAllSwamps")
		closes := false
		core.Calls(t.Decl.Body, true, func(call *ast.CallExpr) {
			if core.MethodNamed(t.Info(), call, pkgSwamp, []string{"Swamp"}, "Close") {
				closes = true
			}
		})
		rS.Check(closes, t.Key+":Close", t.Decl.Pos(), "every live swamp is closed", "the closing pass does not close the swamps")
	}
}

func callsDirectAny(f *core.Func, nameContains string) bool {
	found := false
	core.Calls(f.Decl.Body, true, func(call *ast.CallExpr) {
		if strings.Contains(core.ExprStr(call.Fun), nameContains) {
			found = true
		}
	})
	return found
}

func c18(c *core.Ctx) {
	p := c.P
	c.Explain = "Static necessary conditions for 'at most one live instance per swamp': a swamp is created and stored into the live map only inside SummonSwamp's ownership region (between taking and releasing the per-name waiter); the per-name waiter slot is removed only when a reference count reaches zero, so increments and decrements of that count must balance on every path through SummonSwamp. The pinned tree does not balance them (the owner never increments, a waiter increments once per wake-up, everyone decrements once): the slot can be deleted while a waiter still uses it and a later caller gets a fresh waiter - two owners at once. Recorded as a known finding with a runtime demonstration."
	c.NotCovered = []string{"mutual exclusion of owners over real interleavings", "two hydra processes on one data directory"}

	sum := c.Fn(pkgHydra + ".hydra.SummonSwamp")
	info := sum.Info()

	rW := c.Rule("C18.who", "createNewSwamp is called and hydra.swamps.Store executed only in SummonSwamp, after the waiter was taken (ready=true) and before it is released", 2)
	{
		cg := c.CG()
		for _, s := range cg.CallersOf(c.Fn(pkgHydra + ".hydra.createNewSwamp")) {
			rW.Check(s.Caller == sum, s.Caller.Key+"->createNewSwamp", s.Call.Pos(), "only the summon owner creates", "a swamp instance is created outside SummonSwamp's ownership region")
		}
		swampsF := p.MustField(pkgHydra, "hydra", "swamps")
		for _, g := range p.FuncsIn(pkgHydra) {
			if g.Decl.Body == nil {
				continue
			}
			for _, a := range core.Accesses(g.Info(), g.Decl.Body, map[*types.Var]bool{swampsF: true}, true) {
				if a.Form == "method:Store" || a.Form == "method:LoadOrStore" || a.Form == "method:Swap" {
					rW.Check(g == sum, g.Key+":swamps.Store", a.Node.Pos(), "only the summon owner stores", "the live map is written outside SummonSwamp")
				}
			}
		}
		// inside SummonSwamp: the create call comes after `ready = true`
		fl := core.NewFlow(p, info, sum.Decl.Body)
		var take ast.Node
		for _, a := range core.Accesses(info, sum.Decl.Body, nil, false) {
			if a.Write && a.Field.Name() == "ready" && a.Form == "assign-true" {
				take = a.Node
			}
		}
		var create *ast.CallExpr
		core.Calls(sum.Decl.Body, false, func(call *ast.CallExpr) {
			if core.IsWsCallTo(info, call, pkgHydra+".hydra.createNewSwamp") {
				create = call
			}
		})
		ok := false
		if take != nil && create != nil {
			lt, lc := fl.MustLocate(take), fl.MustLocate(create)
			ok = fl.Dominates(lt, lc)
		}
		rW.Check(ok, sum.Key+":create-inside-ownership", sum.Decl.Pos(), "creation dominated by taking the waiter", "the swamp is created before the per-name waiter is owned")
	}

	rR := c.Rule("C18.refcount", "the waiter's reference count is incremented exactly once on every path that reaches the deferred decrement (whose zero test deletes the per-name slot)", 1)
	{
		countF := p.MustField(pkgHydra, "SwampWaiter", "count")
		fl := core.NewFlow(p, info, sum.Decl.Body)
		var incs []core.Access
		var dec *core.Access
		for _, body := range core.Bodies(sum.Decl) {
			for _, a := range core.Accesses(info, body, map[*types.Var]bool{countF: true}, false) {
				a := a
				if !a.Write {
					continue
				}
				if a.Form == "add+" || a.Form == "incdec+" {
					incs = append(incs, a)
				}
				if a.Form == "add-" || a.Form == "incdec-" {
					dec = &a
				}
			}
		}
		if dec == nil {
			rR.Ok(sum.Key+":waiter.count", sum.Decl.Pos(), "no reference-counted slot deletion")
		} else {
			// the defer statement that holds the decrement
			var deferStmt *ast.DeferStmt
			ast.Inspect(sum.Decl.Body, func(x ast.Node) bool {
				if d, ok := x.(*ast.DeferStmt); ok && d.Pos() <= dec.Node.Pos() && dec.Node.End() <= d.End() {
					deferStmt = d
				}
				return true
			})
			balanced := false
			why := "decrement is not deferred"
			if deferStmt != nil {
				ld := fl.MustLocate(deferStmt)
				// exactly once: some increment dominates the defer, and no increment sits in a loop (can repeat)
				dom, inLoop := false, false
				for _, inc := range incs {
					if li, ok := fl.Locate(inc.Node); ok {
						if fl.Dominates(li, ld) {
							dom = true
						}
						if again, _ := fl.CanReach(li, nil, nil, core.ContainsNode(inc.Node)); again {
							inLoop = true
						}
					}
				}
				balanced = dom && !inLoop
				why = "incrementDominatesDefer=" + b2s(dom) + " incrementInsideLoop=" + b2s(inLoop)
			}
			rR.Check(balanced, sum.Key+":waiter.count", dec.Node.Pos(), "one increment per decrement on every path",
				"unbalanced reference count ("+why+"): the owner decrements without having incremented and a waiter increments once per wake-up, so the count reaches zero - and the per-name slot is deleted - while another caller still waits on it; the next caller creates a new waiter and both become owners (two live instances appending to one file)")
		}
	}
}
