package beacon

import (
	"fmt"
	"os"
	"os/exec"
	"testing"

	"github.com/hydraide/hydraide/app/core/hydra/swamp/treasure"
	"github.com/hydraide/hydraide/app/core/hydra/swamp/treasure/guard"
)

// GetAll hands out the internal map; callers iterate it without the beacon lock while writers
// mutate it. The Go runtime aborts the whole process ("fatal error: concurrent map iteration and
// map write") - not a recoverable panic (C10). The racing part runs in a child process.
func TestDemoGetAllConcurrentIterationCrashesProcess(t *testing.T) {
	if os.Getenv("HV_DEMO_CHILD") == "1" {
		b := New()
		mk := func(i int) treasure.Treasure {
			tr := treasure.New(nil)
			g := tr.StartTreasureGuard(true, guard.BodyAuthID)
			tr.BodySetKey(g, fmt.Sprintf("k%06d", i))
			tr.ReleaseTreasureGuard(g)
			return tr
		}
		for i := 0; i < 2000; i++ {
			b.Add(mk(i))
		}
		done := make(chan struct{})
		go func() {
			for i := 2000; i < 400000; i++ {
				b.Add(mk(i))
				b.Delete(fmt.Sprintf("k%06d", i-1000))
			}
			close(done)
		}()
		for {
			select {
			case <-done:
				return
			default:
				n := 0
				for range b.GetAll() { // what swamp.GetAll / treasuresForBeacon / gateway.GetAll do
					n++
				}
			}
		}
	}
	cmd := exec.Command(os.Args[0], "-test.run", "TestDemoGetAllConcurrentIterationCrashesProcess")
	cmd.Env = append(os.Environ(), "HV_DEMO_CHILD=1")
	out, err := cmd.CombinedOutput()
	if err != nil {
		s := string(out)
		if len(s) > 300 {
			s = s[:300]
		}
		t.Fatalf("reader + writer on the same beacon killed the process: %v\n%s", err, s)
	}
}
