package rules

import (
	"go/ast"
	"go/token"
	"go/types"
	"strings"

	"hv/core"
)

func init() { register("C20", c20) }

const (
	pkgName    = "app/name"
	pkgSDKName = "sdk/name"
)

// hashRecipe describes how a function maps a name to a number: the ordered fields fed to
// xxhash.Sum64, and whether the result is  hash % <param> + 1.
type hashRecipe struct {
	fields  []string
	modParm bool
	plusOne bool
	pos     token.Pos
}

func concatFields(info *types.Info, e ast.Expr, out *[]string) bool {
	e = core.Unparen(e)
	switch v := e.(type) {
	case *ast.BinaryExpr:
		if v.Op != token.ADD {
			return false
		}
		return concatFields(info, v.X, out) && concatFields(info, v.Y, out)
	case *ast.SelectorExpr:
		if f := core.FieldOf(info, v); f != nil {
			*out = append(*out, f.Name())
			return true
		}
	case *ast.BasicLit:
		*out = append(*out, v.Value)
		return true
	}
	return false
}

func recipeOf(f *core.Func) hashRecipe {
	info := f.Info()
	var r hashRecipe
	param := paramObj(f, 0)
	ast.Inspect(f.Decl.Body, func(x ast.Node) bool {
		switch v := x.(type) {
		case *ast.CallExpr:
			if core.IsCallTo(info, v, "github.com/cespare/xxhash/v2.Sum64", "github.com/cespare/xxhash/v2.Sum64String") && len(v.Args) == 1 {
				arg := stripConv(info, v.Args[0])
				r.pos = v.Pos()
				concatFields(info, arg, &r.fields)
			}
		case *ast.BinaryExpr:
			if v.Op == token.REM && core.Mentions(info, v.Y, param) {
				r.modParm = true
			}
			if v.Op == token.ADD && isConst(info, v.Y, 1) {
				// the left side must contain the modulo
				hasRem := false
				ast.Inspect(v.X, func(y ast.Node) bool {
					if b, ok := y.(*ast.BinaryExpr); ok && b.Op == token.REM {
						hasRem = true
					}
					return true
				})
				if hasRem {
					r.plusOne = true
				}
			}
		}
		return true
	})
	return r
}

func c20(c *core.Ctx) {
	_ = c.P
	c.Explain = "Static necessary conditions for swamp addressing: the server-side and SDK-side island functions hash the same field concatenation with the same hash and both apply '% N + 1' (range 1..N, agreement); every index/slice expression of the path functions is discharged by dominating guards (computing the location cannot panic for any depth / folders-per-level); the addressing functions read only the name and their parameters (no clock, randomness, environment, map iteration)."
	c.NotCovered = []string{"hash collisions between different names", "N == 0 (division by zero is the caller's contract)", "the per-object cache returning a value computed for a different N", "client routing table contents"}

	rAgree := c.Rule("C20.agree", "app/name.GetFolderNumber and sdk name.GetIslandID hash the same ordered fields with xxhash.Sum64 and both compute hash % N + 1", 3)
	srv := c.Fn(pkgName + ".name.GetFolderNumber")
	sdk := c.Fn(pkgSDKName + ".name.GetIslandID")
	rs, rk := recipeOf(srv), recipeOf(sdk)
	rAgree.Check(len(rs.fields) >= 3 && strings.Join(rs.fields, "+") == strings.Join(rk.fields, "+"), "hash-input", rs.pos,
		"both hash "+strings.Join(rs.fields, "+"), "server hashes ["+strings.Join(rs.fields, "+")+"] but SDK hashes ["+strings.Join(rk.fields, "+")+"]: client and server disagree on the island")
	rAgree.Check(rs.modParm && rs.plusOne, srv.Key+":range", srv.Decl.Pos(), "hash % N + 1", "server island is not hash % N + 1 (result outside 1..N)")
	rAgree.Check(rk.modParm && rk.plusOne, sdk.Key+":range", sdk.Decl.Pos(), "hash % N + 1", "SDK island is not hash % N + 1 (result outside 1..N)")

	rB := c.Rule("C20.nopanic", "every index/slice expression in the path computation is within range on every path (guard discharge over SSA linear forms)", 3)
	for _, k := range []string{pkgName + ".generateHashedDirectoryPath", pkgName + ".generateSwampFolderName", pkgName + ".name.GetFullHashPath", pkgName + ".name.GetFolderNumber", pkgSDKName + ".name.GetIslandID"} {
		core.ReportBounds(c, rB, c.Fn(k), nil)
	}

	rPure := c.Rule("C20.pure", "the addressing functions call nothing from time, math/rand, crypto/rand, os and do not range over maps", 5)
	for _, k := range []string{pkgName + ".generateHashedDirectoryPath", pkgName + ".generateSwampFolderName", pkgName + ".name.GetFullHashPath", pkgName + ".name.GetFolderNumber", pkgSDKName + ".name.GetIslandID"} {
		f := c.Fn(k)
		info := f.Info()
		bad := ""
		core.Calls(f.Decl.Body, true, func(call *ast.CallExpr) {
			if fo := core.Callee(info, call); fo != nil && fo.Pkg() != nil {
				switch fo.Pkg().Path() {
				case "time", "math/rand", "math/rand/v2", "crypto/rand", "os":
					bad = core.QName(fo)
				}
			}
		})
		ast.Inspect(f.Decl.Body, func(x ast.Node) bool {
			if rs, ok := x.(*ast.RangeStmt); ok {
				if _, isMap := info.TypeOf(rs.X).Underlying().(*types.Map); isMap {
					bad = "range over map"
				}
			}
			return true
		})
		rPure.Check(bad == "", f.Key, f.Decl.Pos(), "pure", "addressing depends on "+bad)
	}
}
