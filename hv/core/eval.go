package core

import (
	"go/ast"
	"go/token"
	"go/types"
)

// Finite evaluation of boolean code over abstract atoms (DESIGN §2.2, E6).
// The caller supplies the truth value of atomic conditions for one abstract case; the
// evaluator handles !, &&, ||, constants, if/else chains and returns. Exhaustive by
// construction when the caller enumerates all cases of a finite abstraction.

// AtomVal gives the truth value of an atomic boolean expression in the current abstract case.
type AtomVal func(e ast.Expr) (val bool, known bool)

// EvalBool evaluates a boolean expression.
func EvalBool(info *types.Info, e ast.Expr, atom AtomVal) (bool, bool) {
	e = Unparen(e)
	if tv, ok := info.Types[e]; ok && tv.Value != nil {
		if b, isB := tv.Type.Underlying().(*types.Basic); isB && b.Info()&types.IsBoolean != 0 {
			return tv.Value.String() == "true", true
		}
	}
	switch v := e.(type) {
	case *ast.UnaryExpr:
		if v.Op == token.NOT {
			x, ok := EvalBool(info, v.X, atom)
			return !x, ok
		}
	case *ast.BinaryExpr:
		switch v.Op {
		case token.LAND:
			x, okx := EvalBool(info, v.X, atom)
			if okx && !x {
				return false, true
			}
			y, oky := EvalBool(info, v.Y, atom)
			if oky && !y {
				return false, true
			}
			return x && y, okx && oky
		case token.LOR:
			x, okx := EvalBool(info, v.X, atom)
			if okx && x {
				return true, true
			}
			y, oky := EvalBool(info, v.Y, atom)
			if oky && y {
				return true, true
			}
			return x || y, okx && oky
		}
	}
	return atom(e)
}

// SimOutcome is the result of simulating a statement list.
type SimOutcome struct {
	Returned bool
	Ret      *ast.ReturnStmt
	Unknown  bool   // met a construct or an atom the simulation cannot decide
	Why      string // reason for Unknown
}

// SimStmts executes if/else/return/block statements under an atom valuation. Statements
// other than if, block, return are passed to onStmt (which may record effects); when onStmt
// is nil they are ignored (they must not affect the atoms — the caller's responsibility).
func SimStmts(info *types.Info, list []ast.Stmt, atom AtomVal, onStmt func(ast.Stmt) bool) SimOutcome {
	for _, st := range list {
		switch v := st.(type) {
		case *ast.ReturnStmt:
			return SimOutcome{Returned: true, Ret: v}
		case *ast.BlockStmt:
			if o := SimStmts(info, v.List, atom, onStmt); o.Returned || o.Unknown {
				return o
			}
		case *ast.IfStmt:
			if v.Init != nil {
				// an if-initialiser binds new names the atom valuation knows nothing about
				if onStmt == nil || !onStmt(v.Init) {
					return SimOutcome{Unknown: true, Why: "if-init not modelled: " + ExprStr(v.Cond)}
				}
			}
			c, ok := EvalBool(info, v.Cond, atom)
			if !ok {
				return SimOutcome{Unknown: true, Why: "condition not decidable: " + ExprStr(v.Cond)}
			}
			if c {
				if o := SimStmts(info, v.Body.List, atom, onStmt); o.Returned || o.Unknown {
					return o
				}
			} else if v.Else != nil {
				if o := SimStmts(info, []ast.Stmt{v.Else}, atom, onStmt); o.Returned || o.Unknown {
					return o
				}
			}
		default:
			if onStmt != nil && !onStmt(st) {
				return SimOutcome{Unknown: true, Why: "statement not modelled"}
			}
		}
	}
	return SimOutcome{}
}

// BoolLit reports whether e is the constant true/false.
func BoolLit(info *types.Info, e ast.Expr) (val bool, ok bool) {
	if tv, found := info.Types[Unparen(e)]; found && tv.Value != nil {
		if b, isB := tv.Type.Underlying().(*types.Basic); isB && b.Info()&types.IsBoolean != 0 {
			return tv.Value.String() == "true", true
		}
	}
	return false, false
}
