package c07demo2

// DEMONSTRATION for property C07 (place at app/core/hydra/swamp/c07demo2/ and run
// `go test -vet=off -count=1 -run TestDemoC07_DescIndexBuildSkipped ./app/core/hydra/swamp/c07demo2/`).
//
// The ascending and the descending index of a pair are built lazily, one after the other, by the
// first index read. The incremental maintenance (addToKeyBeacon and its four siblings) tests only
// the ASCENDING index for "already built" and then also adds the record to the DESCENDING one.
// beacon.Add marks a beacon initialized as a side effect. A save that lands between the two builds
// therefore marks the still empty descending index as built, its cold build is skipped, and from
// then on descending reads return only the records saved afterwards.
//
// The window cannot be forced through any interface, so the scenario is repeated for a bounded time.

import (
	"fmt"
	"sync"
	"testing"
	"time"

	"github.com/hydraide/hydraide/app/core/hydra/swamp"
	"github.com/hydraide/hydraide/app/core/hydra/swamp/metadata"
	"github.com/hydraide/hydraide/app/name"
)

func TestDemoC07_DescIndexBuildSkipped(t *testing.T) {
	const records = 400
	deadline := time.Now().Add(40 * time.Second)
	for round := 0; time.Now().Before(deadline); round++ {
		swampName := name.New().Sanctuary("c07demo2").Realm("lazy").Swamp(fmt.Sprintf("r%d", round))
		s := swamp.New(swampName, time.Hour, nil,
			func(e *swamp.Event) {}, func(i *swamp.Info) {}, func(n name.Name) {},
			metadata.NewNoop())
		s.BeginVigil()
		put := func(key string) {
			tr := s.CreateTreasure(key)
			gid := tr.StartTreasureGuard(true)
			tr.SetContentString(gid, "v")
			tr.Save(gid)
			tr.ReleaseTreasureGuard(gid)
		}
		for i := 0; i < records; i++ {
			put(fmt.Sprintf("k%04d", i))
		}
		var wg sync.WaitGroup
		wg.Add(1)
		start := make(chan struct{})
		go func() {
			defer wg.Done()
			<-start
			for i := 0; i < round%200; i++ {
				_ = i * i
			}
			put("zzzz-late")
		}()
		close(start)
		// first index read: builds the ascending, then the descending key index
		if _, err := s.GetTreasuresByBeacon(swamp.BeaconTypeKey, swamp.IndexOrderDesc, 0, 0, nil, nil); err != nil {
			t.Fatal(err)
		}
		wg.Wait()
		desc, err := s.GetTreasuresByBeacon(swamp.BeaconTypeKey, swamp.IndexOrderDesc, 0, 0, nil, nil)
		if err != nil {
			t.Fatal(err)
		}
		asc, _ := s.GetTreasuresByBeacon(swamp.BeaconTypeKey, swamp.IndexOrderAsc, 0, 0, nil, nil)
		s.CeaseVigil()
		if len(desc) != records+1 || len(asc) != records+1 {
			t.Fatalf("round %d: the swamp holds %d records, the ascending key index returns %d and the descending key index returns %d", round, records+1, len(asc), len(desc))
		}
	}
}
