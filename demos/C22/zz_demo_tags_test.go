package hydraidego

// DEMONSTRATION for property C22 (place in sdk/go/hydraidego/ and run
// `go test -run TestDemoC22 -count=1 .`). A field's tag name must never change how
// another part of the model is encoded or decoded. Before the fix the encoder and
// decoder recognised reserved tags by substring:
//   - a body field tagged "keywords" contains "key": the decoder overwrote it with the record key;
//   - a body field tagged "values" contains "value": the encoder additionally set a typed value
//     (which the server prefers over the body), and the decoder overwrote the field with it.

import (
	"testing"

	"github.com/hydraide/hydraide/sdk/go/hydraidego/v3/hydraidepbgo"
)

type demoC22Keywords struct {
	ID       string `hydraide:"key"`
	Keywords string `hydraide:"keywords"`
	Title    string `hydraide:"title"`
}

type demoC22Values struct {
	ID     string `hydraide:"key"`
	Values string `hydraide:"values"`
	Other  int64  `hydraide:"other"`
}

func demoC22RoundTrip(t *testing.T, in any, out any) *hydraidepbgo.KeyValuePair {
	t.Helper()
	kv, err := convertCatalogModelToKeyValuePair(in, EncodingMsgPack)
	if err != nil {
		t.Fatalf("encode: %v", err)
	}
	// what the server returns for a stored map-body record: the key and the body bytes
	tr := &hydraidepbgo.Treasure{Key: kv.Key, BytesVal: kv.BytesVal, StringVal: kv.StringVal, IsExist: true}
	if err := convertProtoTreasureToCatalogModel(tr, out); err != nil {
		t.Fatalf("decode: %v", err)
	}
	return kv
}

func TestDemoC22_KeywordsFieldIsNotTheKey(t *testing.T) {
	in := &demoC22Keywords{ID: "doc-1", Keywords: "alpha beta", Title: "hello"}
	out := &demoC22Keywords{}
	demoC22RoundTrip(t, in, out)
	if *out != *in {
		t.Fatalf("round trip changed the model: saved %+v, read %+v", *in, *out)
	}
}

func TestDemoC22_ValuesFieldIsNotTheValue(t *testing.T) {
	in := &demoC22Values{ID: "doc-2", Values: "v1,v2", Other: 7}
	out := &demoC22Values{}
	kv := demoC22RoundTrip(t, in, out)
	if kv.StringVal != nil {
		t.Fatalf("a body field tagged \"values\" was also encoded as the record's typed value %q (the server prefers it over the body)", *kv.StringVal)
	}
	if *out != *in {
		t.Fatalf("round trip changed the model: saved %+v, read %+v", *in, *out)
	}
}
