package rules

import (
	"go/token"
	"go/ast"
	"go/types"
	"sort"
	"strings"

	"hv/core"
)

func init() { register("C10", c10) }

const pkgBucket = "app/core/hydra/swamp/bucket"

// guardedTables: struct fields and the sibling mutex that covers them (confirmed by reading).
var guardedTables = []core.GuardSpec{
	{Pkg: pkgBeacon, Type: "beacon", Fields: []string{"treasuresByKeys", "treasuresByOrder", "isOrdered", "sortOrder"}, Locks: []string{"mu"}, ReadsNeedLock: true},
	{Pkg: pkgBucket, Type: "bucket", Fields: []string{"byValue", "byKey"}, Locks: []string{"mu"}, ReadsNeedLock: true},
	{Pkg: pkgBucket, Type: "bucket", Fields: []string{"pending"}, Locks: []string{"pendingMu"}, ReadsNeedLock: true},
	{Pkg: pkgSwamp, Type: "swamp", Fields: []string{"buckets"}, Locks: []string{"bucketsMu"}, ReadsNeedLock: true},
	{Pkg: pkgLock, Type: "queue", Fields: []string{"callers"}, Locks: []string{"mu"}, ReadsNeedLock: true},
	{Pkg: pkgGuard, Type: "guard", Fields: []string{"waitForUnlock", "bodyAuthID"}, Locks: []string{"mu", "cond.L"}, ReadsNeedLock: true},
	{Pkg: pkgChron, Type: "chroniclerV2", Fields: []string{"writer", "writerClosed", "totalEntriesInFile", "lastFragmentation"}, Locks: []string{"mu"}, ReadsNeedLock: true},
}

func c10(c *core.Ctx) {
	p := c.P
	c.Explain = "Static necessary conditions for memory-safe concurrent use: every lock-covered container (index maps/slices, bucket maps, lock queue, guard queue, chronicler writer state) is read and written only with its mutex held; no method hands out a lock-covered map or slice by reference (callers would iterate it unlocked while writers mutate it - the runtime aborts the process); record getters read the record model only under the record mutex. The pinned tree's record setters write the model under the logical guard only, which races with the getters' RLock: recorded as a known finding."
	c.NotCovered = []string{"happens-before over real schedules (no race detector here)", "that value and metadata of one read belong to the same committed version", "atomics and channels (not modelled)", "goroutine panics (see C26)"}

	rL := c.Rule("C10.lockset", "a lock-covered field is read or written only while the covering mutex is held (write lock for writes)", 150)
	for _, spec := range guardedTables {
		core.ReportGuarded(c, rL, core.CheckGuarded(p, spec))
	}

	// C10.detach: a covered slice that is taken out of its critical section is taken out whole.
	rDt := c.Rule("C10.detach", "when a function copies the header of a lock-covered slice into a local, releases the covering lock and goes on using the local, the field has been detached before the release - assigned nil or a freshly made slice - or the local is a real copy: re-slicing the field to length 0 (or leaving it as it is) keeps the backing array shared, and the next append under the lock writes into the elements the function is still reading without it", 1)
	{
		n := 0
		for _, spec := range guardedTables {
			named, st := p.StructOf(spec.Pkg, spec.Type)
			fm := core.StructFields(st)
			covered := map[*types.Var]bool{}
			for _, fn := range spec.Fields {
				if f := fm[fn]; f != nil {
					if _, isSl := f.Type().Underlying().(*types.Slice); isSl {
						covered[f] = true
					}
				}
			}
			if len(covered) == 0 {
				continue
			}
			for _, f := range p.FuncsIn(spec.Pkg) {
				if f.Decl.Body == nil {
					continue
				}
				info := f.Info()
				for _, body := range core.Bodies(f.Decl) {
					var fl *core.Flow
					ast.Inspect(body, func(x ast.Node) bool {
						if lit, isLit := x.(*ast.FuncLit); isLit && lit.Body != body {
							return false
						}
						as, ok := x.(*ast.AssignStmt)
						if !ok || len(as.Lhs) != len(as.Rhs) {
							return true
						}
						for i, r := range as.Rhs {
							sel, isSel := core.Unparen(r).(*ast.SelectorExpr)
							if !isSel {
								continue
							}
							fld := core.FieldOf(info, sel)
							if fld == nil || !covered[fld] || namedOf(info.TypeOf(sel.X)) != named {
								continue
							}
							local := core.ObjOf(info, as.Lhs[i])
							if local == nil {
								continue
							}
							if _, isVar := local.(*types.Var); !isVar || local.(*types.Var).IsField() {
								continue
							}
							if fl == nil {
								fl = core.NewFlow(p, info, body)
							}
							la, okA := fl.Locate(as)
							if !okA {
								continue
							}
							recv := core.ExprStr(sel.X)
							// releases of a covering lock that follow the alias and precede a use of the local
							var badU *ast.CallExpr
							core.Calls(body, false, func(u *ast.CallExpr) {
								fo := core.Callee(info, u)
								if fo == nil || (fo.Name() != "Unlock" && fo.Name() != "RUnlock") || underDefer(body, u) {
									return
								}
								isCover := false
								for _, lkName := range spec.Locks {
									if core.ExprStr(core.RecvExpr(u)) == recv+"."+lkName {
										isCover = true
									}
								}
								if !isCover {
									return
								}
								lu, okU := fl.Locate(u)
								if !okU {
									return
								}
								if r1, _ := fl.CanReach(la, nil, nil, core.ContainsNode(u)); !r1 {
									return
								}
								usedAfter, _ := fl.CanReach(lu, nil, nil, func(nd ast.Node) bool {
									return nd != ast.Node(as) && core.Mentions(info, nd, local)
								})
								if !usedAfter {
									return
								}
								// detached in between: the field is assigned nil / make / a literal on every path alias -> unlock
								detach := func(nd ast.Node) bool {
									a2, isA := nd.(*ast.AssignStmt)
									if !isA || len(a2.Lhs) != len(a2.Rhs) {
										return false
									}
									for j, l := range a2.Lhs {
										if core.FieldOf(info, l) != fld {
											continue
										}
										rhs := core.Unparen(a2.Rhs[j])
										if core.IsNilIdent(info, rhs) {
											return true
										}
										if call, isCall := rhs.(*ast.CallExpr); isCall && isBuiltinCall(info, call, "make") {
											return true
										}
										if _, isLit := rhs.(*ast.CompositeLit); isLit {
											return true
										}
									}
									return false
								}
								if leak, _ := fl.CanReach(la, nil, detach, core.ContainsNode(u)); leak && badU == nil {
									badU = u
								}
							})
							n++
							c.Touch(f)
							construct := f.Key + ":" + local.Name() + ":=" + core.ExprStr(sel)
							if badU != nil {
								rDt.Bad(construct, badU.Pos(), "the local "+local.Name()+" shares the backing array of "+core.ExprStr(sel)+" and is still used after this release of the covering lock, but the field was not detached (set to nil or a fresh slice) first: appends made under the lock overwrite elements this function reads without it")
							} else {
								rDt.Ok(construct, as.Pos(), "not used after the lock is released, or the field is detached first")
							}
						}
						return true
					})
				}
			}
		}
		if n == 0 {
			rDt.Ok("guarded-tables:no-slice-aliases", token.NoPos, "no function copies the header of a covered slice into a local")
		}
	}

	rE := c.Rule("C10.escape", "no function returns a lock-covered map or slice field by reference, and none passes it to a callback or stores it into a result", 6)
	for _, spec := range guardedTables {
		named, st := p.StructOf(spec.Pkg, spec.Type)
		fm := core.StructFields(st)
		covered := map[*types.Var]bool{}
		for _, n := range spec.Fields {
			f := fm[n]
			switch f.Type().Underlying().(type) {
			case *types.Map, *types.Slice:
				covered[f] = true
			}
		}
		if len(covered) == 0 {
			continue
		}
		for _, f := range p.FuncsIn(spec.Pkg) {
			if f.Decl.Body == nil {
				continue
			}
			info := f.Info()
			ast.Inspect(f.Decl.Body, func(x ast.Node) bool {
				ret, ok := x.(*ast.ReturnStmt)
				if !ok {
					return true
				}
				for _, r := range ret.Results {
					// an expression aliases the field's storage when it is the field itself, a (re)slice of an
					// aliasing expression, or a local whose only definition is an aliasing expression
					var alias func(e ast.Expr, depth int) (*types.Var, string)
					alias = func(e ast.Expr, depth int) (*types.Var, string) {
						e = core.Unparen(e)
						switch v := e.(type) {
						case *ast.SelectorExpr:
							if fld := core.FieldOf(info, v); fld != nil && covered[fld] && namedOf(info.TypeOf(v.X)) == named {
								return fld, ""
							}
						case *ast.SliceExpr:
							if fld, _ := alias(v.X, depth); fld != nil {
								return fld, " (a sub-slice shares the backing array)"
							}
						case *ast.Ident:
							if depth < 3 {
								if def := localDef(info, f.Decl.Body, info.Uses[v]); def != nil {
									if fld, how := alias(def, depth+1); fld != nil {
										return fld, how + " (through local " + v.Name + ")"
									}
								}
							}
						}
						return nil, ""
					}
					if fld, how := alias(r, 0); fld != nil {
						c.Touch(f)
						rE.Bad(f.Key+":return "+fld.Name(), ret.Pos(), "returns the internal "+fld.Name()+" of "+spec.Type+how+": callers iterate it after the lock is released while writers mutate it in place (fatal 'concurrent map iteration and map write' for maps; torn / shifting pages for slices)")
					}
				}
				return true
			})
		}
		// positive evidence: one obligation per covered field
		var names []string
		for f := range covered {
			names = append(names, f.Name())
		}
		sort.Strings(names)
		for _, n := range names {
			rE.Ok(spec.Pkg+"."+spec.Type+"."+n+":no-escape-scan", token0(), "all return statements of the package scanned")
		}
	}

	// copy-on-write of record content
	rCow := c.Rule("C10.cow", "the byte-slice content of a record is never changed in place: getters hand the slice out to readers that use it without the record's lock, so a writer replaces it (new buffer, or append at the tail beyond every reader's length) and never stores through an index, copies into it, or re-appends into a truncated prefix of it", 1)
	{
		_, cst := p.StructOf(pkgTreasure, "Content")
		sliceFields := map[*types.Var]bool{}
		for _, f := range core.StructFields(cst) {
			t := f.Type()
			if pt, ok := t.(*types.Pointer); ok {
				t = pt.Elem()
			}
			if _, ok := t.Underlying().(*types.Slice); ok {
				sliceFields[f] = true
			}
		}
		n := 0
		for _, f := range p.FuncsIn(pkgTreasure) {
			if f.Decl.Body == nil {
				continue
			}
			info := f.Info()
			var alias func(e ast.Expr, depth int) *types.Var
			alias = func(e ast.Expr, depth int) *types.Var {
				e = core.Unparen(e)
				switch v := e.(type) {
				case *ast.StarExpr:
					return alias(v.X, depth)
				case *ast.SelectorExpr:
					if fv := core.FieldOf(info, v); fv != nil && sliceFields[fv] {
						return fv
					}
				case *ast.SliceExpr:
					return alias(v.X, depth)
				case *ast.Ident:
					if depth < 3 {
						if def := localDef(info, f.Decl.Body, info.Uses[v]); def != nil {
							return alias(def, depth+1)
						}
					}
				}
				return nil
			}
			touched := false
			ast.Inspect(f.Decl.Body, func(x ast.Node) bool {
				switch v := x.(type) {
				case *ast.AssignStmt:
					for _, lhs := range v.Lhs {
						if ix, ok := core.Unparen(lhs).(*ast.IndexExpr); ok {
							if fv := alias(ix.X, 0); fv != nil {
								touched = true
								rCow.Bad(f.Key+":"+fv.Name()+":index-store", v.Pos(), "an element of Content."+fv.Name()+" is overwritten in place: readers that obtained the slice from a getter read it without the record's lock and can see a value that was never committed")
							}
						}
					}
				case *ast.CallExpr:
					id, ok := core.Unparen(v.Fun).(*ast.Ident)
					if !ok {
						return true
					}
					if _, isB := info.Uses[id].(*types.Builtin); !isB {
						return true
					}
					switch id.Name {
					case "copy":
						if len(v.Args) == 2 {
							if fv := alias(v.Args[0], 0); fv != nil {
								touched = true
								rCow.Bad(f.Key+":"+fv.Name()+":copy-into", v.Pos(), "bytes are copied into Content."+fv.Name()+" in place: lock-free readers of the slice can see a torn value")
							}
						}
					case "append":
						if len(v.Args) >= 1 {
							cands := []ast.Expr{core.Unparen(v.Args[0])}
							if id0, isId := cands[0].(*ast.Ident); isId {
								// every definition of the local (it is typically re-assigned by the append itself)
								obj := info.Uses[id0]
								ast.Inspect(f.Decl.Body, func(y ast.Node) bool {
									if as, isAs := y.(*ast.AssignStmt); isAs && len(as.Lhs) == len(as.Rhs) {
										for i, l := range as.Lhs {
											if li, isL := l.(*ast.Ident); isL && (info.Defs[li] == obj || info.Uses[li] == obj) {
												cands = append(cands, core.Unparen(as.Rhs[i]))
											}
										}
									}
									return true
								})
							}
							for _, a0 := range cands {
								se, isSlice := a0.(*ast.SliceExpr)
								if !isSlice || se.High == nil {
									continue
								}
								if fv := alias(se.X, 0); fv != nil {
									touched = true
									rCow.Bad(f.Key+":"+fv.Name()+":append-into-prefix", v.Pos(), "append re-uses a truncated prefix of Content."+fv.Name()+" (in-place filter / delete): the kept elements are shifted inside the buffer that lock-free readers are decoding, they can return a set that was never committed (e.g. [1 3 3] from [1 2 3])")
								}
							}
						}
					}
				}
				return true
			})
			if touched {
				n++
				c.Touch(f)
			}
		}
		rCow.Ok(pkgTreasure+":content-slices:scan", token0(), "all index stores, copy() and append() calls of the package scanned")
	}

	// record model: getters under t.mu; setters (known finding, aggregated)
	rT := c.Rule("C10.record", "methods of the record type read the model and change flags only under t.mu (RLock), and write them under t.mu.Lock", 40)
	{
		spec := core.GuardSpec{Pkg: pkgTreasure, Type: "treasure", Fields: []string{"treasure", "expirationTimeChanged", "contentChanged", "contentTypeChanged", "createdAtChanged", "createdByChanged", "deletedAtChanged", "deletedByChanged", "modifiedAtChanged", "modifiedByChanged", "shadowDeleted"}, Locks: []string{"mu"}, ReadsNeedLock: true}
		sites := core.CheckGuarded(p, spec)
		// G: methods that take a guard ID (they run under the logical record guard) plus helpers only they call
		cg := c.CG()
		inG := map[*core.Func]bool{}
		takesGuard := func(f *core.Func) bool {
			sig := f.Obj.Type().(*types.Signature)
			for i := 0; i < sig.Params().Len(); i++ {
				if strings.HasSuffix(sig.Params().At(i).Type().String(), "guard.ID") {
					return true
				}
			}
			return false
		}
		for _, f := range p.FuncsIn(pkgTreasure) {
			if takesGuard(f) {
				inG[f] = true
			}
		}
		for changed := true; changed; {
			changed = false
			for _, f := range p.FuncsIn(pkgTreasure) {
				if inG[f] {
					continue
				}
				callers := cg.CallersOf(f)
				if len(callers) == 0 {
					continue
				}
				all := true
				for _, s := range callers {
					if !inG[s.Caller] {
						all = false
					}
				}
				if all {
					inG[f] = true
					changed = true
				}
			}
		}
		unlockedGuardHolders := map[string]bool{}
		for _, s := range sites {
			c.Touch(s.Fn)
			if inG[s.Fn] {
				if !s.OK {
					unlockedGuardHolders[s.Fn.Obj.Name()] = true
				}
				continue
			}
			if len(cg.CallersOf(s.Fn)) == 0 && !s.OK {
				continue // no production caller (dead interface method): cannot race
			}
			kind := "read"
			if s.Acc.Write {
				kind = "write:" + s.Acc.Form
			}
			construct := s.Fn.Key + ":" + s.Acc.Field.Name() + ":" + kind
			if s.OK {
				rT.Ok(construct, s.Acc.Node.Pos(), s.Via+" "+s.Held.String())
			} else {
				rT.Bad(construct, s.Acc.Node.Pos(), s.Detail)
			}
		}
		var names []string
		for n := range unlockedGuardHolders {
			names = append(names, n)
		}
		sort.Strings(names)
		rT.Check(len(names) == 0, pkgTreasure+".treasure:guard-holders-access-model-without-mu", p.Fn(pkgTreasure+".treasure.Save").Decl.Pos(), "guard-holding methods lock t.mu",
			"methods that run under the logical record guard access the model without t.mu ("+itoaN(len(names))+" methods, e.g. "+strings.Join(firstN(names, 6), ", ")+") while getters read it under t.mu.RLock only: a data race between a writer holding the guard and any concurrent reader")
	}
}

func firstN(s []string, n int) []string {
	if len(s) > n {
		return s[:n]
	}
	return s
}

func itoaN(i int) string {
	if i == 0 {
		return "0"
	}
	s := ""
	for i > 0 {
		s = string(rune('0'+i%10)) + s
		i /= 10
	}
	return s
}
