package core

import (
	"fmt"
	"go/ast"
	"go/constant"
	"go/token"
	"go/types"
	"sort"
	"strings"

	"golang.org/x/tools/go/ssa"
	"golang.org/x/tools/go/ssa/ssautil"
)

// ---------------------------------------------------------------------------------------
// Guard discharge for index / slice expressions (DESIGN §2.2a, E4h).
//
// Values are SSA values. A linear form is  c + Σ k_i·atom_i . Every index or slice expression
// of a designated function yields obligations "form >= 0" (lo >= 0, hi <= len, lo <= hi,
// i < len). An obligation is discharged when its minimum over the atoms' known intervals is
// >= 0, possibly after subtracting one or two branch facts that hold at the instruction
// (conditions of If instructions whose taken edge dominates it), and after case-splitting
// phi atoms per incoming edge (with that edge's facts). Anything else is reported.
// No solver is involved; the domain is intervals + linear combination of at most two facts.
// ---------------------------------------------------------------------------------------

// SSA builds (once) the SSA form of the workspace packages.
func (p *Prog) SSA() *ssa.Program {
	if p.ssaProg != nil {
		return p.ssaProg
	}
	prog, pkgs := ssautil.AllPackages(p.Roots, ssa.BuilderMode(0))
	for _, sp := range pkgs {
		if sp != nil && strings.HasPrefix(sp.Pkg.Path(), ModRoot) {
			sp.Build()
		}
	}
	p.ssaProg = prog
	return prog
}

// SSAFunc returns the SSA function of a workspace function.
func (p *Prog) SSAFunc(f *Func) *ssa.Function {
	fn := p.SSA().FuncValue(f.Obj)
	if fn == nil {
		Failf("no SSA for %s", f.Key)
	}
	return fn
}

type lin struct {
	c int64
	t map[string]int64
}

func (a lin) clone() lin {
	o := lin{c: a.c, t: map[string]int64{}}
	for k, v := range a.t {
		o.t[k] = v
	}
	return o
}

func (a lin) add(b lin, k int64) lin {
	o := a.clone()
	o.c += k * b.c
	for key, v := range b.t {
		o.t[key] += k * v
		if o.t[key] == 0 {
			delete(o.t, key)
		}
	}
	return o
}

func constLin(c int64) lin { return lin{c: c, t: map[string]int64{}} }

func (a lin) String() string {
	var ks []string
	for k := range a.t {
		ks = append(ks, k)
	}
	sort.Strings(ks)
	s := fmt.Sprintf("%d", a.c)
	for _, k := range ks {
		s += fmt.Sprintf(" %+d*%s", a.t[k], k)
	}
	return s
}

type atom struct {
	key   string
	v     ssa.Value
	lo    int64
	hasLo bool
	hi    int64
	hasHi bool
	phi   *ssa.Phi
}

// BoundsEngine analyses one SSA function.
type BoundsEngine struct {
	p     *Prog
	fn    *ssa.Function
	atoms map[string]*atom
	names map[ssa.Value]string
	forms map[ssa.Value]*lin
	busy  map[ssa.Value]bool
	// Assume lists extra facts (by description) the caller declares, e.g. post-conditions of callees.
	AssumeLo map[string]int64
}

func newBoundsEngine(p *Prog, fn *ssa.Function) *BoundsEngine {
	return &BoundsEngine{p: p, fn: fn, atoms: map[string]*atom{}, names: map[ssa.Value]string{}, forms: map[ssa.Value]*lin{}, busy: map[ssa.Value]bool{}}
}

func (e *BoundsEngine) vname(v ssa.Value) string {
	if n, ok := e.names[v]; ok {
		return n
	}
	var n string
	if ld := e.stableLoad(v); ld != "" {
		e.names[v] = ld
		return ld
	}
	switch x := v.(type) {
	case *ssa.Parameter:
		n = x.Name()
	case *ssa.Const:
		n = x.String()
	case *ssa.Global:
		n = x.String()
	default:
		n = v.Name()
	}
	e.names[v] = n
	return n
}

func intRange(t types.Type) (lo, hi int64, okLo, okHi bool) {
	b, ok := t.Underlying().(*types.Basic)
	if !ok {
		return
	}
	switch b.Kind() {
	case types.Uint8:
		return 0, 255, true, true
	case types.Uint16:
		return 0, 65535, true, true
	case types.Uint32:
		return 0, 1<<32 - 1, true, true
	case types.Uint, types.Uint64, types.Uintptr:
		return 0, 0, true, false
	case types.Int8:
		return -128, 127, true, true
	case types.Int16:
		return -32768, 32767, true, true
	case types.Int32:
		return -(1 << 31), 1<<31 - 1, true, true
	}
	return
}

func isIntType(t types.Type) bool {
	b, ok := t.Underlying().(*types.Basic)
	return ok && b.Info()&types.IsInteger != 0
}

func intBits(t types.Type) (bits int, unsigned bool) {
	b, ok := t.Underlying().(*types.Basic)
	if !ok {
		return 0, false
	}
	switch b.Kind() {
	case types.Int8:
		return 8, false
	case types.Int16:
		return 16, false
	case types.Int32:
		return 32, false
	case types.Int, types.Int64:
		return 64, false
	case types.Uint8:
		return 8, true
	case types.Uint16:
		return 16, true
	case types.Uint32:
		return 32, true
	case types.Uint, types.Uint64, types.Uintptr:
		return 64, true
	}
	return 0, false
}

func (e *BoundsEngine) mkAtom(key string, v ssa.Value) *atom {
	if a, ok := e.atoms[key]; ok {
		return a
	}
	a := &atom{key: key, v: v}
	if v != nil {
		if lo, hi, okLo, okHi := intRange(v.Type()); okLo || okHi {
			a.lo, a.hi, a.hasLo, a.hasHi = lo, hi, okLo, okHi
		}
	}
	if lo, ok := e.AssumeLo[key]; ok {
		a.lo, a.hasLo = lo, true
	}
	e.atoms[key] = a
	return a
}

func atomLin(a *atom) lin { return lin{t: map[string]int64{a.key: 1}} }

// lenForm returns the linear form of len(x).
func (e *BoundsEngine) lenForm(x ssa.Value) lin {
	switch v := x.(type) {
	case *ssa.Slice:
		// len(v) = high - low
		var hi lin
		if v.High != nil {
			hi = e.form(v.High)
		} else {
			hi = e.lenForm(v.X)
		}
		lo := constLin(0)
		if v.Low != nil {
			lo = e.form(v.Low)
		}
		return hi.add(lo, -1)
	case *ssa.MakeSlice:
		return e.form(v.Len)
	case *ssa.Const:
		if v.Value != nil && v.Value.Kind() == constant.String {
			return constLin(int64(len(constant.StringVal(v.Value))))
		}
	case *ssa.ChangeType:
		return e.lenForm(v.X)
	case *ssa.Convert:
		// string(bytes) / []byte(string): same length
		if _, ok := v.X.Type().Underlying().(*types.Slice); ok {
			return e.lenForm(v.X)
		}
		if b, ok := v.X.Type().Underlying().(*types.Basic); ok && b.Info()&types.IsString != 0 {
			if _, ok2 := v.Type().Underlying().(*types.Slice); ok2 {
				return e.lenForm(v.X)
			}
		}
	}
	t := x.Type().Underlying()
	if pt, ok := t.(*types.Pointer); ok {
		t = pt.Elem().Underlying()
	}
	if at, ok := t.(*types.Array); ok {
		return constLin(at.Len())
	}
	a := e.mkAtom("len("+e.vname(x)+")", nil)
	a.lo, a.hasLo = 0, true
	if lo, ok := e.AssumeLo[a.key]; ok {
		a.lo = lo
	}
	// len(strings.Split(s, sep)) >= 1 for a constant non-empty separator
	if c, ok := x.(*ssa.Call); ok {
		if f := c.Call.StaticCallee(); f != nil && f.Pkg != nil && f.Pkg.Pkg.Path() == "strings" && (f.Name() == "Split" || f.Name() == "SplitN") {
			if k, ok := c.Call.Args[1].(*ssa.Const); ok && k.Value != nil && constant.StringVal(k.Value) != "" && a.lo < 1 {
				a.lo = 1
			}
		}
	}
	return atomLin(a)
}

// form returns the linear form of an integer SSA value.
func (e *BoundsEngine) form(v ssa.Value) lin {
	if f, ok := e.forms[v]; ok {
		return f.clone()
	}
	if e.busy[v] {
		return atomLin(e.mkAtom(e.vname(v), v))
	}
	e.busy[v] = true
	f := e.form1(v)
	delete(e.busy, v)
	e.forms[v] = &f
	return f.clone()
}

func (e *BoundsEngine) form1(v ssa.Value) lin {
	switch x := v.(type) {
	case *ssa.Const:
		if x.Value != nil && x.Value.Kind() == constant.Int {
			if i, ok := constant.Int64Val(x.Value); ok {
				return constLin(i)
			}
		}
	case *ssa.BinOp:
		switch x.Op {
		case token.ADD:
			return e.form(x.X).add(e.form(x.Y), 1)
		case token.SUB:
			if _, uns := intBits(x.Type()); !uns {
				return e.form(x.X).add(e.form(x.Y), -1)
			}
		case token.MUL:
			fx, fy := e.form(x.X), e.form(x.Y)
			if len(fx.t) == 0 {
				return constLin(0).add(fy, fx.c)
			}
			if len(fy.t) == 0 {
				return constLin(0).add(fx, fy.c)
			}
			a := e.mkAtom("("+fx.String()+")*("+fy.String()+")", v)
			if lx, ok1 := e.minOf(fx); ok1 && lx >= 0 {
				if ly, ok2 := e.minOf(fy); ok2 && ly >= 0 {
					a.lo, a.hasLo = 0, true
				}
			}
			return atomLin(a)
		}
	case *ssa.Convert:
		sb, su := intBits(x.X.Type())
		tb, tu := intBits(x.Type())
		if sb > 0 && tb > 0 {
			// value-preserving conversions are transparent
			if (su == tu && tb >= sb) || (su && !tu && tb > sb) {
				return e.form(x.X)
			}
			// int -> wider/equal unsigned or narrowing: not transparent (may wrap)
		}
	case *ssa.ChangeType:
		if isIntType(x.X.Type()) {
			return e.form(x.X)
		}
	case *ssa.Call:
		if b, ok := x.Call.Value.(*ssa.Builtin); ok && (b.Name() == "len" || b.Name() == "cap") && len(x.Call.Args) == 1 {
			if b.Name() == "len" {
				return e.lenForm(x.Call.Args[0])
			}
			a := e.mkAtom("cap("+e.vname(x.Call.Args[0])+")", nil)
			a.lo, a.hasLo = 0, true
			return atomLin(a)
		}
		if b, ok := x.Call.Value.(*ssa.Builtin); ok && (b.Name() == "min" || b.Name() == "max") {
			break
		}
	case *ssa.Phi:
		a := e.mkAtom(e.vname(v), v)
		a.phi = x
		// inductive counter: operands are constants or phi + positive constant
		lo, ok := int64(0), true
		first := true
		for _, ed := range x.Edges {
			if ed == v {
				continue
			}
			// loop-carried operand phi + non-negative constant (recognised structurally: the form of
			// the operand is not available while the phi itself is being evaluated)
			if bo, isBin := ed.(*ssa.BinOp); isBin && bo.Op == token.ADD {
				var other ssa.Value
				if bo.X == v {
					other = bo.Y
				} else if bo.Y == v {
					other = bo.X
				}
				if k, isK := other.(*ssa.Const); isK && k.Value != nil && k.Value.Kind() == constant.Int {
					if iv, okv := constant.Int64Val(k.Value); okv && iv >= 0 {
						continue
					}
				}
			}
			fe := e.form(ed)
			if len(fe.t) == 0 {
				if first || fe.c < lo {
					lo = fe.c
				}
				first = false
				continue
			}
			if fe.t[a.key] == 1 {
				// self + step: fine when the step cannot be negative
				step := fe.clone()
				delete(step.t, a.key)
				if m, okm := e.minOf(step); okm && m >= 0 {
					continue
				}
			}
			// operand with its own lower bound
			if m, okm := e.minOf(fe); okm && !e.mentions(fe, a.key) {
				if first || m < lo {
					lo = m
				}
				first = false
				continue
			}
			ok = false
		}
		if ok && !first {
			if !a.hasLo || lo > a.lo {
				a.lo, a.hasLo = lo, true
			}
		}
		return atomLin(a)
	}
	return atomLin(e.mkAtom(e.vname(v), v))
}

func (e *BoundsEngine) mentions(f lin, key string) bool {
	_, ok := f.t[key]
	return ok
}

// minOf computes the minimum of a form over the atoms' intervals.
func (e *BoundsEngine) minOf(f lin) (int64, bool) {
	m := f.c
	for k, c := range f.t {
		a := e.atoms[k]
		if a == nil {
			return 0, false
		}
		if c > 0 {
			if !a.hasLo {
				return 0, false
			}
			m += c * a.lo
		} else {
			if !a.hasHi {
				return 0, false
			}
			m += c * a.hi
		}
	}
	return m, true
}

// condFacts converts a comparison into facts "form >= 0" for the given truth value.
func (e *BoundsEngine) condFacts(cond ssa.Value, truth bool) []lin {
	b, ok := cond.(*ssa.BinOp)
	if !ok {
		if u, ok := cond.(*ssa.UnOp); ok && u.Op == token.NOT {
			return e.condFacts(u.X, !truth)
		}
		return nil
	}
	if !isIntType(b.X.Type()) || !isIntType(b.Y.Type()) {
		return nil
	}
	op := b.Op
	if !truth {
		op = Negate(op)
	}
	x, y := e.form(b.X), e.form(b.Y)
	switch op {
	case token.LSS: // y - x - 1 >= 0
		return []lin{y.add(x, -1).add(constLin(1), -1)}
	case token.LEQ:
		return []lin{y.add(x, -1)}
	case token.GTR:
		return []lin{x.add(y, -1).add(constLin(1), -1)}
	case token.GEQ:
		return []lin{x.add(y, -1)}
	case token.EQL:
		return []lin{x.add(y, -1), y.add(x, -1)}
	}
	return nil
}

// edgeFacts: facts contributed by the edge pred -> succ.
func (e *BoundsEngine) edgeFacts(pred, succ *ssa.BasicBlock) []lin {
	if len(pred.Instrs) == 0 {
		return nil
	}
	iff, ok := pred.Instrs[len(pred.Instrs)-1].(*ssa.If)
	if !ok || len(pred.Succs) != 2 || pred.Succs[0] == pred.Succs[1] {
		return nil
	}
	if pred.Succs[0] == succ {
		return e.condFacts(iff.Cond, true)
	}
	if pred.Succs[1] == succ {
		return e.condFacts(iff.Cond, false)
	}
	return nil
}

// factsAt: facts of all conditional edges that dominate block b.
func (e *BoundsEngine) factsAt(b *ssa.BasicBlock) []lin {
	var out []lin
	for _, x := range e.fn.Blocks {
		if len(x.Succs) != 2 || x.Succs[0] == x.Succs[1] {
			continue
		}
		for _, s := range x.Succs {
			if !s.Dominates(b) {
				continue
			}
			// every other way into s must come from inside s's dominance region (back edges)
			okEdge := true
			for _, p := range s.Preds {
				if p != x && !s.Dominates(p) {
					okEdge = false
				}
			}
			if okEdge {
				out = append(out, e.edgeFacts(x, s)...)
			}
		}
	}
	return out
}

// prove decides goal >= 0 at block b.
func (e *BoundsEngine) prove(goal lin, facts []lin, depth int) bool {
	if m, ok := e.minOf(goal); ok && m >= 0 {
		return true
	}
	for i, f := range facts {
		g1 := goal.add(f, -1)
		if m, ok := e.minOf(g1); ok && m >= 0 {
			return true
		}
		for j := i; j < len(facts); j++ {
			g2 := g1.add(facts[j], -1)
			if m, ok := e.minOf(g2); ok && m >= 0 {
				return true
			}
		}
	}
	// infeasible fact set (two facts summing to a negative maximum) makes the goal vacuous
	for i, f := range facts {
		for j := i + 1; j < len(facts); j++ {
			s := f.add(facts[j], 1)
			if m, ok := e.maxOf(s); ok && m < 0 {
				return true
			}
		}
	}
	if depth <= 0 {
		return false
	}
	// case split on one phi atom of the goal
	var keys []string
	for k := range goal.t {
		keys = append(keys, k)
	}
	sort.Strings(keys)
	for _, k := range keys {
		a := e.atoms[k]
		if a == nil || a.phi == nil {
			continue
		}
		phi := a.phi
		all := true
		for i, ed := range phi.Edges {
			pred := phi.Block().Preds[i]
			sub := e.form(ed)
			if e.mentions(sub, k) {
				all = false // loop-carried operand: cannot split
				break
			}
			g := goal.clone()
			coef := g.t[k]
			delete(g.t, k)
			g = g.add(sub, coef)
			fs := append(append([]lin{}, facts...), e.edgeFacts(pred, phi.Block())...)
			fs = append(fs, e.factsAt(pred)...)
			if !e.prove(g, fs, depth-1) {
				all = false
				break
			}
		}
		if all {
			return true
		}
	}
	return false
}

func (e *BoundsEngine) maxOf(f lin) (int64, bool) {
	n := constLin(0).add(f, -1)
	m, ok := e.minOf(n)
	return -m, ok
}

// BoundOb is one index/slice obligation.
type BoundOb struct {
	Pos    token.Pos
	Kind   string // index, slice-hi, slice-lohi, slice-lo
	Expr   string
	Goal   string
	OK     bool
	Detail string
}

// CheckBounds discharges every index and slice expression of a function (literals included).
func CheckBounds(p *Prog, f *Func, assumeLo map[string]int64) []BoundOb {
	fn := p.SSAFunc(f)
	var out []BoundOb
	var visit func(fn *ssa.Function)
	visit = func(fn *ssa.Function) {
		e := newBoundsEngine(p, fn)
		e.AssumeLo = assumeLo
		for _, b := range fn.Blocks {
			var facts []lin
			got := false
			getFacts := func() []lin {
				if !got {
					facts = e.factsAt(b)
					got = true
				}
				return facts
			}
			add := func(pos token.Pos, kind, expr string, goal lin) {
				ok := e.prove(goal, getFacts(), 3)
				d := ""
				if !ok {
					d = "cannot show " + goal.String() + " >= 0"
				}
				out = append(out, BoundOb{Pos: pos, Kind: kind, Expr: expr, Goal: goal.String(), OK: ok, Detail: d})
			}
			for _, ins := range b.Instrs {
				switch v := ins.(type) {
				case *ssa.Slice:
					ln := e.lenForm(v.X)
					name := e.vname(v.X)
					var lo, hi lin
					hasLo, hasHi := v.Low != nil, v.High != nil
					if hasLo {
						lo = e.form(v.Low)
						add(v.Pos(), "slice-lo>=0", name, lo)
					} else {
						lo = constLin(0)
					}
					if hasHi {
						hi = e.form(v.High)
						add(v.Pos(), "slice-hi<=len", name, ln.add(hi, -1))
					} else {
						hi = ln
					}
					if hasLo {
						add(v.Pos(), "slice-lo<=hi", name, hi.add(lo, -1))
					}
				case *ssa.IndexAddr:
					ix := e.form(v.Index)
					ln := e.lenForm(v.X)
					add(v.Pos(), "index>=0", e.vname(v.X), ix)
					add(v.Pos(), "index<len", e.vname(v.X), ln.add(ix, -1).add(constLin(1), -1))
				case *ssa.Index:
					ix := e.form(v.Index)
					ln := e.lenForm(v.X)
					add(v.Pos(), "index>=0", e.vname(v.X), ix)
					add(v.Pos(), "index<len", e.vname(v.X), ln.add(ix, -1).add(constLin(1), -1))
				case *ssa.Lookup:
					if b, ok := v.X.Type().Underlying().(*types.Basic); ok && b.Info()&types.IsString != 0 {
						ix := e.form(v.Index)
						ln := e.lenForm(v.X)
						add(v.Pos(), "index>=0", e.vname(v.X), ix)
						add(v.Pos(), "index<len", e.vname(v.X), ln.add(ix, -1).add(constLin(1), -1))
					}
				}
			}
		}
		for _, af := range fn.AnonFuncs {
			visit(af)
		}
	}
	visit(fn)
	return out
}

// ReportBounds records the obligations of one function under a rule; returns the number recorded.
func ReportBounds(c *Ctx, r *Rule, f *Func, assumeLo map[string]int64) int {
	c.Touch(f)
	obs := CheckBounds(c.P, f, assumeLo)
	// name obligations after the source expression (stable across edits), not the SSA register
	src := map[token.Pos]string{}
	ast.Inspect(f.Decl, func(x ast.Node) bool {
		switch v := x.(type) {
		case *ast.IndexExpr:
			src[v.Lbrack] = ExprStr(v.X) + "[" + ExprStr(v.Index) + "]"
		case *ast.SliceExpr:
			src[v.Lbrack] = ExprStr(v.X) + "[" + ExprStr(v.Low) + ":" + ExprStr(v.High) + "]"
		}
		return true
	})
	for _, o := range obs {
		name, ok := src[o.Pos]
		if !ok {
			name = "synthetic(" + o.Expr + ")"
			if !o.OK {
				name = "synthetic@" + c.P.Pos(o.Pos)
			}
		}
		o.Expr = name
		construct := fmt.Sprintf("%s:%s:%s", f.Key, name, o.Kind)
		if o.OK {
			r.Ok(construct, o.Pos, o.Goal+" >= 0")
		} else {
			r.Bad(construct, o.Pos, "possible out-of-range "+o.Kind+" on "+o.Expr+": "+o.Detail)
		}
	}
	return len(obs)
}


// stableLoad names a load of a field of a non-escaping local struct so that two loads of the
// same field denote the same value: allowed when the local is only ever written as a whole and
// every such store dominates the load (go/ssa performs no CSE on loads).
func (e *BoundsEngine) stableLoad(v ssa.Value) string {
	u, ok := v.(*ssa.UnOp)
	if !ok || u.Op != token.MUL {
		return ""
	}
	fa, ok := u.X.(*ssa.FieldAddr)
	if !ok {
		return ""
	}
	al, ok := fa.X.(*ssa.Alloc)
	if !ok || al.Heap {
		return ""
	}
	for _, ref := range *al.Referrers() {
		switch r := ref.(type) {
		case *ssa.Store:
			if r.Addr != ssa.Value(al) {
				return ""
			}
			if !r.Block().Dominates(u.Block()) {
				return ""
			}
			if r.Block() == u.Block() {
				// same block: the store must come first
				before := false
				for _, ins := range r.Block().Instrs {
					if ins == ssa.Instruction(r) {
						before = true
					}
					if ins == ssa.Instruction(u) {
						if !before {
							return ""
						}
						break
					}
				}
			}
		case *ssa.FieldAddr:
			// field addresses are fine as long as nothing is stored through them
			for _, r2 := range *r.Referrers() {
				if st, isStore := r2.(*ssa.Store); isStore && st.Addr == ssa.Value(r) {
					return ""
				}
				if _, isCall := r2.(*ssa.Call); isCall {
					return "" // address escapes into a call
				}
			}
		case *ssa.UnOp, *ssa.DebugRef:
		default:
			return ""
		}
	}
	return fmt.Sprintf("ld(%s.%d)", al.Name(), fa.Field)
}
