package treasure

import (
	"testing"

	"github.com/hydraide/hydraide/app/core/hydra/swamp/treasure/guard"
)

// Close/reload must preserve the value type and value of zero-like values (C05).
// The record model is gob-encoded; gob omits zero values, also behind pointers.
func TestDemoTypedZeroValuesReloadAsVoid(t *testing.T) {
	cases := []struct {
		name string
		set  func(tr Treasure, g guard.ID)
		want ContentType
	}{
		{"int64 0", func(tr Treasure, g guard.ID) { tr.SetContentInt64(g, 0) }, ContentTypeInt64},
		{"uint8 0", func(tr Treasure, g guard.ID) { tr.SetContentUint8(g, 0) }, ContentTypeUint8},
		{"float64 0", func(tr Treasure, g guard.ID) { tr.SetContentFloat64(g, 0) }, ContentTypeFloat64},
		{"bool false", func(tr Treasure, g guard.ID) { tr.SetContentBool(g, false) }, ContentTypeBoolean},
		{"empty string", func(tr Treasure, g guard.ID) { tr.SetContentString(g, "") }, ContentTypeString},
		{"empty bytes", func(tr Treasure, g guard.ID) { tr.SetContentByteArray(g, []byte{}) }, ContentTypeByteArray},
		{"int64 7 (control)", func(tr Treasure, g guard.ID) { tr.SetContentInt64(g, 7) }, ContentTypeInt64},
	}
	for _, c := range cases {
		a := New(nil)
		g := a.StartTreasureGuard(true, guard.BodyAuthID)
		a.BodySetKey(g, "k")
		c.set(a, g)
		if a.GetContentType() != c.want {
			t.Fatalf("%s: before save type=%v want %v", c.name, a.GetContentType(), c.want)
		}
		b, err := a.ConvertToByte(g)
		a.ReleaseTreasureGuard(g)
		if err != nil {
			t.Fatal(err)
		}
		r := New(nil)
		g2 := r.StartTreasureGuard(true, guard.BodyAuthID)
		if err := r.LoadFromByte(g2, b, "f"); err != nil {
			t.Fatal(err)
		}
		r.ReleaseTreasureGuard(g2)
		if got := r.GetContentType(); got != c.want {
			t.Errorf("%s: stored as %v, reloaded as %v", c.name, c.want, got)
		}
	}
}
