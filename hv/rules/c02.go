package rules

import (
	"go/ast"
	"go/token"
	"go/types"
	"strings"

	"hv/core"
)

func init() {
	register("C02", c02)
	register("C25", c25)
}

// sentinelChecks lists the io sentinels compared against err (errors.Is(err, X) or err == X) under n.
func sentinelChecks(info *types.Info, n ast.Node) map[string]bool {
	out := map[string]bool{}
	ast.Inspect(n, func(x ast.Node) bool {
		switch v := x.(type) {
		case *ast.CallExpr:
			if core.IsCallTo(info, v, "errors.Is") && len(v.Args) == 2 {
				if o := core.ObjOf(info, v.Args[1]); o != nil && o.Pkg() != nil {
					out[o.Pkg().Path()+"."+o.Name()] = true
				}
			}
		case *ast.BinaryExpr:
			if v.Op == token.EQL {
				for _, e := range []ast.Expr{v.X, v.Y} {
					if o := core.ObjOf(info, e); o != nil && o.Pkg() != nil && o.Pkg().Path() == "io" {
						out["io."+o.Name()] = true
					}
				}
			}
		}
		return true
	})
	return out
}

// reachesCallee reports whether f (transitively, static edges) calls a function with the given qualified name.
func reachesCallee(c *core.Ctx, f *core.Func, qnames ...string) bool {
	cg := c.CG()
	hit := func(s *core.Site) bool {
		q := core.QName(s.Callee)
		for _, n := range qnames {
			if q == n {
				return true
			}
		}
		return false
	}
	return cg.ReachVia(f, hit, func(s *core.Site, t *core.Func) bool { return !s.Dynamic }) != nil
}

func c02(c *core.Ctx) {
	p := c.P
	c.Explain = "Static necessary conditions for crash tolerance of the storage engine: a short read of the last block (the torn tail a crash leaves) is classified as end-of-data on every reader path before it can abort Load; an existing file is appended to only after its torn tail has been cut off (Truncate to the end of the last complete block, found by a block-header scan); Sync and Close reach fsync before reporting success and the periodic writer always syncs after writing; the in-place header rewrite happens only after the block was written; swamp.Close flushes, closes the chronicler and only then announces the close."
	c.NotCovered = []string{"materialised crash images / byte-level torn writes", "file-system ordering guarantees (directory fsync after rename/create)", "a torn block whose length field itself is torn such that it points inside the file"}

	rT := c.Rule("C02.torn", "the error classes a truncated file can produce in readNextBlock (io.EOF from the header read, io.EOF/io.ErrUnexpectedEOF from io.ReadFull) are all mapped to end-of-data, in readNextBlock or in every caller loop; a short header read is end-of-data", 4)
	tornRule(c, rT)

	rTr := c.Rule("C02.tailtrunc", "when an existing file is opened for appending, every successful return is preceded by Truncate(end) and Seek(end) where end comes from a scan of the block headers; the writer never blindly seeks to the end of the file", 2)
	{
		f := c.Fn(pkgV2 + ".FileWriter.openExistingFile")
		info := f.Info()
		fl := core.NewFlow(p, info, f.Decl.Body)
		var trunc *ast.CallExpr
		core.Calls(f.Decl.Body, false, func(call *ast.CallExpr) {
			if core.IsCallTo(info, call, "os.File.Truncate") {
				trunc = call
			}
		})
		okTrunc, fromScan := false, false
		if trunc != nil {
			// every `return nil` is reachable only after Truncate succeeded
			okTrunc = true
			fl.Nodes(func(l core.Loc, n ast.Node) {
				ret, ok := n.(*ast.ReturnStmt)
				if !ok || len(ret.Results) != 1 || !core.IsNilIdent(info, ret.Results[0]) {
					return
				}
				if ok2, _ := fl.OnlyAfterSuccess(f.Decl.Body, trunc, ret); !ok2 {
					okTrunc = false
				}
			})
			// the argument is the result of a workspace function that reads block headers
			if obj := core.ObjOf(info, trunc.Args[0]); obj != nil {
				ast.Inspect(f.Decl.Body, func(x ast.Node) bool {
					as, ok := x.(*ast.AssignStmt)
					if !ok || len(as.Rhs) != 1 || len(as.Lhs) == 0 || core.ObjOf(info, as.Lhs[0]) != obj {
						return true
					}
					if call, ok := core.Unparen(as.Rhs[0]).(*ast.CallExpr); ok {
						if t := p.ByObj[core.Callee(info, call)]; t != nil {
							c.Touch(t)
							if reachesCallee(c, t, core.Long(pkgV2)+".BlockHeader.Deserialize") || callsDirect(t, pkgV2+".BlockHeader.Deserialize") {
								fromScan = true
							}
						}
					}
					return true
				})
			}
		}
		rTr.Check(trunc != nil && okTrunc && fromScan, f.Key+":truncate-torn-tail", f.Decl.Pos(),
			"append position = end of the last complete block; the torn tail is cut off",
			"an existing file is appended to without cutting off a torn tail (truncate="+b2s(trunc != nil)+" onEverySuccessPath="+b2s(okTrunc)+" endFromBlockScan="+b2s(fromScan)+"): blocks written after a crash sit behind the torn block and are never read again")
		seekEnd := false
		core.Calls(f.Decl.Body, false, func(call *ast.CallExpr) {
			if core.IsCallTo(info, call, "os.File.Seek") && len(call.Args) == 2 && core.ExprStr(call.Args[1]) == "io.SeekEnd" {
				seekEnd = true
			}
		})
		rTr.Check(!seekEnd, f.Key+":no-blind-seek-end", f.Decl.Pos(), "no Seek(0, io.SeekEnd)", "the append position is the raw end of file")
	}

	rB := c.Rule("C02.barrier", "FileWriter.Sync returns nil only through file.Sync(); FileWriter.Close calls file.Sync() successfully before it marks the writer closed and closes the file; chroniclerV2.Sync/Close forward to them; the periodic writer calls chronicler.Sync on every path after chronicler.Write", 5)
	{
		sy := c.Fn(pkgV2 + ".FileWriter.Sync")
		info := sy.Info()
		fl := core.NewFlow(p, info, sy.Decl.Body)
		ok := true
		n := 0
		fl.Nodes(func(l core.Loc, nd ast.Node) {
			ret, isRet := nd.(*ast.ReturnStmt)
			if !isRet || len(ret.Results) != 1 {
				return
			}
			n++
			r := core.Unparen(ret.Results[0])
			if call, isCall := r.(*ast.CallExpr); isCall && core.IsCallTo(info, call, "os.File.Sync") {
				return
			}
			if core.IsNilIdent(info, r) {
				ok = false // a nil return that is not the fsync result
				return
			}
			// returning an error variable/sentinel is fine
		})
		rB.Check(ok && n > 0, sy.Key, sy.Decl.Pos(), "success is reported only as the result of file.Sync()", "Sync can report success without having called fsync")

		cl := c.Fn(pkgV2 + ".FileWriter.Close")
		cinfo := cl.Info()
		cfl := core.NewFlow(p, cinfo, cl.Decl.Body)
		var fsync, fclose *ast.CallExpr
		core.Calls(cl.Decl.Body, false, func(call *ast.CallExpr) {
			if core.IsCallTo(cinfo, call, "os.File.Sync") {
				fsync = call
			}
		})
		// the final `return fw.file.Close()`
		ast.Inspect(cl.Decl.Body, func(x ast.Node) bool {
			if ret, isRet := x.(*ast.ReturnStmt); isRet && len(ret.Results) == 1 {
				if call, isCall := core.Unparen(ret.Results[0]).(*ast.CallExpr); isCall && core.IsCallTo(cinfo, call, "os.File.Close") {
					fclose = call
				}
			}
			return true
		})
		okc := false
		why := "no fsync or no final close"
		if fsync != nil && fclose != nil {
			okc, why = cfl.OnlyAfterSuccess(cl.Decl.Body, fsync, fclose)
		}
		rB.Check(okc, cl.Key, cl.Decl.Pos(), "file.Sync() succeeds before the successful close", "Close reports success without a successful fsync ("+why+")")
		for _, pair := range [][2]string{{pkgChron + ".chroniclerV2.Sync", pkgV2 + ".FileWriter.Sync"}, {pkgChron + ".chroniclerV2.Close", pkgV2 + ".FileWriter.Close"}} {
			f := c.Fn(pair[0])
			rB.Check(callsDirect(f, pair[1]) || c.CG().ReachersOf(c.Fn(pair[1]))[f], pair[0], f.Decl.Pos(), "forwards to the writer (directly or through a helper)", pair[0]+" no longer reaches "+pair[1])
		}
		h := c.Fn(pkgSwamp + ".swamp.fileWriterHandler")
		hinfo := h.Info()
		hfl := core.NewFlow(p, hinfo, h.Decl.Body)
		var wr *ast.CallExpr
		core.Calls(h.Decl.Body, false, func(call *ast.CallExpr) {
			if core.MethodNamed(hinfo, call, pkgChron, []string{"Chronicler"}, "Write") {
				wr = call
			}
		})
		if wr == nil {
			rB.Bad(h.Key+":Write", h.Decl.Pos(), "fileWriterHandler does not call chronicler.Write")
		} else {
			loc := hfl.MustLocate(wr)
			isSync := core.NodeHasCall(func(c2 *ast.CallExpr) bool { return core.MethodNamed(hinfo, c2, pkgChron, []string{"Chronicler"}, "Sync") })
			rB.Check(!hfl.ExitWithout(loc, nil, false, isSync), h.Key+":Write->Sync", wr.Pos(), "every path after Write reaches Sync", "a path from chronicler.Write to the end of the periodic writer skips chronicler.Sync: acknowledged data stays only in the page cache")
		}
	}

	rH := c.Rule("C02.hdrorder", "in the function that appends a block (block header + data writes), the in-place file header rewrite (write of the serialized FileHeader) is reachable only after both block writes succeeded", 2)
	{
		bws := v2BlockWriters(c)
		if len(bws) == 0 {
			rH.Bad(pkgV2+":block-writer", token.NoPos, "no function writes a serialized BlockHeader to the file any more")
		}
		for _, f := range bws {
			info := f.Info()
			fl := core.NewFlow(p, info, f.Decl.Body)
			var blockWrites []*ast.CallExpr
			var hdrWrite *ast.CallExpr
			core.Calls(f.Decl.Body, false, func(call *ast.CallExpr) {
				if !core.IsCallTo(info, call, "os.File.Write") || len(call.Args) != 1 {
					return
				}
				if ac, ok := core.Unparen(call.Args[0]).(*ast.CallExpr); ok && core.IsWsCallTo(info, ac, pkgV2+".FileHeader.Serialize") {
					hdrWrite = call
				} else {
					blockWrites = append(blockWrites, call)
				}
			})
			if hdrWrite == nil {
				// the counts are brought up to date elsewhere (Sync/Close write the header after a flush: C01.flush)
				rH.Ok(f.Key+":no-inline-header", f.Decl.Pos(), "no header rewrite next to the block writes")
				continue
			}
			for _, bw := range blockWrites {
				ok, why := fl.OnlyAfterSuccess(f.Decl.Body, bw, hdrWrite)
				rH.Check(ok, f.Key+":"+core.ExprStr(bw.Args[0])+"->header", bw.Pos(), "header counts are rewritten only after this write succeeded", "the header can be rewritten although a block write failed ("+why+"): counts run ahead of the data")
			}
		}
	}

	// C02.replace: a swamp file that holds synced records is only ever replaced by a file whose own
	// contents were flushed and synced. Driven by the rename sites, not by function names.
	rR := c.Rule("C02.replace", "a file that is renamed over another one inside the storage engine (and the format-migration tool) was written through a FileWriter of the same function whose Close - the flush of its last block plus fsync - returned nil before the rename on every path: a crash right after the rename never finds a replacement that lacks records the replaced file had durably stored", 2)
	for _, f := range p.FuncsUnder("app/") {
		if f.Decl == nil || f.Decl.Body == nil {
			continue
		}
		info := f.Info()
		var renames []*ast.CallExpr
		core.Calls(f.Decl.Body, true, func(call *ast.CallExpr) {
			if core.IsCallTo(info, call, "os.Rename") && len(call.Args) == 2 {
				renames = append(renames, call)
			}
		})
		if len(renames) == 0 {
			continue
		}
		// writers of this function: w := v2.NewFileWriter*(path, ...)
		type wr struct {
			obj  types.Object
			path types.Object
			mk   *ast.CallExpr
		}
		var writers []wr
		ast.Inspect(f.Decl.Body, func(x ast.Node) bool {
			as, ok := x.(*ast.AssignStmt)
			if !ok || len(as.Rhs) != 1 || len(as.Lhs) == 0 {
				return true
			}
			call, ok := core.Unparen(as.Rhs[0]).(*ast.CallExpr)
			if !ok || len(call.Args) == 0 {
				return true
			}
			callee := core.Callee(info, call)
			if callee == nil {
				return true
			}
			sig, _ := callee.Type().(*types.Signature)
			fwNamed := p.Named(pkgV2, "FileWriter")
			if sig == nil || sig.Results().Len() == 0 || fwNamed == nil {
				return true
			}
			if pt, ok := sig.Results().At(0).Type().(*types.Pointer); !ok || !types.Identical(pt.Elem(), fwNamed) {
				return true
			}
			writers = append(writers, wr{core.ObjOf(info, as.Lhs[0]), core.ObjOf(info, call.Args[0]), call})
			return true
		})
		for _, ren := range renames {
			src := core.ObjOf(info, ren.Args[0])
			var w *wr
			for i := range writers {
				if src != nil && writers[i].path == src {
					w = &writers[i]
				}
			}
			if w == nil {
				continue // not a file produced by the block writer (log rotation, directory moves)
			}
			fl := core.NewFlow(p, info, f.Decl.Body)
			var wclose *ast.CallExpr
			core.Calls(f.Decl.Body, false, func(call *ast.CallExpr) {
				if core.IsWsCallTo(info, call, pkgV2+".FileWriter.Close") && core.ObjOf(info, core.RecvExpr(call)) == w.obj && core.ErrObjOfCall(info, f.Decl.Body, call) != nil {
					wclose = call
				}
			})
			if wclose == nil {
				rR.Bad(f.Key+":rename-after-close", ren.Pos(), "the file written by "+w.obj.Name()+" is renamed over its target but no Close of that writer has its error tested before: the last buffered block and the fsync may still be missing when the old file is gone")
				continue
			}
			ok, why := fl.OnlyAfterSuccess(f.Decl.Body, wclose, ren)
			rR.Check(ok, f.Key+":rename-after-close", ren.Pos(), "replacement file flushed and synced before it takes the place of the old one", "the replacement can be renamed over the old file before its writer was closed successfully ("+why+")")
		}
	}

	rC := c.Rule("C02.closeorder", "swamp.Close: pending records are written (fileWriterHandler) and the chronicler is closed before the swamp's goroutines are cancelled and before the closed event lets the swamp be summoned again", 3)
	{
		f := c.Fn(pkgSwamp + ".swamp.Close")
		info := f.Info()
		fl := core.NewFlow(p, info, f.Decl.Body)
		find := func(pred func(*ast.CallExpr) bool) *ast.CallExpr {
			var out *ast.CallExpr
			core.Calls(f.Decl.Body, false, func(call *ast.CallExpr) {
				if out == nil && pred(call) {
					out = call
				}
			})
			return out
		}
		fw := find(func(c2 *ast.CallExpr) bool { return core.IsWsCallTo(info, c2, pkgSwamp+".swamp.fileWriterHandler") })
		cc := find(func(c2 *ast.CallExpr) bool { return core.MethodNamed(info, c2, pkgChron, []string{"Chronicler"}, "Close") })
		ev := find(func(c2 *ast.CallExpr) bool { return core.IsWsCallTo(info, c2, pkgSwamp+".swamp.sendClosedEvent") })
		if fw == nil || cc == nil || ev == nil {
			rC.Bad(f.Key+":steps", f.Decl.Pos(), "Close no longer has fileWriterHandler, chronicler.Close and sendClosedEvent")
		} else {
			lfw, lcc, lev := fl.MustLocate(fw), fl.MustLocate(cc), fl.MustLocate(ev)
			rC.Check(fl.Dominates(lfw, lcc), f.Key+":write-before-chronicler-close", fw.Pos(), "ordered", "chronicler is closed before the pending records are written")
			// on the persistent path the event comes after the chronicler close: no path from entry reaches the event
			// through the persistent branch without passing chronicler.Close: check that from fileWriterHandler every path to the event passes Close
			reachEvWithoutClose, _ := fl.CanReach(lfw, nil, core.ContainsNode(cc), core.ContainsNode(ev))
			rC.Check(!reachEvWithoutClose, f.Key+":chronicler-close-before-event", cc.Pos(), "ordered", "the closed event can be sent before the chronicler was closed: a re-summon may read a file that is still being written")
			_ = lev
			tr := fw.Args
			okTrue := len(tr) == 1
			if okTrue {
				v, isB := core.BoolLit(info, tr[0])
				okTrue = isB && v
			}
			rC.Check(okTrue, f.Key+":fileWriterHandler(true)", fw.Pos(), "close-write mode", "Close does not run the writer in close mode")
		}
	}
}

// callsDirect reports whether f contains a direct call to the workspace function key.
func callsDirect(f *core.Func, key string) bool {
	if f.Decl.Body == nil {
		return false
	}
	info := f.Info()
	found := false
	core.Calls(f.Decl.Body, true, func(call *ast.CallExpr) {
		if core.IsWsCallTo(info, call, key) {
			found = true
		}
	})
	return found
}

func c25(c *core.Ctx) {
	p := c.P
	c.Explain = "Static necessary conditions for 'write failures never corrupt durable data': on the failure edge of each block write in flushLocked every path to the exit passes a rollback that truncates the file back to the block start (no torn block stays in the middle of the log); error results of file and writer operations in the storage packages are not discarded except for the frozen list of best-effort cleanups on failure paths."
	c.NotCovered = []string{"behaviour under injected faults (short writes, ENOSPC) at run time", "retention of the entries of the failed block (they are dropped; the statement only requires earlier and later records to stay readable)", "errors logged and skipped by chroniclerV2.Write / fileWriterHandler (record stays in memory only)"}
	rP := c.Rule("C25.partial", "in the function that appends a block, when the block header/data write fails, every path to the function exit passes a call that reaches (*os.File).Truncate (the partial block is cut off and the append position restored)", 2)
	n := 0
	for _, f := range v2BlockWriters(c) {
		info := f.Info()
		fl := core.NewFlow(p, info, f.Decl.Body)
		core.Calls(f.Decl.Body, false, func(call *ast.CallExpr) {
			if !core.IsCallTo(info, call, "os.File.Write") || len(call.Args) != 1 {
				return
			}
			if ac, ok := core.Unparen(call.Args[0]).(*ast.CallExpr); ok && core.IsWsCallTo(info, ac, pkgV2+".FileHeader.Serialize") {
				return // header rewrite in place: fixed size, not an append
			}
			n++
			edges, ok := fl.FailEdgesOfCall(f.Decl.Body, call)
			construct := f.Key + ":Write(" + core.ExprStr(call.Args[0]) + ")"
			if !ok {
				rP.Bad(construct, call.Pos(), "the error of a block write is not tested")
				return
			}
			isRollback := core.NodeHasCall(func(c2 *ast.CallExpr) bool {
				if core.IsCallTo(info, c2, "os.File.Truncate") {
					return true
				}
				if t := p.ByObj[core.Callee(info, c2)]; t != nil {
					c.Touch(t)
					return callsQ(t, "os.File.Truncate")
				}
				return false
			})
			// every path from the write on which its error is not known to be nil must roll back
			succ, _ := fl.SuccessEdgesOfCall(f.Decl.Body, call)
			lw := fl.MustLocate(call)
			good := !fl.ExitWithout(lw, succ, false, isRollback)
			_ = edges
			rP.Check(good, construct, call.Pos(), "failure path truncates back to the block start", "a failed or partial block write returns without cutting the partial block off: later blocks are appended behind a torn block and can never be read")
		})
	}
	if n == 0 {
		rP.Bad(pkgV2+":block-writes", token.NoPos, "no block writes found in the storage writer")
	}

	rTT := c.Rule("C25.torntail", "a failed append can leave a torn tail of any length (a short write of the block header or data whose rollback also failed): every error class such a tail produces in the block reader - a short header read included - is end-of-data, so the blocks written before the failure stay readable (shared with C02.torn)", 4)
	tornRule(c, rTT)

	rPC := c.Rule("C25.poscache", "a writer field that caches the append offset (it is used as the offset of a Seek(..., io.SeekStart)) is restored by every function that truncates the file for a rollback: otherwise the cached offset runs ahead of the real end of file after a failed block write and later blocks are written behind a hole", 1)
	{
		_, wst := p.StructOf(pkgV2, "FileWriter")
		wf := map[*types.Var]bool{}
		for _, f := range core.StructFields(wst) {
			if b, ok := f.Type().Underlying().(*types.Basic); ok && b.Info()&types.IsInteger != 0 {
				wf[f] = true
			}
		}
		cached := map[*types.Var]token.Pos{}
		for _, f := range p.FuncsIn(pkgV2) {
			if f.Decl.Body == nil {
				continue
			}
			fi := f.Info()
			core.Calls(f.Decl.Body, true, func(call *ast.CallExpr) {
				if !core.IsCallTo(fi, call, "os.File.Seek") || len(call.Args) != 2 {
					return
				}
				if k, ok := core.ObjOf(fi, call.Args[1]).(*types.Const); !ok || k.Name() != "SeekStart" {
					return
				}
				ast.Inspect(call.Args[0], func(x ast.Node) bool {
					if sel, ok := x.(*ast.SelectorExpr); ok {
						if fv := core.FieldOf(fi, sel); fv != nil && wf[fv] {
							cached[fv] = call.Pos()
						}
					}
					return true
				})
			})
		}
		if len(cached) == 0 {
			rPC.Ok(pkgV2+".FileWriter:no-cached-append-offset", token.NoPos, "append position always taken from the file (Seek current / end)")
		}
		for fv, pos := range cached {
			// every rollback (a function of the writer that truncates the file and is called from a block writer's failure path)
			n := 0
			for _, f := range p.FuncsIn(pkgV2) {
				if f.Decl.Body == nil || f.Decl.Recv == nil {
					continue
				}
				fi := f.Info()
				trunc := false
				core.Calls(f.Decl.Body, false, func(call *ast.CallExpr) {
					if core.IsCallTo(fi, call, "os.File.Truncate") {
						trunc = true
					}
				})
				if !trunc || f.Obj.Name() == "openExistingFile" {
					continue
				}
				n++
				c.Touch(f)
				restored := false
				for _, a := range core.Accesses(fi, f.Decl.Body, map[*types.Var]bool{fv: true}, false) {
					if a.Write && (a.Form == "assign" || a.Form == "store") {
						restored = true
					}
				}
				rPC.Check(restored, f.Key+":restores:"+fv.Name(), pos, "cached offset restored with the truncation", "FileWriter."+fv.Name()+" positions later appends (Seek(fw."+fv.Name()+", SeekStart)) but "+f.Obj.Name()+" truncates the file without restoring it: after a partial block write the cached offset is ahead of the end of file, the block after next lands behind a hole of zero bytes and the file no longer loads")
			}
			if n == 0 {
				rPC.Ok(pkgV2+".FileWriter."+fv.Name()+":no-rollback-function", pos, "no truncating rollback exists")
			}
		}
	}

	rE := c.Rule("C25.errors", "no error result of a file, writer, reader or compaction operation is discarded in the storage packages, except best-effort cleanups on paths that already report a failure (frozen list)", 30)
	exempt := func(fk string, callee string, how string, onErrPath bool) (bool, string) {
		switch {
		case callee == "os.File.Close" && (onErrPath || how == "defer"):
			return true, "closing a handle on a path that already failed (or a deferred reader close)"
		case strings.HasSuffix(callee, ".FileReader.Close") && (how == "defer" || how == "stmt"):
			return true, "closing a read-only handle"
		case strings.HasSuffix(callee, ".FileWriter.Close") && onErrPath:
			return true, "abandoning the temp writer on a failed compaction"
		case callee == "os.Remove" && (onErrPath || how == "blank"):
			return true, "best-effort removal of a temp file"
		case strings.HasSuffix(fk, ".FileWriter.discardPartialBlock"):
			return true, "best-effort rollback; the original write error is reported by the caller"
		case strings.HasSuffix(callee, ".CleanupCompactionTemp") && how == "blank":
			return true, "best-effort stale temp cleanup before compaction (Compact removes it again)"
		case callee == "bytes.Buffer.Write":
			return true, "bytes.Buffer.Write never fails"
		}
		return false, ""
	}
	for _, fn := range append(p.FuncsIn(pkgV2), p.FuncsIn(pkgChron)...) {
		if fn.Decl.Body == nil || strings.Contains(fn.Key, pkgChron+".chronicler.") {
			continue // legacy V1 engine is outside C25's anchors
		}
		finfo := fn.Info()
		var ffl *core.Flow
		drops := core.DroppedErrors(finfo, fn.Decl.Body, true)
		if len(drops) == 0 {
			continue
		}
		c.Touch(fn)
		for _, d := range drops {
			callee := core.QName(core.Callee(finfo, d.Call))
			calleeShort := core.Short(callee)
			onErr := false
			if body := core.BodyContaining(fn.Decl, d.Call); body != nil {
				if body == fn.Decl.Body {
					if ffl == nil {
						ffl = core.NewFlow(p, finfo, fn.Decl.Body)
					}
					if loc, ok := ffl.Locate(d.Call); ok {
						for _, ft := range ffl.FactsAt(loc) {
							if be, ok := ft.Expr.(*ast.BinaryExpr); ok && ft.Truth == (be.Op == token.NEQ) && (core.IsNilIdent(finfo, be.Y) || core.IsNilIdent(finfo, be.X)) {
								var v ast.Expr = be.X
								if core.IsNilIdent(finfo, be.X) {
									v = be.Y
								}
								if o := core.ObjOf(finfo, v); o != nil && core.IsErrorType(o.Type()) {
									onErr = true
								}
							}
						}
					}
				}
			}
			ok, why := exempt(fn.Key, calleeShort, d.How, onErr)
			construct := fn.Key + "->" + calleeShort + ":" + d.How
			rE.Check(ok, construct, d.Call.Pos(), "accepted: "+why, "error result of "+calleeShort+" is discarded ("+d.How+"): a failed storage operation goes unnoticed")
		}
	}
}

// callsQ reports whether f directly calls a function with the given qualified name.
func callsQ(f *core.Func, qname string) bool {
	if f.Decl.Body == nil {
		return false
	}
	found := false
	core.Calls(f.Decl.Body, true, func(call *ast.CallExpr) {
		if core.QName(core.Callee(f.Info(), call)) == qname {
			found = true
		}
	})
	return found
}

// tornRule decides that a truncated tail is read as end-of-data (C02.torn, shared with C25.torntail: a short
// write whose rollback also failed leaves exactly such a tail).
func tornRule(c *core.Ctx, rT *core.Rule) {
	p := c.P
	_ = p
	rnb := c.Fn(pkgV2 + ".FileReader.readNextBlock")
	{
		info := rnb.Info()
		// (a) io.ReadFull error: ErrUnexpectedEOF converted to io.EOF inside, or accepted by all callers
		var readFull *ast.CallExpr
		core.Calls(rnb.Decl.Body, false, func(call *ast.CallExpr) {
			if core.IsCallTo(info, call, "io.ReadFull") {
				readFull = call
			}
		})
		convertedInside := false
		if readFull != nil {
			// in the if statement testing ReadFull's error: errors.Is(err, io.ErrUnexpectedEOF) -> return ..., io.EOF
			for _, n := range core.PathTo(rnb.Decl.Body, readFull) {
				is, ok := n.(*ast.IfStmt)
				if !ok {
					continue
				}
				ast.Inspect(is.Body, func(x ast.Node) bool {
					in, ok := x.(*ast.IfStmt)
					if !ok {
						return true
					}
					if !sentinelChecks(info, in.Cond)["io.ErrUnexpectedEOF"] {
						return true
					}
					for _, st := range in.Body.List {
						if ret, ok := st.(*ast.ReturnStmt); ok && len(ret.Results) == 2 {
							if o := core.ObjOf(info, ret.Results[1]); o != nil && o.Pkg() != nil && o.Pkg().Path() == "io" && o.Name() == "EOF" {
								convertedInside = true
							}
						}
					}
					return true
				})
			}
		}
		cg := c.CG()
		allCallersAccept := true
		nCallers := 0
		for _, s := range cg.CallersOf(rnb) {
			nCallers++
			c.Touch(s.Caller)
			cinfo := s.Caller.Info()
			// the loop around the call: its error branch must accept io.EOF (always) and ErrUnexpectedEOF (unless converted inside)
			var loop *ast.ForStmt
			for _, n := range core.PathTo(s.Caller.Decl.Body, s.Call) {
				if fs, ok := n.(*ast.ForStmt); ok {
					loop = fs
				}
			}
			acc := map[string]bool{}
			if loop != nil {
				acc = sentinelChecks(cinfo, loop.Body)
			}
			rT.Check(acc["io.EOF"], s.Caller.Key+":loop-accepts-io.EOF", s.Call.Pos(), "io.EOF ends the block loop", "the block loop does not treat io.EOF as end of data")
			if !acc["io.ErrUnexpectedEOF"] {
				allCallersAccept = false
			}
		}
		if readFull == nil {
			rT.Bad(rnb.Key+":io.ReadFull", rnb.Decl.Pos(), "block data is no longer read with io.ReadFull (rule needs review)")
		} else {
			rT.Check(convertedInside || (allCallersAccept && nCallers > 0), rnb.Key+":io.ReadFull", readFull.Pos(),
				"a truncated block body (io.ErrUnexpectedEOF) is end-of-data",
				"io.ReadFull's io.ErrUnexpectedEOF for a torn last block is returned as a hard error: Load aborts and the swamp comes back empty after a crash")
		}
		// (b) short header read
		short := false
		ast.Inspect(rnb.Decl.Body, func(x ast.Node) bool {
			is, ok := x.(*ast.IfStmt)
			if !ok {
				return true
			}
			be, ok := core.Unparen(is.Cond).(*ast.BinaryExpr)
			if !ok || be.Op != token.LSS {
				return true
			}
			if o := core.ObjOf(info, be.Y); o == nil || o.Name() != "BlockHeaderSize" {
				return true
			}
			for _, st := range is.Body.List {
				if ret, ok := st.(*ast.ReturnStmt); ok && len(ret.Results) == 2 {
					if o := core.ObjOf(info, ret.Results[1]); o != nil && o.Name() == "EOF" {
						short = true
					}
				}
			}
			return true
		})
		rT.Check(short, rnb.Key+":short-header", rnb.Decl.Pos(), "n < BlockHeaderSize -> io.EOF", "a partially written block header is not treated as end of data")
	}

}
