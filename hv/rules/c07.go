package rules

import (
	"go/constant"
	"math"
	"go/ast"
	"go/token"
	"go/types"
	"sort"
	"strings"

	"hv/core"
)

func init() { register("C07", c07) }

// sorterTable extracts, from the function that switches over swamp.BeaconType and calls
// beacon SortBy* methods, the mapping type constant -> (ascending sorter, descending sorter).
func sorterTable(c *core.Ctx) (*core.Func, map[string][2]string) {
	p := c.P
	btT := p.Named(pkgSwamp, "BeaconType")
	for _, f := range p.FuncsIn(pkgSwamp) {
		if f.Decl.Body == nil {
			continue
		}
		info := f.Info()
		table := map[string][2]string{}
		ast.Inspect(f.Decl.Body, func(x ast.Node) bool {
			sw, ok := x.(*ast.SwitchStmt)
			if !ok || sw.Tag == nil {
				return true
			}
			if tv, ok := info.Types[sw.Tag]; !ok || !types.Identical(tv.Type, btT) {
				return true
			}
			for _, cl := range sw.Body.List {
				cc := cl.(*ast.CaseClause)
				var sorters []string
				for _, st := range cc.Body {
					core.Calls(st, false, func(call *ast.CallExpr) {
						if fo := core.Callee(info, call); fo != nil && strings.HasPrefix(fo.Name(), "SortBy") && fo.Pkg() != nil && core.Short(fo.Pkg().Path()) == pkgBeacon {
							sorters = append(sorters, fo.Name())
						}
					})
				}
				if len(sorters) != 2 {
					continue
				}
				// which is the descending one: the call under the `if desc` branch comes first in source by convention;
				// decide by the comparator instead (done by the caller); keep source order here
				names := []string{"default"}
				if len(cc.List) > 0 {
					names = nil
					for _, e := range cc.List {
						if k, ok := core.ObjOf(info, e).(*types.Const); ok {
							names = append(names, k.Name())
						}
					}
				}
				for _, n := range names {
					table[n] = [2]string{sorters[0], sorters[1]}
				}
			}
			return false
		})
		if len(table) >= 10 {
			return f, table
		}
	}
	return nil, nil
}

// comparatorOf returns (getter name used on both sides, operator) of a SortBy* method's less function.
func comparatorOf(f *core.Func) (getter string, op token.Token, ok bool) {
	info := f.Info()
	var lit *ast.FuncLit
	core.Calls(f.Decl.Body, false, func(call *ast.CallExpr) {
		if core.IsCallTo(info, call, "sort.Slice", "sort.SliceStable") && len(call.Args) == 2 {
			if l, isLit := core.Unparen(call.Args[1]).(*ast.FuncLit); isLit {
				lit = l
			}
		}
	})
	if lit == nil {
		return "", token.ILLEGAL, false
	}
	// last return of the less function
	var last *ast.ReturnStmt
	for _, st := range lit.Body.List {
		if r, isRet := st.(*ast.ReturnStmt); isRet {
			last = r
		}
	}
	if last == nil || len(last.Results) != 1 {
		return "", token.ILLEGAL, false
	}
	be, isB := core.Unparen(last.Results[0]).(*ast.BinaryExpr)
	if !isB {
		return "", token.ILLEGAL, false
	}
	// getters: any treasure getter called in the method body (Get*/GetContent*)
	gs := map[string]bool{}
	core.Calls(f.Decl.Body, true, func(call *ast.CallExpr) {
		if fo := core.Callee(info, call); fo != nil && fo.Pkg() != nil && core.Short(fo.Pkg().Path()) == pkgTreasure && strings.HasPrefix(fo.Name(), "Get") {
			gs[fo.Name()] = true
		}
	})
	delete(gs, "GetKey")
	if len(gs) == 0 {
		gs["GetKey"] = true
	}
	if len(gs) != 1 {
		return "", token.ILLEGAL, false
	}
	for g := range gs {
		getter = g
	}
	// operand order: left operand must belong to the first parameter (k/i)
	first := lit.Type.Params.List[0].Names[0].Name
	leftIsFirst := true
	ast.Inspect(be.X, func(x ast.Node) bool {
		if id, ok := x.(*ast.Ident); ok && len(lit.Type.Params.List[0].Names) > 1 && id.Name == lit.Type.Params.List[0].Names[1].Name {
			leftIsFirst = false
		}
		return true
	})
	if id, ok := core.Unparen(be.X).(*ast.Ident); ok {
		// kVal < lVal style: find which index the local was read from
		if def := localDefMulti(info, lit.Body, info.Uses[id]); def != nil {
			leftIsFirst = strings.Contains(core.ExprStr(def), "["+first+"]")
		}
	}
	op = be.Op
	if !leftIsFirst {
		op = mirror(op)
	}
	return getter, op, true
}

// localDefMulti finds the call that defines a local in a `v, err := f()` statement.
func localDefMulti(info *types.Info, body ast.Node, obj types.Object) ast.Expr {
	var out ast.Expr
	ast.Inspect(body, func(x ast.Node) bool {
		if as, ok := x.(*ast.AssignStmt); ok && len(as.Rhs) == 1 {
			for _, l := range as.Lhs {
				if id, ok := l.(*ast.Ident); ok && (info.Defs[id] == obj || info.Uses[id] == obj) && out == nil {
					out = as.Rhs[0]
				}
			}
		}
		return true
	})
	return out
}

func wantGetter(typeConst string) string {
	n := strings.TrimPrefix(typeConst, "BeaconType")
	switch n {
	case "CreationTime":
		return "GetCreatedAt"
	case "UpdateTime":
		return "GetModifiedAt"
	case "ExpirationTime":
		return "GetExpirationTime"
	case "Key", "default":
		return "GetKey"
	}
	if strings.HasPrefix(n, "Value") {
		return "GetContent" + strings.TrimPrefix(n, "Value")
	}
	return "?"
}

func c07(c *core.Ctx) {
	p := c.P
	c.Explain = "Static necessary conditions for correctly ordered index reads: one type->sorter table is used both by the lazy index build and by incremental maintenance (the value index is re-sorted with the sorter of the type it was built for, stored by the build); every sorter compares the attribute its index type stands for, ascending with < and descending with >, and the time sorters record the sort order the range search relies on; cold-build filters and incremental guards admit the same records (attribute != 0); saving an existing record re-positions it in the built index of every sort attribute that has a change flag; the four binary searches of the time window realise the half-open window [from,to); every index type has a case in the build / lookup switches."
	c.NotCovered = []string{"paging arithmetic on concrete contents (from/limit)", "stability of equal sort values", "one shared value index serving several value types at once"}

	tfn, table := sorterTable(c)
	rS := c.Rule("C07.sorttable", "buildBeacon and every incremental addTo*Beacon sort an index with the sorters the shared type->sorter table assigns to its type; the value index is re-sorted with the type stored when it was built", 6)
	if tfn == nil {
		rS.Bad(pkgSwamp+":sorter-table", token.NoPos, "no function switching over BeaconType and calling SortBy* sorters found: build and incremental maintenance cannot be shown to agree")
	} else {
		c.Touch(tfn)
		build := c.Fn(pkgSwamp + ".swamp.buildBeacon")
		rS.Check(callsDirect(build, tfn.Key) || build == tfn, build.Key+":uses-table", build.Decl.Pos(), "cold build sorts through the shared table", "buildBeacon does not sort through the shared type->sorter table")
		for _, it := range []struct{ fn, typ string }{
			{"addToKeyBeacon", "BeaconTypeKey"}, {"addToCreationTimeBeacon", "BeaconTypeCreationTime"},
			{"addToUpdateTimeBeacon", "BeaconTypeUpdateTime"}, {"addToExpirationTimeBeacon", "BeaconTypeExpirationTime"},
		} {
			f := c.Fn(pkgSwamp + ".swamp." + it.fn)
			info := f.Info()
			var used []string
			core.Calls(f.Decl.Body, false, func(call *ast.CallExpr) {
				if fo := core.Callee(info, call); fo != nil && strings.HasPrefix(fo.Name(), "SortBy") {
					used = append(used, fo.Name())
				}
			})
			want, ok := table[it.typ]
			if !ok {
				want = table["default"]
			}
			ws := []string{want[0], want[1]}
			sort.Strings(ws)
			sort.Strings(used)
			rS.Check(strings.Join(ws, ",") == strings.Join(used, ","), f.Key, f.Decl.Pos(), "same sorters as the build: "+strings.Join(ws, ","),
				"incremental maintenance sorts with ["+strings.Join(used, ",")+"] but the index is built with ["+strings.Join(ws, ",")+"]: after an insert the index order differs from the built order")
		}
		// value beacon: sorts via the table with a type read from a swamp field that buildBeacon stores
		av := c.Fn(pkgSwamp + ".swamp.addToValueBeacon")
		info := av.Info()
		fixed := ""
		viaTable := false
		var typeField *types.Var
		core.Calls(av.Decl.Body, false, func(call *ast.CallExpr) {
			if fo := core.Callee(info, call); fo != nil && strings.HasPrefix(fo.Name(), "SortByValue") {
				fixed = fo.Name()
			}
			if core.IsWsCallTo(info, call, tfn.Key) && len(call.Args) >= 2 {
				viaTable = true
				// the type argument: a local defined from a swamp field (possibly through atomic load / conversion)
				arg := call.Args[1]
				if obj := core.ObjOf(info, arg); obj != nil {
					if def := localDef(info, av.Decl.Body, obj); def != nil {
						arg = def
					}
				}
				ast.Inspect(arg, func(y ast.Node) bool {
					if s, ok := y.(*ast.SelectorExpr); ok {
						if fld := core.FieldOf(info, s); fld != nil && typeField == nil {
							typeField = fld
						}
					}
					return true
				})
			}
		})
		stored := false
		if typeField != nil {
			for _, a := range core.Accesses(build.Info(), build.Decl.Body, map[*types.Var]bool{typeField: true}, false) {
				if a.Write {
					// the stored value derives from the bc parameter
					if core.Mentions(build.Info(), a.Node, paramObj(build, 2)) {
						stored = true
					}
				}
			}
		}
		rS.Check(fixed == "" && viaTable && stored, av.Key, av.Decl.Pos(), "re-sorts with the sorter of the stored build type",
			"the value index is re-sorted with a fixed sorter ("+fixed+") or with a type the build did not record (viaTable="+b2s(viaTable)+" typeStoredByBuild="+b2s(stored)+"): indexes built for another value type lose their order after an insert or update")
	}

	rC := c.Rule("C07.sorters", "each sorter of the table compares the attribute of its index type on both sides, the ascending one with <, the descending one with >; time sorters set the sort order constant whose getter (getTimestampFromTreasure) is the compared attribute", 30)
	if tfn != nil {
		var names []string
		for n := range table {
			names = append(names, n)
		}
		sort.Strings(names)
		gts := c.Fn(pkgBeacon + ".beacon.getTimestampFromTreasure")
		// sortOrder const -> getter
		orderGetter := map[string]string{}
		ast.Inspect(gts.Decl.Body, func(x ast.Node) bool {
			cc, ok := x.(*ast.CaseClause)
			if !ok {
				return true
			}
			g := ""
			for _, st := range cc.Body {
				core.Calls(st, false, func(call *ast.CallExpr) {
					if fo := core.Callee(gts.Info(), call); fo != nil {
						g = fo.Name()
					}
				})
			}
			for _, e := range cc.List {
				if k, ok := core.ObjOf(gts.Info(), e).(*types.Const); ok {
					orderGetter[k.Name()] = g
				}
			}
			return true
		})
		for _, n := range names {
			pair := table[n]
			want := wantGetter(n)
			ops := map[token.Token]bool{}
			for _, m := range pair {
				f := c.Fn(pkgBeacon + ".beacon." + m)
				g, op, ok := comparatorOf(f)
				construct := n + "->" + m
				if !ok {
					rC.Undecided(construct, f.Decl.Pos(), "comparator shape not recognised")
					continue
				}
				ops[op] = true
				rC.Check(g == want && (op == token.LSS || op == token.GTR), construct, f.Decl.Pos(), g+" "+op.String(),
					"sorter "+m+" compares "+g+" with "+op.String()+" but index type "+n+" stands for "+want+" (strict order required)")
				// time sorters: sortOrder assignment consistent
				for _, a := range core.Accesses(f.Info(), f.Decl.Body, nil, false) {
					if a.Write && a.Field.Name() == "sortOrder" {
						as := a.Node.(*ast.AssignStmt)
						if k, ok := core.ObjOf(f.Info(), as.Rhs[0]).(*types.Const); ok {
							asc := strings.HasSuffix(k.Name(), "Asc")
							rC.Check(orderGetter[k.Name()] == g && asc == (op == token.LSS), construct+":sortOrder="+k.Name(), as.Pos(), "range search reads "+orderGetter[k.Name()],
								"sorter sets sort order "+k.Name()+" whose range-search getter is "+orderGetter[k.Name()]+" / direction mismatch: time windows are searched on the wrong attribute or direction")
						}
					}
				}
			}
			rC.Check(ops[token.LSS] && ops[token.GTR], n+":asc+desc", tfn.Decl.Pos(), "one ascending and one descending sorter", "index type "+n+" does not have one ascending (<) and one descending (>) sorter")
		}
	}

	rM := c.Rule("C07.membership", "the cold-build filter (treasuresForBeacon) and the incremental guards (addTreasureToBeacons) admit a record to a time index under the same condition: attribute != 0", 6)
	{
		tf := c.Fn(pkgSwamp + ".swamp.treasuresForBeacon")
		at := c.Fn(pkgSwamp + ".swamp.addTreasureToBeacons")
		guards := func(f *core.Func) map[string]token.Token {
			info := f.Info()
			out := map[string]token.Token{}
			ast.Inspect(f.Decl.Body, func(x ast.Node) bool {
				is, ok := x.(*ast.IfStmt)
				if !ok {
					return true
				}
				be, ok := core.Unparen(is.Cond).(*ast.BinaryExpr)
				if !ok || !isConst(info, be.Y, 0) {
					return true
				}
				if call, ok := core.Unparen(be.X).(*ast.CallExpr); ok {
					if fo := core.Callee(info, call); fo != nil {
						out[fo.Name()] = be.Op
					}
				}
				return true
			})
			return out
		}
		g1, g2 := guards(tf), guards(at)
		for _, g := range []string{"GetCreatedAt", "GetModifiedAt", "GetExpirationTime"} {
			rM.Check(g1[g] == token.NEQ, tf.Key+":"+g, tf.Decl.Pos(), "!= 0", "cold build admits records by "+g+" "+g1[g].String()+" 0")
			rM.Check(g2[g] == token.NEQ, at.Key+":"+g, at.Decl.Pos(), "!= 0", "incremental insert admits records by "+g+" "+g2[g].String()+" 0")
		}
	}

	rR := c.Rule("C07.reindex", "in SaveFunction's branch for an existing record, each sort attribute with a change flag (content, created-at, modified-at, expiration) leads to a refresh of the corresponding built index", 4)
	{
		sf := c.Fn(pkgSwamp + ".swamp.SaveFunction")
		info := sf.Info()
		fl := core.NewFlow(p, info, sf.Decl.Body)
		for _, it := range []struct{ flag, refresh string }{
			{"IsContentChanged", "addToValueBeacon"}, {"IsModifiedAtChanged", "addToUpdateTimeBeacon"},
			{"IsCreatedAtChanged", "addToCreationTimeBeacon"}, {"IsExpirationTimeChanged", "addToExpirationTimeBeacon"},
		} {
			ok := false
			_ = fl
			isFlag := func(ft core.Fact, truth bool) bool {
				cl, isCall := core.Unparen(ft.Expr).(*ast.CallExpr)
				if !isCall || ft.Truth != truth {
					return false
				}
				fo := core.Callee(info, cl)
				return fo != nil && fo.Name() == it.flag
			}
			core.Calls(sf.Decl.Body, false, func(call *ast.CallExpr) {
				if !core.IsWsCallTo(info, call, pkgSwamp+".swamp."+it.refresh) {
					return
				}
				// every enclosing if whose THEN branch holds the call must be entered whenever the flag is set
				// (cond false => flag false); an enclosing if whose ELSE branch holds the call must re-add the
				// record to all indexes in its THEN branch
				good, guarded := true, false
				for _, n := range core.PathTo(sf.Decl.Body, call) {
					is, isIf := n.(*ast.IfStmt)
					if !isIf {
						continue
					}
					inThen := is.Body.Pos() <= call.Pos() && call.End() <= is.Body.End()
					if inThen {
						if implies(info, sf.Decl.Body, is.Cond, false, func(ft core.Fact) bool { return isFlag(ft, false) }) {
							guarded = true
						} else if be, isB := core.Unparen(is.Cond).(*ast.BinaryExpr); isB && be.Op == token.NEQ && isConst(info, be.Y, 0) {
							// membership guard "attribute != 0": a record without the attribute is (correctly) only removed
						} else {
							good = false
						}
					} else if is.Else != nil && is.Else.Pos() <= call.Pos() && call.End() <= is.Else.End() {
						full := len(core.FindCalls(is.Body, false, func(c2 *ast.CallExpr) bool {
							return core.IsWsCallTo(info, c2, pkgSwamp+".swamp.addTreasureToBeacons")
						})) > 0
						if !full {
							good = false
						}
					}
				}
				if good && guarded {
					ok = true
				}
			})
			rR.Check(ok, sf.Key+":"+it.flag+"->"+it.refresh, sf.Decl.Pos(), "changed attribute refreshes its index", "a changed "+strings.TrimSuffix(strings.TrimPrefix(it.flag, "Is"), "Changed")+" does not refresh its built index: ordered reads return a stale order after an update")
		}
	}

	rW := c.Rule("C07.window", "findTimeRangeBounds realises the half-open window [from,to) on both index directions: on the ascending branch start = first index with ts >= from and end = (first index with ts >= to) - 1; on the descending branch start = first index with ts < to and end = (first index with ts < from) - 1; the branch is chosen by a test that is true exactly for the ascending sort orders. Each search is reduced to 'first index where P(ts)' whether it is a hand-written bisection or a sort.Search call", 4)
	windowRule(c, rW)

	rFO := c.Rule("C07.fieldorder", "every call in package swamp that (re)orders one of the swamp's index fields - any beacon method that sorts the ordered slice, including the re-index helpers - orders it by the attribute and in the direction that field is built with (the field's position and type constant at the buildBeacon call); sortBeaconByType receives the order constant of the field's direction", 10)
	{
		// effect of every ordering method of the beacon: (getter, direction)
		type effect struct {
			getter string
			desc   bool
		}
		effects := map[string]effect{}
		for _, m := range p.FuncsIn(pkgBeacon) {
			if m.Decl.Body == nil || m.Decl.Recv == nil {
				continue
			}
			sorts := false
			core.Calls(m.Decl.Body, false, func(call *ast.CallExpr) {
				if core.IsCallTo(m.Info(), call, "sort.Slice", "sort.SliceStable", "sort.Sort", "sort.Stable", "slices.SortFunc", "slices.SortStableFunc") {
					sorts = true
				}
			})
			if !sorts {
				continue
			}
			g, op, ok := comparatorOf(m)
			if !ok || (op != token.LSS && op != token.GTR) {
				rFO.Undecided(m.Key+":comparator", m.Decl.Pos(), "a beacon method sorts the ordered slice with a comparator this rule cannot classify")
				continue
			}
			effects[m.Obj.Name()] = effect{g, op == token.GTR}
		}
		// fields: position and type at the buildBeacon call sites
		type fieldOrder struct {
			getter string // "" = any content getter (value index of a run-time type)
			desc   bool
		}
		fields := map[*types.Var]fieldOrder{}
		build := c.Fn(pkgSwamp + ".swamp.buildBeacon")
		orderT := p.Named(pkgSwamp, "BeaconOrder")
		descConst := p.Const(pkgSwamp, "IndexOrderDesc")
		for _, f := range p.FuncsIn(pkgSwamp) {
			if f.Decl.Body == nil {
				continue
			}
			info := f.Info()
			core.Calls(f.Decl.Body, true, func(call *ast.CallExpr) {
				if !core.IsWsCallTo(info, call, build.Key) || len(call.Args) != 3 {
					return
				}
				getter := ""
				if k, ok := core.ObjOf(info, call.Args[2]).(*types.Const); ok {
					getter = wantGetter(k.Name())
				}
				for i := 0; i < 2; i++ {
					if fv := core.FieldOf(info, call.Args[i]); fv != nil {
						fo := fieldOrder{getter, i == 1}
						if old, seen := fields[fv]; seen && old != fo {
							if old.desc != fo.desc {
								rFO.Bad(f.Key+":buildBeacon("+fv.Name()+")", call.Pos(), "index field "+fv.Name()+" is built once as ascending and once as descending index")
							}
							fo.getter = "" // several types share the field
						}
						fields[fv] = fo
					}
				}
			})
		}
		// inside buildBeacon: parameter i is sorted with the order constant of position i
		{
			info := build.Info()
			sig := build.Obj.Type().(*types.Signature)
			core.Calls(build.Decl.Body, true, func(call *ast.CallExpr) {
				if tfn == nil || !core.IsWsCallTo(info, call, tfn.Key) || len(call.Args) != 3 {
					return
				}
				for i := 0; i < 2 && i < sig.Params().Len(); i++ {
					if core.ObjOf(info, call.Args[0]) == sig.Params().At(i) {
						k, _ := core.ObjOf(info, call.Args[2]).(*types.Const)
						rFO.Check(k != nil && (k == descConst) == (i == 1), build.Key+":param"+string(rune('0'+i))+":order", call.Pos(), "position and order constant agree", "buildBeacon sorts its ascending/descending parameter with the other order constant")
					}
				}
			})
		}
		_ = orderT
		want := func(fv *types.Var) string {
			fo := fields[fv]
			d := "ascending"
			if fo.desc {
				d = "descending"
			}
			if fo.getter == "" {
				return d + " by the content value"
			}
			return d + " by " + fo.getter
		}
		for _, f := range p.FuncsIn(pkgSwamp) {
			if f.Decl.Body == nil {
				continue
			}
			info := f.Info()
			core.Calls(f.Decl.Body, true, func(call *ast.CallExpr) {
				// direct ordering method on an index field
				if fo := core.Callee(info, call); fo != nil && fo.Pkg() != nil && core.Short(fo.Pkg().Path()) == pkgBeacon {
					if e, isOrd := effects[fo.Name()]; isOrd {
						fv := core.FieldOf(info, core.RecvExpr(call))
						fod, known := fields[fv]
						if fv == nil || !known {
							return // parameter or local beacon (the table function, temporary beacons)
						}
						c.Touch(f)
						ok := e.desc == fod.desc && (fod.getter == e.getter || (fod.getter == "" && strings.HasPrefix(e.getter, "GetContent")))
						got := "ascending"
						if e.desc {
							got = "descending"
						}
						rFO.Check(ok, f.Key+":"+fv.Name()+"."+fo.Name(), call.Pos(), want(fv), "index field "+fv.Name()+" is built "+want(fv)+" but "+fo.Name()+" orders it "+got+" by "+e.getter+": reads through this index return a wrongly ordered page after this call")
					}
				}
				// through the shared table with an explicit order constant
				if tfn != nil && core.IsWsCallTo(info, call, tfn.Key) && len(call.Args) == 3 {
					if fv := core.FieldOf(info, call.Args[0]); fv != nil {
						if fod, known := fields[fv]; known {
							c.Touch(f)
							k, _ := core.ObjOf(info, call.Args[2]).(*types.Const)
							rFO.Check(k != nil && (k == descConst) == fod.desc, f.Key+":"+fv.Name()+":"+tfn.Obj.Name(), call.Pos(), want(fv), "index field "+fv.Name()+" is built "+want(fv)+" but is re-sorted with the other order constant")
						}
					}
				}
			})
		}
		rFO.Check(len(fields) >= 10, pkgSwamp+":index-fields", build.Decl.Pos(), "index fields bound at buildBeacon call sites", "fewer than 10 index fields could be bound to a type and direction")
	}

	rLV := c.Rule("C07.liveinsert", "a record is inserted into an ordered index of the swamp only (a) on the save path - by the function that publishes records to the key index, whose caller holds the record's guard - or (b) inside a guard region on that record after the key index was looked up again: an insertion made elsewhere can put back a record that was deleted in the meantime, and index reads then list a record that no longer exists", 6)
	liveInsertRule(c, rLV)

	rLI := c.Rule("C07.lazyinit", "a beacon method that marks the index initialized as a side effect is called on a lazily built index field (or a Beacon parameter) only after buildBeacon of that index in the same function or under an IsInitialized() guard on the same expression", 20)
	lazyInitRule(c, rLI)

	rE := c.Rule("C07.enum", "every index type constant has an entry (or the key default) in the type->sorter table used by the index build", 14)
	{
		btT := p.Named(pkgSwamp, "BeaconType")
		for _, k := range enumConsts(p.Pkg(pkgSwamp).Types, btT) {
			_, inTable := table[k.Name()]
			if !inTable && k.Name() == "BeaconTypeKey" {
				_, inTable = table["default"]
			}
			rE.Check(inTable, k.Name(), k.Pos(), "handled", "index type "+k.Name()+" has no sorter in the table: such an index is built in key order")
		}
	}

}

// lazyInitRule: the swamp's index beacons are built lazily by buildBeacon, which is skipped once the
// beacon reports IsInitialized. Almost every beacon method marks the beacon initialized as a side
// effect, so calling one on an index field that may not be built yet makes the cold build never run
// (the index then misses every record that existed before). Every such call must be preceded by the
// build of that field in the same function or be guarded by IsInitialized() on the same expression.
func lazyInitRule(c *core.Ctx, r *core.Rule) {
	p := c.P
	// beacon methods that set the initialized flag
	initF := p.MustField(pkgBeacon, "beacon", "initialized")
	marks := map[string]bool{}
	for _, m := range p.FuncsIn(pkgBeacon) {
		if m.Decl.Body == nil || m.Decl.Recv == nil {
			continue
		}
		for _, a := range core.Accesses(m.Info(), m.Decl.Body, map[*types.Var]bool{initF: true}, true) {
			if a.Write && m.Obj.Name() != "SetInitialized" && m.Obj.Name() != "Reset" {
				marks[m.Obj.Name()] = true
			}
		}
	}
	build := c.Fn(pkgSwamp + ".swamp.buildBeacon")
	// lazily built index fields: the ones handed to buildBeacon
	lazy := map[*types.Var]bool{}
	for _, f := range p.FuncsIn(pkgSwamp) {
		if f.Decl.Body == nil {
			continue
		}
		core.Calls(f.Decl.Body, true, func(call *ast.CallExpr) {
			if core.IsWsCallTo(f.Info(), call, build.Key) {
				for _, a := range call.Args {
					if fv := core.FieldOf(f.Info(), a); fv != nil {
						lazy[fv] = true
					}
				}
			}
		})
	}
	beaconT := p.Named(pkgBeacon, "Beacon")
	// helpers: methods of the swamp that build a lazily built index on every path to their exit
	// (directly or through another such helper); a call to one counts like the buildBeacon call it makes
	builders := map[*core.Func]map[*types.Var]bool{}
	for round := 0; round < 2; round++ {
		for _, g := range p.FuncsIn(pkgSwamp) {
			if g.Decl.Body == nil || g == build || g.Decl.Recv == nil {
				continue
			}
			ginfo := g.Info()
			var gfl *core.Flow
			core.Calls(g.Decl.Body, false, func(bc *ast.CallExpr) {
				var fields []*types.Var
				if core.IsWsCallTo(ginfo, bc, build.Key) {
					for _, a := range bc.Args {
						if fv := core.FieldOf(ginfo, a); fv != nil && lazy[fv] {
							fields = append(fields, fv)
						}
					}
				} else if h := p.ByObj[core.Callee(ginfo, bc)]; h != nil && h != g {
					for fv := range builders[h] {
						fields = append(fields, fv)
					}
				}
				if len(fields) == 0 {
					return
				}
				if gfl == nil {
					gfl = core.NewFlow(p, ginfo, g.Decl.Body)
				}
				if gfl.ExitWithout(gfl.Entry(), nil, false, core.ContainsNode(bc)) {
					return
				}
				if builders[g] == nil {
					builders[g] = map[*types.Var]bool{}
				}
				for _, fv := range fields {
					builders[g][fv] = true
				}
			})
		}
	}
	n := 0
	for _, f := range p.FuncsIn(pkgSwamp) {
		if f.Decl.Body == nil || f == build {
			continue
		}
		info := f.Info()
		sig := f.Obj.Type().(*types.Signature)
		for _, body := range core.Bodies(f.Decl) {
			var fl *core.Flow
			core.Calls(body, false, func(call *ast.CallExpr) {
				fo := core.Callee(info, call)
				if fo == nil || !marks[fo.Name()] || fo.Pkg() == nil || core.Short(fo.Pkg().Path()) != pkgBeacon {
					return
				}
				recv := core.RecvExpr(call)
				if recv == nil {
					return
				}
				fv := core.FieldOf(info, recv)
				isParam := false
				if o := core.ObjOf(info, recv); o != nil && fv == nil {
					for i := 0; i < sig.Params().Len(); i++ {
						if sig.Params().At(i) == o && types.Identical(o.Type(), beaconT) {
							isParam = true
						}
					}
				}
				if !(fv != nil && lazy[fv]) && !isParam {
					return
				}
				n++
				c.Touch(f)
				if fl == nil {
					fl = core.NewFlow(p, info, body)
				}
				l, ok := fl.Locate(call)
				if !ok {
					return
				}
				rs := core.ExprStr(recv)
				guarded := false
				for _, ft := range fl.FactsAt(l) {
					if gc, isCall := core.Unparen(ft.Expr).(*ast.CallExpr); isCall && ft.Truth {
						if gfo := core.Callee(info, gc); gfo != nil && gfo.Name() == "IsInitialized" && core.ExprStr(core.RecvExpr(gc)) == rs {
							guarded = true
						}
					}
				}
				built := false
				core.Calls(body, false, func(bc *ast.CallExpr) {
					if !core.IsWsCallTo(info, bc, build.Key) {
						if h := p.ByObj[core.Callee(info, bc)]; h != nil && fv != nil && builders[h][fv] {
							if lb, okb := fl.Locate(bc); okb && fl.Dominates(lb, l) {
								built = true
							}
						}
						return
					}
					for _, a := range bc.Args {
						if core.ExprStr(a) == rs {
							if lb, okb := fl.Locate(bc); okb && fl.Dominates(lb, l) {
								built = true
							}
						}
					}
				})
				name := rs
				r.Check(guarded || built, f.Key+":"+name+"."+fo.Name(), call.Pos(), "index built or known initialized before the call",
					"beacon."+fo.Name()+" marks the index initialized as a side effect; it is called on "+name+" without a preceding buildBeacon of that index and without an IsInitialized() guard: on a freshly loaded swamp the empty index is then taken for built, the cold build never runs, and every record that existed before is missing from reads, shifts and expiry claims through this index")
			})
		}
	}
	if n == 0 {
		r.Bad(pkgSwamp+":index-calls", token.NoPos, "no calls on lazily built index fields found")
	}
}

// defineExpr returns the right-hand side of the := (or var ... =) that introduces obj.
func defineExpr(info *types.Info, body ast.Node, obj types.Object) ast.Expr {
	var out ast.Expr
	ast.Inspect(body, func(x ast.Node) bool {
		switch v := x.(type) {
		case *ast.AssignStmt:
			if v.Tok == token.DEFINE && len(v.Lhs) == len(v.Rhs) {
				for i, l := range v.Lhs {
					if id, ok := l.(*ast.Ident); ok && info.Defs[id] == obj {
						out = v.Rhs[i]
					}
				}
			}
		case *ast.ValueSpec:
			for i, nm := range v.Names {
				if info.Defs[nm] == obj && i < len(v.Values) {
					out = v.Values[i]
				}
			}
		}
		return true
	})
	return out
}

// windowRule decides the half-open window of findTimeRangeBounds (C07.window, shared with C30.window:
// expiry-ordered reads are one of the paths that look at expiry).
func windowRule(c *core.Ctx, rW *core.Rule) {
	p := c.P
	_ = p
	{
		f := c.Fn(pkgBeacon + ".beacon.findTimeRangeBounds")
		info := f.Info()
		sig := f.Obj.Type().(*types.Signature)
		body := f.Decl.Body
		// which bound an expression denotes: a local assigned from <param i>....UnixNano()
		boundKind := func(e ast.Expr) string {
			obj := core.ObjOf(info, e)
			if obj == nil {
				return ""
			}
			kind := ""
			ast.Inspect(body, func(x ast.Node) bool {
				as, ok := x.(*ast.AssignStmt)
				if !ok || len(as.Lhs) != len(as.Rhs) {
					return true
				}
				for i, l := range as.Lhs {
					if core.ObjOf(info, l) != obj {
						continue
					}
					ast.Inspect(as.Rhs[i], func(y ast.Node) bool {
						if id, isId := y.(*ast.Ident); isId && sig.Params().Len() >= 2 {
							if info.Uses[id] == sig.Params().At(0) {
								kind = "from"
							}
							if info.Uses[id] == sig.Params().At(1) {
								kind = "to"
							}
						}
						return true
					})
				}
				return true
			})
			return kind
		}
		// result variables
		var startObj, endObj types.Object
		ast.Inspect(body, func(x ast.Node) bool {
			if ret, ok := x.(*ast.ReturnStmt); ok && len(ret.Results) == 2 {
				a, b2 := core.ObjOf(info, ret.Results[0]), core.ObjOf(info, ret.Results[1])
				if a != nil && b2 != nil {
					startObj, endObj = a, b2
				}
			}
			return true
		})
		// ascending sort orders: constants assigned to sortOrder by methods whose comparator is <
		ascConst := map[types.Object]bool{}
		descConst := map[types.Object]bool{}
		sortOrderF := p.MustField(pkgBeacon, "beacon", "sortOrder")
		for _, m := range p.FuncsIn(pkgBeacon) {
			if m.Decl.Body == nil || m.Decl.Recv == nil {
				continue
			}
			_, op, ok := comparatorOf(m)
			if !ok {
				continue
			}
			ast.Inspect(m.Decl.Body, func(x ast.Node) bool {
				if as, isAs := x.(*ast.AssignStmt); isAs && len(as.Lhs) == 1 && len(as.Rhs) == 1 && core.FieldOf(m.Info(), as.Lhs[0]) == sortOrderF {
					if k, isK := core.ObjOf(m.Info(), as.Rhs[0]).(*types.Const); isK {
						if op == token.LSS {
							ascConst[k] = true
						}
						if op == token.GTR {
							descConst[k] = true
						}
					}
				}
				return true
			})
		}
		// the direction test
		var dirIf *ast.IfStmt
		thenAsc, classified := false, false
		for _, st := range body.List {
			is, ok := st.(*ast.IfStmt)
			if !ok || is.Else == nil {
				continue
			}
			cond := is.Cond
			if id, isId := core.Unparen(cond).(*ast.Ident); isId {
				if def := localDef(info, body, info.Uses[id]); def != nil {
					cond = def
				}
			}
			set := map[types.Object]bool{}
			pure := true
			var collect func(e ast.Expr)
			collect = func(e ast.Expr) {
				e = core.Unparen(e)
				be, isB := e.(*ast.BinaryExpr)
				if !isB {
					pure = false
					return
				}
				switch be.Op {
				case token.LOR:
					collect(be.X)
					collect(be.Y)
				case token.EQL:
					if core.FieldOf(info, be.X) == sortOrderF {
						if k, isK := core.ObjOf(info, be.Y).(*types.Const); isK {
							set[k] = true
							return
						}
					}
					pure = false
				default:
					pure = false
				}
			}
			collect(cond)
			if !pure || len(set) == 0 {
				continue
			}
			same := func(a, b map[types.Object]bool) bool {
				if len(a) != len(b) {
					return false
				}
				for k := range a {
					if !b[k] {
						return false
					}
				}
				return true
			}
			dirIf = is
			if same(set, ascConst) {
				thenAsc, classified = true, true
			} else if same(set, descConst) {
				thenAsc, classified = false, true
			}
		}
		if dirIf == nil || !classified || startObj == nil || endObj == nil {
			rW.Bad(f.Key+":direction-test", f.Decl.Pos(), "the branch between ascending and descending search is not a test of sortOrder against exactly the ascending (or exactly the descending) sort orders: an index direction is searched with the wrong comparison")
		} else {
			type pred struct {
				op     token.Token
				bound  string
				minus1 bool
				pos    token.Pos
				ok     bool
				as     *ast.AssignStmt
				bexpr  ast.Expr
			}
			var lastBoundExpr ast.Expr
			norm := func(be *ast.BinaryExpr) (token.Token, string, bool) {
				// ts OP bound, ts being a call
				x, y, op := core.Unparen(be.X), core.Unparen(be.Y), be.Op
				if _, isCall := x.(*ast.CallExpr); !isCall {
					if _, yCall := y.(*ast.CallExpr); yCall {
						x, y, op = y, x, mirror(op)
					} else {
						return token.ILLEGAL, "", false
					}
				}
				k := boundKind(y)
				lastBoundExpr = y
				return op, k, k != ""
			}
			extract := func(branch ast.Stmt, target types.Object) pred {
				out := pred{}
				ast.Inspect(branch, func(x ast.Node) bool {
					blk, ok := x.(*ast.BlockStmt)
					if !ok {
						return true
					}
					for i, st := range blk.List {
						as, isAs := st.(*ast.AssignStmt)
						if !isAs || len(as.Lhs) != 1 || core.ObjOf(info, as.Lhs[0]) != target {
							continue
						}
						rhs := core.Unparen(as.Rhs[0])
						out.pos = as.Pos()
						if be, isB := rhs.(*ast.BinaryExpr); isB && be.Op == token.SUB && isConst(info, be.Y, 1) {
							out.minus1 = true
							rhs = core.Unparen(be.X)
						}
						// sort.Search(n, func(i int) bool { return ts OP bound })
						if call, isCall := rhs.(*ast.CallExpr); isCall && core.IsCallTo(info, call, "sort.Search") && len(call.Args) == 2 {
							if lit, isLit := core.Unparen(call.Args[1]).(*ast.FuncLit); isLit && len(lit.Body.List) == 1 {
								if ret, isRet := lit.Body.List[0].(*ast.ReturnStmt); isRet && len(ret.Results) == 1 {
									if be, isB := core.Unparen(ret.Results[0]).(*ast.BinaryExpr); isB {
										out.op, out.bound, out.ok = norm(be)
										out.as, out.bexpr = as, lastBoundExpr
									}
								}
							}
							continue
						}
						// hand-written bisection: result variable = the local moved by `x = m + 1`
						resObj := core.ObjOf(info, rhs)
						if resObj == nil || i == 0 {
							continue
						}
						loop, isLoop := blk.List[i-1].(*ast.ForStmt)
						if !isLoop {
							continue
						}
						ast.Inspect(loop.Body, func(y ast.Node) bool {
							is, isIf := y.(*ast.IfStmt)
							if !isIf {
								return true
							}
							be, isB := core.Unparen(is.Cond).(*ast.BinaryExpr)
							if !isB {
								return true
							}
							op, k, okN := norm(be)
							if !okN {
								return true
							}
							// which variable does the then-branch move, and how
							thenMovesResUp := false
							thenMovesOther := false
							for _, st2 := range is.Body.List {
								if a2, ok2 := st2.(*ast.AssignStmt); ok2 && len(a2.Lhs) == 1 {
									if core.ObjOf(info, a2.Lhs[0]) == resObj {
										if b3, isB3 := core.Unparen(a2.Rhs[0]).(*ast.BinaryExpr); isB3 && b3.Op == token.ADD && isConst(info, b3.Y, 1) {
											thenMovesResUp = true
										}
									} else {
										thenMovesOther = true
									}
								}
							}
							switch {
							case thenMovesResUp: // C true -> search to the right: first index where !C
								out.op, out.bound, out.ok = core.Negate(op), k, true
								out.as, out.bexpr = as, lastBoundExpr
							case thenMovesOther: // C true -> this index is a candidate: first index where C
								out.op, out.bound, out.ok = op, k, true
								out.as, out.bexpr = as, lastBoundExpr
							}
							return true
						})
					}
					return true
				})
				return out
			}
			var ascBranch, descBranch ast.Stmt = dirIf.Body, dirIf.Else
			if !thenAsc {
				ascBranch, descBranch = dirIf.Else, dirIf.Body
			}
			want := []struct {
				key    string
				branch ast.Stmt
				target types.Object
				op     token.Token
				bound  string
				minus1 bool
				text   string
			}{
				{"asc/start", ascBranch, startObj, token.GEQ, "from", false, "first index with ts >= from"},
				{"asc/end", ascBranch, endObj, token.GEQ, "to", true, "(first index with ts >= to) - 1"},
				{"desc/start", descBranch, startObj, token.LSS, "to", false, "first index with ts < to"},
				{"desc/end", descBranch, endObj, token.LSS, "from", true, "(first index with ts < from) - 1"},
			}
			for _, w := range want {
				got := extract(w.branch, w.target)
				construct := f.Key + ":" + w.key
				if !got.ok {
					rW.Undecided(construct, got.pos, "the search that sets this bound is neither a bisection of the recognised shape nor a sort.Search call")
					continue
				}
				m1 := ""
				if got.minus1 {
					m1 = " - 1"
				}
				rW.Check(got.op == w.op && got.bound == w.bound && got.minus1 == w.minus1, construct, got.pos, w.text,
					"this bound is (first index with ts "+got.op.String()+" "+got.bound+")"+m1+"; the half-open window [from,to) needs "+w.text+": a record whose timestamp equals a bound is returned or dropped on the wrong side")
				// an absent bound means "unbounded on that side": the search runs only when the bound
				// was given (and the result variable then keeps its whole-range default), or the value
				// searched for when it is absent is the end of the int64 domain that excludes nothing
				if got.as != nil && got.bound != "" {
					prm := sig.Params().At(0)
					if got.bound == "to" {
						prm = sig.Params().At(1)
					}
					guarded := false
					for _, n := range core.PathTo(body, got.as) {
						is, isIf := n.(*ast.IfStmt)
						if !isIf || !(is.Body.Pos() <= got.as.Pos() && got.as.End() <= is.Body.End()) {
							continue
						}
						if be, isB := core.Unparen(is.Cond).(*ast.BinaryExpr); isB && be.Op == token.NEQ && core.ObjOf(info, be.X) == prm && core.IsNilIdent(info, be.Y) {
							guarded = true
						}
					}
					why := ""
					okAbsent := false
					if guarded {
						// whole-range default of the result variable
						def := defineExpr(info, body, w.target)
						switch {
						case def == nil:
							why = "the result variable has no defining value"
						case w.target == startObj:
							okAbsent = isConst(info, def, 0)
							why = "default of the start index is " + core.ExprStr(def)
						default:
							be, isB := core.Unparen(def).(*ast.BinaryExpr)
							okAbsent = isB && be.Op == token.SUB && isConst(info, be.Y, 1)
							why = "default of the end index is " + core.ExprStr(def)
						}
					} else {
						// unguarded search: value of the bound local when the parameter is nil
						bobj := core.ObjOf(info, got.bexpr)
						var dflt ast.Expr
						zero := false
						ast.Inspect(body, func(x ast.Node) bool {
							switch v := x.(type) {
							case *ast.ValueSpec:
								for i, nm := range v.Names {
									if info.Defs[nm] == bobj {
										if i < len(v.Values) {
											dflt = v.Values[i]
										} else {
											zero = true
										}
									}
								}
							case *ast.AssignStmt:
								if v.Tok == token.DEFINE && len(v.Lhs) == len(v.Rhs) {
									for i, l := range v.Lhs {
										if id, isId := l.(*ast.Ident); isId && info.Defs[id] == bobj {
											dflt = v.Rhs[i]
										}
									}
								}
							}
							return true
						})
						switch {
						case zero:
							why = "an absent " + got.bound + " bound is searched as 0"
						case dflt == nil:
							why = "the value searched for an absent " + got.bound + " bound is not a constant"
						default:
							tv := info.Types[dflt]
							why = "an absent " + got.bound + " bound is searched as " + core.ExprStr(dflt)
							if tv.Value != nil && got.bound == "from" {
								if v, exact := constant.Int64Val(constant.ToInt(tv.Value)); exact && v == math.MinInt64 {
									okAbsent = true
								}
							}
						}
					}
					rW.Check(okAbsent, construct+":absent-bound", got.as.Pos(), "an absent bound leaves that side of the window open",
						"when the "+got.bound+" bound is not given this search still cuts the window ("+why+"): records beyond that value (timestamps before 1970 for a zero lower bound) are dropped from the ordered read although no bound excludes them")
				}
			}
		}
	}
}

// liveInsertRule (C07.liveinsert, shared with C11.noresurrect): insertions into the swamp's ordered
// indexes outside the save path are guarded and re-validated against the key index.
func liveInsertRule(c *core.Ctx, r *core.Rule) {
	p := c.P
	_, swSt := p.StructOf(pkgSwamp, "swamp")
	keyIdx := core.StructFields(swSt)["beaconKey"]
	beaconT := p.Named(pkgBeacon, "Beacon")
	if keyIdx == nil || beaconT == nil {
		r.Bad(pkgSwamp+".swamp:indexes", token.NoPos, "cannot identify the key index / the Beacon type (rule needs review)")
		return
	}
	// the ordered indexes: Beacon fields of the swamp that are handed to the lazy index builder
	idxFields := map[*types.Var]bool{}
	if build := p.FnOpt(pkgSwamp + ".swamp.buildBeacon"); build != nil {
		for _, f := range p.FuncsIn(pkgSwamp) {
			if f.Decl.Body == nil {
				continue
			}
			core.Calls(f.Decl.Body, true, func(call *ast.CallExpr) {
				if core.IsWsCallTo(f.Info(), call, build.Key) {
					for _, a := range call.Args {
						if fld := core.FieldOf(f.Info(), a); fld != nil && fld != keyIdx && types.Identical(fld.Type(), beaconT) {
							idxFields[fld] = true
						}
					}
				}
			})
		}
	}
	if len(idxFields) == 0 {
		r.Bad(pkgSwamp+".swamp:indexes", token.NoPos, "no lazily built index field found (rule needs review)")
		return
	}
	publisher := map[*core.Func]bool{}
	for _, f := range p.FuncsIn(pkgSwamp) {
		if f.Decl.Body == nil {
			continue
		}
		core.Calls(f.Decl.Body, false, func(call *ast.CallExpr) {
			if fo := core.Callee(f.Info(), call); fo != nil && fo.Name() == "Add" && core.FieldOf(f.Info(), core.RecvExpr(call)) == keyIdx {
				publisher[f] = true
			}
		})
	}
	isIdxAdd := func(info *types.Info, call *ast.CallExpr) bool {
		fo := core.Callee(info, call)
		if fo == nil || fo.Name() != "Add" || len(call.Args) != 1 {
			return false
		}
		fld := core.FieldOf(info, core.RecvExpr(call))
		return fld != nil && idxFields[fld]
	}
	funcs := p.FuncsIn(pkgSwamp)
	// helpers: insert one of their own parameters (directly or through another helper)
	helperParam := map[*core.Func]int{}
	isParam := func(f *core.Func, info *types.Info, e ast.Expr) (int, bool) {
		o := core.ObjOf(info, e)
		sig := f.Obj.Type().(*types.Signature)
		for i := 0; i < sig.Params().Len(); i++ {
			if sig.Params().At(i) == o {
				return i, true
			}
		}
		return 0, false
	}
	for changed := true; changed; {
		changed = false
		for _, f := range funcs {
			if f.Decl.Body == nil {
				continue
			}
			if _, done := helperParam[f]; done || publisher[f] {
				continue
			}
			info := f.Info()
			core.Calls(f.Decl.Body, true, func(call *ast.CallExpr) {
				var arg ast.Expr
				if isIdxAdd(info, call) {
					arg = call.Args[0]
				} else if h := p.ByObj[core.Callee(info, call)]; h != nil {
					if pi, ok := helperParam[h]; ok && pi < len(call.Args) {
						arg = call.Args[pi]
					}
				}
				if arg == nil {
					return
				}
				if pi, ok := isParam(f, info, arg); ok {
					if _, done := helperParam[f]; !done {
						helperParam[f] = pi
						changed = true
					}
				}
			})
		}
	}
	n := 0
	for _, f := range funcs {
		if f.Decl.Body == nil {
			continue
		}
		if _, isHelper := helperParam[f]; isHelper {
			continue // checked at its call sites
		}
		info := f.Info()
		publishes := false
		core.Calls(f.Decl.Body, false, func(call *ast.CallExpr) {
			if fo := core.Callee(info, call); fo != nil && fo.Name() == "Add" && core.FieldOf(info, core.RecvExpr(call)) == keyIdx {
				publishes = true
			}
		})
		for _, body := range core.Bodies(f.Decl) {
			var fl *core.Flow
			core.Calls(body, false, func(call *ast.CallExpr) {
				var arg ast.Expr
				what := ""
				if isIdxAdd(info, call) {
					arg, what = call.Args[0], core.ExprStr(call.Fun)
				} else if h := p.ByObj[core.Callee(info, call)]; h != nil {
					if pi, ok := helperParam[h]; ok && pi < len(call.Args) {
						arg, what = call.Args[pi], h.Obj.Name()
					}
				}
				if arg == nil {
					return
				}
				n++
				c.Touch(f)
				construct := f.Key + ":" + what + "(" + core.ExprStr(arg) + ")"
				if publishes && body == f.Decl.Body {
					r.Ok(construct, call.Pos(), "save path: the function that publishes the record to the key index")
					return
				}
				if fl == nil {
					fl = core.NewFlow(p, info, body)
				}
				loc, ok := fl.Locate(call)
				rec := core.ObjOf(info, arg)
				guarded, checked := false, false
				if ok && rec != nil {
					core.Calls(body, false, func(g *ast.CallExpr) {
						if fo := core.Callee(info, g); fo != nil && fo.Name() == "StartTreasureGuard" && core.ObjOf(info, core.RecvExpr(g)) == rec {
							if lg, ok2 := fl.Locate(g); ok2 && fl.Dominates(lg, loc) {
								// not released in between: no release of this record reaches the insertion without passing the acquisition again
								rel := false
								core.Calls(body, false, func(x *ast.CallExpr) {
									fo2 := core.Callee(info, x)
									if fo2 == nil || fo2.Name() != "ReleaseTreasureGuard" || core.ObjOf(info, core.RecvExpr(x)) != rec || underDefer(body, x) {
										return
									}
									if lx, okx := fl.Locate(x); okx {
										if reach, _ := fl.CanReach(lx, nil, core.ContainsNode(g), core.ContainsNode(call)); reach {
											rel = true
										}
									}
								})
								if !rel {
									guarded = true
								}
								for _, ft := range expandFacts(info, body, fl.FactsAt(loc)) {
									ast.Inspect(ft.Expr, func(y ast.Node) bool {
										if k, isCall := y.(*ast.CallExpr); isCall {
											if fo3 := core.Callee(info, k); fo3 != nil && fo3.Name() == "Get" && core.FieldOf(info, core.RecvExpr(k)) == keyIdx && k.Pos() > g.Pos() {
												checked = true
											}
										}
										return true
									})
								}
							}
						}
					})
				}
				r.Check(guarded && checked, construct, call.Pos(), "inside a guard region on the record, after the key index was looked up again",
					"a record is put into an ordered index here outside the save path without holding its guard and re-checking the key index (guarded="+b2s(guarded)+" key-index-rechecked="+b2s(checked)+"): a record that was deleted in the meantime comes back into the index - ordered reads list it, an expired-shift or expired-patch hands it out and a patch brings it back to life")
			})
		}
	}
	if n == 0 {
		r.Bad(pkgSwamp+":index-insertions", token.NoPos, "no insertion into an ordered index found")
	}
}

func underDefer(body ast.Node, call *ast.CallExpr) bool {
	for _, n := range core.PathTo(body, call) {
		if _, ok := n.(*ast.DeferStmt); ok {
			return true
		}
	}
	return false
}
