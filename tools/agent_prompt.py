#!/usr/bin/env python3
"""Prints the prompt given to an independent sub-agent that is asked to break one property.
Usage: agent_prompt.py Cnn suffix   (worktree /tmp/wt/Cnn-suffix, output /tmp/wt/out/Cnn-suffix)
The prompt contains only the property's own text; nothing from /verif's machinery."""
import json, sys
pid, suf = sys.argv[1], sys.argv[2]
extra = sys.argv[3] if len(sys.argv) > 3 else ""
p = next(json.loads(l) for l in open("/verif/properties.jsonl") if json.loads(l)["id"] == pid)
wt, out = f"/tmp/wt/{pid}-{suf}", f"/tmp/wt/out/{pid}-{suf}"
print(f"""You are helping to evaluate a verification tool by producing one realistic regression in a Go code base.

Work ONLY inside the git worktree {wt} (a checkout of HydrAIDE, a Go gRPC data engine with per-swamp in-memory indexes, an append-only single-file storage engine with compaction, TTL locks and subscriptions) and write your deliverables to {out}/. Do NOT read, list or touch /verif, /repo, or any other directory under /tmp/wt.

PROPERTY {pid}: {p['title']}
Statement: {p['statement']}
Quantified over: {p['quantifier']['text']}
Why ordinary tests cannot settle it: {p['why_tests_cant']}
Code anchors: {json.dumps(p['anchors'].get('files'))}; mechanisms: {json.dumps(p['anchors'].get('mechanism'))}

TASK: make a small change to NON-test .go source files in the worktree that BREAKS this property while
 (1) everything still compiles: `go build ./...` at the worktree root and in sdk/go/hydraidego;
 (2) the existing test suite still passes: run `go test -vet=off -count=1 ./...` at the worktree root and in sdk/go/hydraidego (about 2-4 minutes; the test files of package app/core/hydra/swamp do not compile at this commit - that is pre-existing, ignore that one package);
 (3) the change reads like a plausible developer slip, refactor or 'optimisation' - no marker comments, no dead giveaways, no test-only switches, no environment variables;
 (4) it needs something SPECIFIC to manifest: a particular interleaving, a crash or I/O fault at a particular point, a multi-step sequence of operations, an unusual input, or two cooperating sites that each look fine alone. Not something ordinary use would expose at once.
{extra}
DELIVER in {out}/:
 - patch.diff : output of `git diff` in the worktree (source change only, no test files, no data/ or settings/ dirs that tests create);
 - the demonstration: a Go test file (or tiny program), plus in notes.md the exact path where it must be placed and the exact command to run it. It must FAIL with your change applied and PASS on the unchanged checkout - verify both yourself. NEVER use `git stash` (the stash is shared between worktrees and other people work in sibling worktrees); instead save your change with `git diff > {out}/patch.diff`, undo it with `git apply -R {out}/patch.diff`, and re-apply it with `git apply {out}/patch.diff`. Never run pkill/killall. Make it deterministic where at all possible (force interleavings with channels, fault injection through interfaces the code already has, crafted files); if it is inherently probabilistic, loop with a bound and say so;
 - notes.md : what the change is, why it breaks the property, what it needs in order to manifest, and the commands you ran with their results (build, existing tests, demo with and without the change).

ENVIRONMENT: offline sandbox. `go build` and `go test` work as they are (do not set GOFLAGS or GOPROXY; if a toolchain error appears, use GOTOOLCHAIN=auto). Tests create data/ and settings/ directories next to packages; harmless in your worktree. Do not commit. Leave the change applied in the worktree when you finish. Reply with a summary of at most 8 lines.""")
