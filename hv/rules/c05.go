package rules

import (
	"go/ast"
	"go/token"
	"go/types"
	"sort"
	"strings"

	"hv/core"
)

func init() { register("C05", c05) }

const pkgPB = "sdk/hydraidepbgo"

// contentValueFields lists the fields of treasure.Content that hold a value (pointer or slice typed).
func contentValueFields(p *core.Prog) []*types.Var {
	_, st := p.StructOf(pkgTreasure, "Content")
	var out []*types.Var
	for i := 0; i < st.NumFields(); i++ {
		f := st.Field(i)
		switch f.Type().Underlying().(type) {
		case *types.Pointer, *types.Slice:
			out = append(out, f)
		}
	}
	return out
}

// fieldsTestedNonNil lists Content fields compared with nil (x.F != nil) inside f.
func fieldsTestedNonNil(f *core.Func, owner *types.Named) map[string]bool {
	info := f.Info()
	out := map[string]bool{}
	ast.Inspect(f.Decl.Body, func(x ast.Node) bool {
		be, ok := x.(*ast.BinaryExpr)
		if !ok || be.Op != token.NEQ || !core.IsNilIdent(info, be.Y) {
			return true
		}
		if fld := core.FieldOf(info, be.X); fld != nil {
			if s, ok := core.Unparen(be.X).(*ast.SelectorExpr); ok && namedOf(info.TypeOf(s.X)) == owner {
				out[fld.Name()] = true
			}
		}
		return true
	})
	return out
}

func c05(c *core.Ctx) {
	p := c.P
	c.Explain = "Static necessary conditions for 'close and reload preserve every record exactly': the stored form keeps a discriminator for the value fields that gob would omit when they hold a zero value (pointer-to-basic and slice fields whose presence the code distinguishes): ConvertToByte sets it before encoding, LoadFromByte restores the omitted zero value after decoding, and the restore switch covers every content type with the field GetContentType associates with it; the content tables (GetContentType, cloneContent, gateway encode/decode switches) are exhaustive and pair the same width/kind per type; encode and decode use the same Go type; created/updated/expiry travel through the wire in nanoseconds."
	c.NotCovered = []string{"value equality after a real close / re-summon", "gob's behaviour itself (trusted: zero values are omitted, unknown fields ignored)", "empty bytes on the proto wire"}

	content := p.Named(pkgTreasure, "Content")
	valueFields := contentValueFields(p)
	ctT := p.Named(pkgTreasure, "ContentType")
	gct := c.Fn(pkgTreasure + ".treasure.GetContentType")

	// GetContentType: field -> content type constant
	fieldToCT := map[string]string{}
	{
		info := gct.Info()
		ast.Inspect(gct.Decl.Body, func(x ast.Node) bool {
			is, ok := x.(*ast.IfStmt)
			if !ok {
				return true
			}
			be, ok := core.Unparen(is.Cond).(*ast.BinaryExpr)
			if !ok || be.Op != token.NEQ || !core.IsNilIdent(info, be.Y) {
				return true
			}
			fld := core.FieldOf(info, be.X)
			if fld == nil || len(is.Body.List) != 1 {
				return true
			}
			if ret, ok := is.Body.List[0].(*ast.ReturnStmt); ok && len(ret.Results) == 1 {
				if k, ok := core.ObjOf(info, ret.Results[0]).(*types.Const); ok {
					fieldToCT[fld.Name()] = k.Name()
				}
			}
			return true
		})
	}
	rT := c.Rule("C05.tables", "GetContentType and cloneContent handle every value field of Content; the gateway's treasureToKeyValuePair has a case for every content type and keyValuesToTreasure a case for every value field of the request message; each case pairs the same kind on both sides (Int8Val <-> SetContentInt8 <-> ContentTypeInt8 <-> GetContentInt8)", 50)
	clone := c.Fn(pkgTreasure + ".treasure.cloneContent")
	cloned := fieldsTestedNonNil(clone, content)
	for _, f := range valueFields {
		_, ok := fieldToCT[f.Name()]
		rT.Check(ok, gct.Key+":"+f.Name(), gct.Decl.Pos(), "has a case", "Content."+f.Name()+" has no case in GetContentType: such records look void")
		rT.Check(cloned[f.Name()], clone.Key+":"+f.Name(), clone.Decl.Pos(), "has a case", "Content."+f.Name()+" is not copied by cloneContent: clones (shift results, events) lose the value")
	}

	// C05.gob
	rG := c.Rule("C05.gob", "every Content value field whose zero value gob omits (pointer to basic, slice) is restorable after decoding: a persisted non-pointer discriminator is set before Encode from GetContentType, and the restore function called after a successful Decode has a case per content type that re-creates exactly the field GetContentType associates with it", 16)
	conv := c.Fn(pkgTreasure + ".treasure.ConvertToByte")
	load := c.Fn(pkgTreasure + ".treasure.LoadFromByte")
	// discriminator: a non-pointer, non-slice field of Content with type ContentType, written in ConvertToByte from GetContentType()
	var disc *types.Var
	{
		info := conv.Info()
		fl := core.NewFlow(p, info, conv.Decl.Body)
		var enc *ast.CallExpr
		core.Calls(conv.Decl.Body, false, func(call *ast.CallExpr) {
			if core.IsCallTo(info, call, "encoding/gob.Encoder.Encode") {
				enc = call
			}
		})
		for _, a := range core.Accesses(info, conv.Decl.Body, nil, false) {
			if !a.Write || !types.Identical(a.Field.Type(), ctT) {
				continue
			}
			if s, ok := core.Unparen(a.Sel.X).(*ast.SelectorExpr); !ok || core.FieldOf(info, s) == nil || namedOf(info.TypeOf(a.Sel.X)) != content {
				continue
			}
			as, ok := a.Node.(*ast.AssignStmt)
			if !ok || len(as.Rhs) != 1 {
				continue
			}
			rc, ok := core.Unparen(as.Rhs[0]).(*ast.CallExpr)
			if !ok || !core.IsWsCallTo(info, rc, gct.Key) {
				continue
			}
			if enc != nil {
				la, lb := fl.MustLocate(as), fl.MustLocate(enc)
				// the assignment must execute before Encode whenever Content is non-nil: it dominates Encode or sits in an if guarded by Content != nil that precedes Encode
				before, _ := fl.CanReach(la, nil, nil, core.ContainsNode(enc))
				if before && !fl.Dominates(lb, la) {
					disc = a.Field
				}
			}
		}
		rG.Check(disc != nil, conv.Key+":discriminator-set-before-encode", conv.Decl.Pos(), "Content discriminator set from GetContentType() before gob Encode",
			"the record model is gob-encoded without a persisted discriminator of the set value field: gob omits typed zero values (0, false, \"\", empty bytes), so after close and reload such records come back void")
	}
	// restore function: called in LoadFromByte after Decode succeeded
	var restore *core.Func
	{
		info := load.Info()
		fl := core.NewFlow(p, info, load.Decl.Body)
		var dec *ast.CallExpr
		core.Calls(load.Decl.Body, false, func(call *ast.CallExpr) {
			if core.IsCallTo(info, call, "encoding/gob.Decoder.Decode") {
				dec = call
			}
		})
		core.Calls(load.Decl.Body, false, func(call *ast.CallExpr) {
			t := p.ByObj[core.Callee(info, call)]
			if t == nil || t.Decl.Body == nil || dec == nil {
				return
			}
			// candidate: a workspace function that switches over the discriminator
			hasSwitch := false
			ast.Inspect(t.Decl.Body, func(x ast.Node) bool {
				if sw, ok := x.(*ast.SwitchStmt); ok && sw.Tag != nil && disc != nil && core.FieldOf(t.Info(), sw.Tag) == disc {
					hasSwitch = true
				}
				return true
			})
			if !hasSwitch {
				return
			}
			if ok, _ := fl.OnlyAfterSuccess(load.Decl.Body, dec, call); ok {
				// and every successful return passes it
				lc := fl.MustLocate(call)
				all := true
				fl.Nodes(func(l core.Loc, n ast.Node) {
					if ret, isRet := n.(*ast.ReturnStmt); isRet && len(ret.Results) == 1 && core.IsNilIdent(info, ret.Results[0]) {
						if !fl.Dominates(lc, l) {
							all = false
						}
					}
				})
				if all {
					restore = t
				}
			}
		})
		rG.Check(restore != nil, load.Key+":restore-after-decode", load.Decl.Pos(), "omitted zero values are restored after a successful Decode", "LoadFromByte does not restore the value fields gob omitted")
	}
	if restore != nil {
		c.Touch(restore)
		info := restore.Info()
		cases := map[string]string{} // content type const -> field assigned
		ast.Inspect(restore.Decl.Body, func(x ast.Node) bool {
			sw, ok := x.(*ast.SwitchStmt)
			if !ok || sw.Tag == nil || core.FieldOf(info, sw.Tag) != disc {
				return true
			}
			for _, cl := range sw.Body.List {
				cc := cl.(*ast.CaseClause)
				assigned := ""
				for _, a := range core.Accesses(info, cc, nil, false) {
					if a.Write && namedOf(info.TypeOf(a.Sel.X)) == content {
						assigned = a.Field.Name()
					}
				}
				for _, e := range cc.List {
					if k, ok := core.ObjOf(info, e).(*types.Const); ok {
						cases[k.Name()] = assigned
					}
				}
			}
			return false
		})
		for _, f := range valueFields {
			ct := fieldToCT[f.Name()]
			rG.Check(ct != "" && cases[ct] == f.Name(), restore.Key+":"+f.Name(), restore.Decl.Pos(), "restored for "+ct,
				"a stored "+ct+" with a zero value is not restored into Content."+f.Name()+" (restore case assigns '"+cases[ct]+"'): the record reloads with a different type or void")
		}
	}

	// C05.sametype
	rS := c.Rule("C05.sametype", "ConvertToByte encodes and LoadFromByte decodes the same Go type", 1)
	{
		et, dt := gobTypesOf(conv, "Encode"), gobTypesOf(load, "Decode")
		rS.Check(len(et) == 1 && len(dt) == 1 && types.Identical(et[0], dt[0]), pkgTreasure+":gob-type", conv.Decl.Pos(), "same type", "encoder and decoder use different types")
	}

	// gateway tables
	enc := c.Fn(pkgGateway + ".treasureToKeyValuePair")
	dec := c.Fn(pkgGateway + ".keyValuesToTreasure")
	norm := func(s string) string {
		s = strings.TrimSuffix(s, "Val")
		switch s {
		case "Bool", "Boolean":
			return "Bool"
		case "Bytes", "ByteArray":
			return "ByteArray"
		case "Uint32SliceGetAll", "Uint32SlicePush":
			return "Uint32Slice"
		}
		return s
	}
	{
		info := enc.Info()
		cm := map[string][2]string{} // content type -> (getter kind, pb field kind)
		ast.Inspect(enc.Decl.Body, func(x ast.Node) bool {
			sw, ok := x.(*ast.SwitchStmt)
			if !ok || sw.Tag == nil {
				return true
			}
			if tv, ok := info.Types[sw.Tag]; !ok || !types.Identical(tv.Type, ctT) {
				return true
			}
			for _, cl := range sw.Body.List {
				cc := cl.(*ast.CaseClause)
				getter, field := "", ""
				for _, st := range cc.Body {
					core.Calls(st, false, func(call *ast.CallExpr) {
						if f := core.Callee(info, call); f != nil && f.Pkg() != nil && core.Short(f.Pkg().Path()) == pkgTreasure {
							getter = norm(strings.TrimPrefix(f.Name(), "GetContent"))
						}
					})
					for _, a := range core.Accesses(info, st, nil, false) {
						if a.Write && a.Field.Pkg() != nil && core.Short(a.Field.Pkg().Path()) == pkgPB {
							field = norm(a.Field.Name())
						}
					}
				}
				for _, e := range cc.List {
					if k, ok := core.ObjOf(info, e).(*types.Const); ok {
						cm[k.Name()] = [2]string{getter, field}
					}
				}
			}
			return false
		})
		for _, k := range enumConsts(p.Pkg(pkgTreasure).Types, ctT) {
			if k.Name() == "ContentTypeVoid" {
				continue
			}
			want := norm(strings.TrimPrefix(k.Name(), "ContentType"))
			got, ok := cm[k.Name()]
			rT.Check(ok && got[0] == want && got[1] == want, enc.Key+":"+k.Name(), enc.Decl.Pos(), "getter and wire field of the same kind",
				"content type "+k.Name()+" is sent with getter '"+got[0]+"' into wire field '"+got[1]+"' (expected "+want+"): the value changes type or is dropped on read")
		}
	}
	{
		info := dec.Info()
		kvT := p.Named(pkgPB, "KeyValuePair")
		st := kvT.Underlying().(*types.Struct)
		cm := map[string]string{} // pb field -> setter kind
		ast.Inspect(dec.Decl.Body, func(x ast.Node) bool {
			sw, ok := x.(*ast.SwitchStmt)
			if !ok || sw.Tag != nil {
				return true
			}
			for _, cl := range sw.Body.List {
				cc := cl.(*ast.CaseClause)
				field := ""
				for _, e := range cc.List {
					ast.Inspect(e, func(y ast.Node) bool {
						if be, ok := y.(*ast.BinaryExpr); ok && be.Op == token.NEQ && core.IsNilIdent(info, be.Y) {
							if f := core.FieldOf(info, be.X); f != nil {
								field = f.Name()
							}
						}
						return true
					})
				}
				setter := ""
				for _, s2 := range cc.Body {
					core.Calls(s2, false, func(call *ast.CallExpr) {
						if f := core.Callee(info, call); f != nil && f.Pkg() != nil && core.Short(f.Pkg().Path()) == pkgTreasure {
							n := f.Name()
							if strings.HasPrefix(n, "SetContent") || strings.HasPrefix(n, "Uint32Slice") {
								setter = norm(strings.TrimPrefix(n, "SetContent"))
							}
						}
					})
				}
				if field != "" {
					cm[field] = setter
				}
			}
			return false
		})
		var names []string
		for i := 0; i < st.NumFields(); i++ {
			n := st.Field(i).Name()
			if st.Field(i).Exported() && (strings.HasSuffix(n, "Val") || n == "Uint32Slice") {
				names = append(names, n)
			}
		}
		sort.Strings(names)
		for _, n := range names {
			want := norm(n)
			if n == "VoidVal" {
				want = "Void"
			}
			rT.Check(cm[n] == want, dec.Key+":"+n, dec.Decl.Pos(), "stored with the setter of the same kind", "request field "+n+" is stored with setter kind '"+cm[n]+"' (expected "+want+"): the value is narrowed, widened or dropped on write")
		}
	}

	// dirty-set order of the periodic writer
	rD := c.Rule("C05.dirtyorder", "the function that hands the pending records to the chronicler removes them from the pending set (treasuresWaitingForWriter) before it calls Write, never after: a Save that lands while Write runs re-marks the record and the next pass persists it", 2)
	{
		pending := p.MustField(pkgSwamp, "swamp", "treasuresWaitingForWriter")
		n := 0
		for _, f := range p.FuncsIn(pkgSwamp) {
			if f.Decl.Body == nil {
				continue
			}
			info := f.Info()
			var writes []*ast.CallExpr
			core.Calls(f.Decl.Body, false, func(call *ast.CallExpr) {
				if core.MethodNamed(info, call, pkgChron, []string{"Chronicler"}, "Write") {
					writes = append(writes, call)
				}
			})
			if len(writes) == 0 {
				continue
			}
			c.Touch(f)
			fl := core.NewFlow(p, info, f.Decl.Body)
			isClear := core.NodeHasCall(func(c2 *ast.CallExpr) bool {
				fo := core.Callee(info, c2)
				if fo == nil || core.FieldOf(info, core.RecvExpr(c2)) != pending {
					return false
				}
				switch fo.Name() {
				case "Delete", "Reset", "ShiftOne", "ShiftMany", "CloneUnorderedTreasures", "CloneOrderedTreasures":
					return true
				}
				return false
			})
			for _, w := range writes {
				n++
				lw := fl.MustLocate(w)
				after, _ := fl.CanReach(lw, nil, nil, isClear)
				rD.Check(!after, f.Key+":no-clear-after-Write", w.Pos(), "pending marks are not cleared after the write", "records are removed from the pending set after chronicler.Write: a Save acknowledged while Write was running (after that record was encoded) loses its pending mark and is never persisted; the old value comes back after close and re-summon")
				before := false
				fl.Nodes(func(l core.Loc, nd ast.Node) {
					if isClear(nd) {
						if r, _ := fl.CanReach(l, nil, nil, core.ContainsNode(w)); r {
							before = true
						}
					}
				})
				rD.Check(before, f.Key+":clear-before-Write", w.Pos(), "pending marks cleared before the write", "the pending set is never cleared before chronicler.Write")
			}
		}
		if n == 0 {
			rD.Bad(pkgSwamp+":chronicler.Write", token.NoPos, "no call to Chronicler.Write found in the swamp package")
		}
	}

	rCF := c.Rule("C05.compactflush", "the inline compaction that a Write can trigger closes the open writer (flushing the entries of the triggering batch) before it rewrites the file (shared with C03.entrypoints)", 1)
	closeBeforeCompact(c, rCF)

	// units
	// C05.dirtyflag: a change of a persisted attribute must reach the file: the record is queued for the
	// writer only when one of the change flags SaveFunction tests is set.
	rDF := c.Rule("C05.dirtyflag", "every method of the record that assigns a field of the persisted model (the struct that ConvertToByte encodes) also sets one of the change flags SaveFunction tests before it queues a record for the writer, on every path through that assignment: a change made without a flag is visible in memory, reported as 'same' by Save, never written, and gone after close and reload", 20)
	dirtyFlagRule(c, rDF, "")

	rU := c.Rule("C05.units", "created/updated/expiry are stored as UnixNano by their setters and leave the gateway through time.Unix(0, x)", 5)
	for _, k := range []string{"SetCreatedAt", "SetModifiedAt", "SetExpirationTime"} {
		f := c.Fn(pkgTreasure + ".treasure." + k)
		ok := false
		core.Calls(f.Decl.Body, false, func(call *ast.CallExpr) {
			if core.IsCallTo(f.Info(), call, "time.Time.UnixNano") {
				ok = true
			}
		})
		rU.Check(ok, f.Key, f.Decl.Pos(), "UnixNano", k+" does not store nanoseconds")
	}
	unitRule(c, rU, func(info *types.Info, body ast.Node, e ast.Expr) bool {
		if call, ok := stripConv(info, e).(*ast.CallExpr); ok {
			if f := core.Callee(info, call); f != nil {
				switch f.Name() {
				case "GetCreatedAt", "GetModifiedAt", "GetExpirationTime", "GetDeletedAt":
					return f.Pkg() != nil && core.Short(f.Pkg().Path()) == pkgTreasure
				}
			}
		}
		return false
	}, "metadata time")
}

// hasReturn reports whether the body contains a return statement outside function literals.
func hasReturn(body *ast.BlockStmt) bool {
	found := false
	ast.Inspect(body, func(x ast.Node) bool {
		switch x.(type) {
		case *ast.FuncLit:
			return false
		case *ast.ReturnStmt:
			found = true
		}
		return true
	})
	return found
}

// reachesFlag: for bodies that fall off their end, whether some flag-setting node follows loc on every
// path is approximated by: a flag-setting node is reachable and no return exists (straight-line setter).
func reachesFlag(fl *core.Flow, loc core.Loc, pred func(ast.Node) bool) bool {
	r, _ := fl.CanReach(loc, nil, nil, pred)
	return r
}

// dirtyFlagExempt: record methods that assign fields of the persisted model without changing an
// attribute a client set (one named method each, with the reason).
var dirtyFlagExempt = map[string]string{
	"ConvertToByte":   "sets the encoding-time discriminator derived from the content right before gob encoding; it is recomputed at every encode",
	"LoadFromByte":    "fills the model while the record is being loaded from the file; nothing to write back",
	"BodySetKey":      "names a record that is being created; its first Save takes the 'new record' path, which queues it unconditionally",
	"BodySetFileName": "legacy (V1) storage location, assigned by the chronicler while it writes the record",
	"Uint32SliceDelete": "the only path without a flag is the one on which every element was removed; the single production caller (gateway Uint32SliceDelete) then deletes the whole record, which is persisted as a delete (latent at the record API: noted in DESIGN.md 9.2b)",
}

func isPtrToStruct(t types.Type, st *types.Struct) bool {
	pt, ok := t.(*types.Pointer)
	if !ok {
		return false
	}
	return pt.Elem().Underlying() == types.Type(st)
}

// isEmptyAlloc: &T{} without elements, new(T), or make(T, 0...).
func isEmptyAlloc(info *types.Info, e ast.Expr) bool {
	e = core.Unparen(e)
	if u, ok := e.(*ast.UnaryExpr); ok && u.Op == token.AND {
		if cl, ok := core.Unparen(u.X).(*ast.CompositeLit); ok {
			return len(cl.Elts) == 0
		}
	}
	if call, ok := e.(*ast.CallExpr); ok {
		if isBuiltinCall(info, call, "new") {
			return true
		}
		if isBuiltinCall(info, call, "make") && (len(call.Args) == 1 || isConst(info, call.Args[1], 0)) {
			return true
		}
	}
	return false
}

// dirtyFlagRule (C05.dirtyflag; C30.persist with onlyField = the expiry attribute): every change of a persisted
// attribute sets a change flag SaveFunction tests.
func dirtyFlagRule(c *core.Ctx, rDF *core.Rule, onlyField string) {
	p := c.P
	{
		sf := c.Fn(pkgSwamp + ".swamp.SaveFunction")
		sinfo := sf.Info()
		flagFields := map[*types.Var]bool{}
		core.Calls(sf.Decl.Body, false, func(call *ast.CallExpr) {
			fo := core.Callee(sinfo, call)
			if fo == nil {
				return
			}
			sig, _ := fo.Type().(*types.Signature)
			if sig == nil || sig.Params().Len() != 0 || sig.Results().Len() != 1 {
				return
			}
			if b, ok := sig.Results().At(0).Type().Underlying().(*types.Basic); !ok || b.Kind() != types.Bool {
				return
			}
			m := p.FnOpt(pkgTreasure + ".treasure." + fo.Name())
			if m == nil || m.Decl.Body == nil {
				return
			}
			ast.Inspect(m.Decl.Body, func(x ast.Node) bool {
				if r, ok := x.(*ast.ReturnStmt); ok && len(r.Results) == 1 {
					if f := core.FieldOf(m.Info(), r.Results[0]); f != nil {
						if b, ok := f.Type().Underlying().(*types.Basic); ok && b.Kind() == types.Bool {
							flagFields[f] = true
						}
					}
				}
				return true
			})
		})
		// the persisted model: the field of the record struct whose type is the struct ConvertToByte encodes
		_, recSt := p.StructOf(pkgTreasure, "treasure")
		modelNamed := p.Named(pkgTreasure, "Model")
		var modelF *types.Var
		if recSt != nil && modelNamed != nil {
			for i := 0; i < recSt.NumFields(); i++ {
				if types.Identical(recSt.Field(i).Type(), modelNamed) {
					modelF = recSt.Field(i)
				}
			}
		}
		guardID := p.Named(pkgGuard, "ID")
		if len(flagFields) == 0 || modelF == nil || guardID == nil {
			rDF.Bad(pkgTreasure+":model-and-flags", sf.Decl.Pos(), "cannot identify the persisted model field, the guard ID type or the change flags SaveFunction reads (rule needs review)")
		} else {
			// is the left-hand side rooted in <recv>.<model>...
			var recvObj types.Object
			underModel := func(info *types.Info, e ast.Expr) bool {
				seen := false
				for {
					if id, isId := core.Unparen(e).(*ast.Ident); isId {
						return seen && recvObj != nil && info.Uses[id] == recvObj
					}
					switch v := core.Unparen(e).(type) {
					case *ast.SelectorExpr:
						if core.FieldOf(info, v) == modelF {
							seen = true
						}
						e = v.X
					case *ast.IndexExpr:
						e = v.X
					case *ast.StarExpr:
						e = v.X
					case *ast.SliceExpr:
						e = v.X
					default:
						return false
					}
				}
			}
			for _, m := range p.FuncsIn(pkgTreasure) {
				if m.Decl.Body == nil || m.Decl.Recv == nil {
					continue
				}
				if rt := m.Obj.Type().(*types.Signature).Recv(); rt == nil || !isPtrToStruct(rt.Type(), recSt) {
					continue
				}
				info := m.Info()
				recvObj = nil
				if len(m.Decl.Recv.List) == 1 && len(m.Decl.Recv.List[0].Names) == 1 {
					recvObj = info.Defs[m.Decl.Recv.List[0].Names[0]]
				}
				if why, isExempt := dirtyFlagExempt[m.Obj.Name()]; isExempt {
					rDF.Ok(m.Key+":model-write-sets-flag", m.Decl.Pos(), "not an attribute change: "+why)
					continue
				}
				var writes []ast.Node
				ast.Inspect(m.Decl.Body, func(x ast.Node) bool {
					switch v := x.(type) {
					case *ast.FuncLit:
						return false
					case *ast.AssignStmt:
						for i, l := range v.Lhs {
							if underModel(info, l) {
								if len(v.Lhs) == len(v.Rhs) && isEmptyAlloc(info, v.Rhs[i]) {
									continue // allocating an empty container changes no attribute
								}
								writes = append(writes, v)
								break
							}
						}
					case *ast.IncDecStmt:
						if underModel(info, v.X) {
							writes = append(writes, v)
						}
					}
					return true
				})
				if onlyField != "" {
					touches := false
					for _, w := range writes {
						ast.Inspect(w, func(y ast.Node) bool {
							if sel, isSel := y.(*ast.SelectorExpr); isSel && sel.Sel.Name == onlyField {
								if fld := core.FieldOf(info, sel); fld != nil {
									touches = true
								}
							}
							return true
						})
					}
					if !touches {
						continue
					}
				}
				if len(writes) == 0 {
					continue
				}
				c.Touch(m)
				fl := core.NewFlow(p, info, m.Decl.Body)
				setsFlag := func(n ast.Node) bool {
					as, ok := n.(*ast.AssignStmt)
					if !ok {
						// a call to another guarded method of the record that sets a flag on every path is not modelled: direct only
						return false
					}
					for i, l := range as.Lhs {
						if f := core.FieldOf(info, l); f != nil && flagFields[f] && i < len(as.Rhs) {
							if v, isB := core.BoolLit(info, as.Rhs[i]); isB && v {
								return true
							}
						}
					}
					return false
				}
				var bad ast.Node
				for _, w := range writes {
					loc, ok := fl.Locate(w)
					if !ok {
						continue
					}
					if setsFlag(w) {
						continue
					}
					before, _ := fl.CanReach(fl.Entry(), nil, setsFlag, core.ContainsNode(w))
					if !before {
						continue
					}
					if fl.ExitWithout(loc, nil, false, setsFlag) || !hasReturn(m.Decl.Body) && !reachesFlag(fl, loc, setsFlag) {
						bad = w
						break
					}
				}
				if bad != nil && len(c.CG().CallersOf(m)) == 0 {
					rDF.Ok(m.Key+":model-write-sets-flag", m.Decl.Pos(), "has a path without a change flag but no caller outside the tests (direct or through the Treasure interface): unreachable for a client; reported as soon as production code calls it")
				} else if bad != nil {
					rDF.Bad(m.Key+":model-write-sets-flag", bad.Pos(), "this method changes a persisted attribute on a path on which no change flag is set: Save reports 'same', the record is not queued for the writer and the change is lost at the next close")
				} else {
					rDF.Ok(m.Key+":model-write-sets-flag", m.Decl.Pos(), "every path through a model write sets a change flag")
				}
			}
		}
	}
}
