#!/usr/bin/env python3
"""Checker self-test (NOT a registered check): applies one small source mutation at a time to a
scratch copy of /repo and runs the rule on it (HV_REPO / HV_VERIF point at scratch dirs so /verif
evidence is untouched). 'break' mutations must produce a VIOLATION, 'benign' ones must not.
Usage: run.py [-k substring] [-p Cnn]"""
import json, os, subprocess, sys, shutil, tempfile, argparse
ap = argparse.ArgumentParser(); ap.add_argument("-k", default=""); ap.add_argument("-p", default="")
args = ap.parse_args()
muts = json.load(open("/verif/selftest/mutations.json"))
tmp = tempfile.mkdtemp(prefix="hvself_", dir="/tmp")
repo = os.path.join(tmp, "repo"); verif = os.path.join(tmp, "verif")
os.makedirs(verif)
subprocess.check_call(["rsync", "-a", "--exclude", ".git", "/repo/", repo + "/"])
shutil.copy("/verif/known_findings.json", verif)
env = dict(os.environ, HV_REPO=repo, HV_VERIF=verif)
ok = bad = 0
try:
    for m in muts:
        if args.k and args.k not in m["name"]: continue
        if args.p and args.p != m["prop"]: continue
        saved = {}
        try:
          try:
              if m.get("patch"):
                  pr = subprocess.run(["patch", "-p1", "-s", "--no-backup-if-mismatch", "-i", "/verif/selftest/patches/" + m["patch"]], cwd=repo, capture_output=True, text=True)
                  if pr.returncode != 0:
                      print(f'{m["name"]}: patch does not apply: {pr.stdout[:200]}'); bad += 1; raise KeyError("patch")
                  patched = m["patch"]
              for e in m.get("edits", []):
                  path = os.path.join(repo, e["file"])
                  src = open(path).read()
                  saved.setdefault(path, src)
                  cur = open(path).read()
                  if cur.count(e["old"]) < 1:
                      print(f'{m["name"]}: pattern not found in {e["file"]}: {e["old"][:60]!r}'); bad += 1; raise KeyError("pattern")
                  open(path, "w").write(cur.replace(e["old"], e["new"], 1))
              b = subprocess.run(["go", "build", "./..."], cwd=repo, capture_output=True, text=True,
                                 env={k: v for k, v in os.environ.items() if k not in ("GOFLAGS", "GOWORK")})
              if b.returncode != 0:
                  print(f'SKIP {m["name"]}: mutant does not compile: {b.stderr[:200]}'); bad += 1; continue
              r = subprocess.run(["/verif/bin/hv", "check", "-prop", m["prop"]], env=env, capture_output=True, text=True)
              viol = [l for l in r.stdout.splitlines() if l.startswith("VIOLATION") or l.startswith("  rule=")]
              want = m.get("kind", "break") == "break"
              hit = r.returncode == 1 and any(m.get("expect_rule", "") in l for l in viol)
              if want == hit and (want or r.returncode == 0):
                  ok += 1; print(f'ok   {m["kind"] if "kind" in m else "break":6} {m["prop"]} {m["name"]}' + (f'  -> {viol[1].strip()[:110]}' if want and len(viol) > 1 else ''))
              else:
                  bad += 1; print(f'FAIL {m.get("kind","break"):6} {m["prop"]} {m["name"]} exit={r.returncode}\n' + r.stdout[-800:])
          except KeyError:
            continue
        finally:
            for path, src in saved.items(): open(path, "w").write(src)
            if m.get("patch"):
                subprocess.run(["patch", "-R", "-p1", "-s", "--no-backup-if-mismatch", "-i", "/verif/selftest/patches/" + m["patch"]], cwd=repo, capture_output=True, text=True)
finally:
    shutil.rmtree(tmp, ignore_errors=True)
print(f"selftest: {ok} ok, {bad} failed")
sys.exit(1 if bad else 0)
