package settings

import (
	"testing"
	"time"

	"github.com/hydraide/hydraide/app/name"
)

// With an exact pattern and overlapping wildcard patterns registered, the most specific one
// must win on every lookup, independent of map iteration / registration order (C21).
func TestDemoPatternLookupIsDeterministic(t *testing.T) {
	configs := New(2, 1000)
	exact := name.New().Sanctuary("c21demo").Realm("users").Swamp("petergebri")
	wildSwamp := name.New().Sanctuary("c21demo").Realm("users").Swamp("*")
	wildRealm := name.New().Sanctuary("c21demo").Realm("*").Swamp("petergebri")
	wildBoth := name.New().Sanctuary("c21demo").Realm("*").Swamp("*")
	for _, order := range [][]name.Name{{exact, wildSwamp, wildRealm, wildBoth}, {wildBoth, wildRealm, wildSwamp, exact}} {
		secs := map[string]int64{exact.Get(): 11, wildSwamp.Get(): 22, wildRealm.Get(): 33, wildBoth.Get(): 44}
		for _, p := range order {
			configs.RegisterPattern(p, false, secs[p.Get()], &FileSystemSettings{WriteIntervalSec: 1, MaxFileSizeByte: 1})
		}
		seen := map[time.Duration]int{}
		for i := 0; i < 300; i++ {
			seen[configs.GetBySwampName(name.New().Sanctuary("c21demo").Realm("users").Swamp("petergebri")).GetCloseAfterIdle()]++
		}
		for _, p := range order {
			configs.DeregisterPattern(p)
		}
		if len(seen) != 1 || seen[11*time.Second] != 300 {
			t.Fatalf("lookup of c21demo/users/petergebri resolved to different patterns across 300 calls: %v (want always the exact pattern, 11s)", seen)
		}
	}
}
