package name

import "testing"

// Computing the on-disk location must never fail, for every depth / folders-per-level (C20).
func TestDemoHashPathPanicsForDeepLayouts(t *testing.T) {
	for _, depth := range []int{1, 2, 6, 8, 9, 10, 16} {
		for _, per := range []int{16, 256, 1000, 65536} {
			func() {
				defer func() {
					if r := recover(); r != nil {
						t.Errorf("depth=%d foldersPerLevel=%d: panic: %v", depth, per, r)
					}
				}()
				for i := 0; i < 2000; i++ {
					n := New().Sanctuary("s").Realm("r").Swamp(string(rune('a'+i%26)) + string(rune('0'+i%10)) + string(rune(i)))
					_ = n.GetFullHashPath("/data", 1, depth, per)
				}
			}()
		}
	}
}
