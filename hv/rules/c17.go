package rules

import (
	"go/token"
	"go/ast"
	"go/types"
	"strings"

	"hv/core"
)

func init() { register("C17", c17) }

const (
	pkgVigil   = "app/core/hydra/swamp/vigil"
	pkgGuard   = "app/core/hydra/swamp/treasure/guard"
	pkgSwamp   = "app/core/hydra/swamp"
	pkgHydra   = "app/core/hydra"
	pkgGateway = "app/server/gateway"
	pkgSafeops = "app/core/safeops"
)

// ctxDoneExit reports whether the select statement has a case receiving from <ctxObj>.Done()
// whose body leaves the enclosing function (return) on every path.
func selectHasCtxExit(info *types.Info, sel *ast.SelectStmt) bool {
	for _, cl := range sel.Body.List {
		cc := cl.(*ast.CommClause)
		if cc.Comm == nil {
			continue
		}
		isDone := false
		ast.Inspect(cc.Comm, func(x ast.Node) bool {
			if call, ok := x.(*ast.CallExpr); ok {
				if core.QName(core.Callee(info, call)) == "context.Context.Done" {
					isDone = true
				}
			}
			return true
		})
		if !isDone {
			continue
		}
		if len(cc.Body) > 0 {
			if _, ok := cc.Body[len(cc.Body)-1].(*ast.ReturnStmt); ok {
				return true
			}
		}
	}
	return false
}

func c17(c *core.Ctx) {
	p := c.P
	c.Explain = "Static necessary conditions for 'lifecycle waits always terminate': every sync.Cond wait is a locked predicate loop; every writer of a wait predicate either writes under the cond's lock or signals under it afterwards (no lost wake-up), and enabling writes always signal; the vigil drain is never entered with a swamp lock possibly held; unbounded wait loops have a context exit; LockSystem and gateway BeginVigil are paired with a deferred release on every exit."
	c.NotCovered = []string{
		"termination over real schedules (fairness, timing)",
		"that in-flight operations themselves finish",
		"vigil counter balance inside swamp.go auto-destroy tails (DeleteTreasure deliberately calls CeaseVigil before Destroy)",
	}

	waits := findCondWaits(c)
	rShape := c.Rule("C17.loop", "every (*sync.Cond).Wait sits in a for loop whose predicate reads state of the cond's owner, with the cond's lock held", 3)
	rCC := c.Rule("C17.closecompletes", "once swamp.Close or swamp.Destroy has published closing=1, every path to its exit cancels the swamp's context (what WaitForGracefulClose waits for) and sends the closed event (what removes the swamp from the live map): no error branch may return in between, otherwise every later summon of the swamp blocks until its timeout", 4)
	for _, k := range []string{pkgSwamp + ".swamp.Close", pkgSwamp + ".swamp.Destroy"} {
		f := c.Fn(k)
		fi := f.Info()
		fl := core.NewFlow(p, fi, f.Decl.Body)
		closingF := p.MustField(pkgSwamp, "swamp", "closing")
		var store *ast.CallExpr
		core.Calls(f.Decl.Body, false, func(call *ast.CallExpr) {
			if core.IsCallTo(fi, call, "sync/atomic.StoreInt32") && len(call.Args) == 2 {
				if u, ok := core.Unparen(call.Args[0]).(*ast.UnaryExpr); ok && core.FieldOf(fi, u.X) == closingF {
					if v, isC := core.ConstInt(fi, call.Args[1]); isC && v == 1 && store == nil {
						store = call
					}
				}
			}
		})
		if store == nil {
			rCC.Bad(k+":closing-store", f.Decl.Pos(), "the function no longer publishes closing=1")
			continue
		}
		ls := fl.MustLocate(store)
		cancelF := p.MustField(pkgSwamp, "swamp", "goRoutineCancelFunction")
		// exits that are legitimate without completing: the "already closing / already destroyed" early returns,
		// recognised as returns dominated by a test of closing==1 or of the destroyed flag taken before any teardown
		idempotent := func(n ast.Node) bool {
			ret, ok := n.(*ast.ReturnStmt)
			if !ok {
				return false
			}
			l, found := fl.Locate(ret)
			if !found {
				return false
			}
			for _, ft := range fl.FactsAt(l) {
				ok2 := false
				ast.Inspect(ft.Expr, func(y ast.Node) bool {
					if sel, isSel := y.(*ast.SelectorExpr); isSel {
						if fv := core.FieldOf(fi, sel); fv != nil && (fv.Name() == "destroyed" || fv == closingF) && ft.Truth {
							ok2 = true
						}
					}
					return true
				})
				if ok2 {
					return true
				}
			}
			return false
		}
		for _, step := range []struct {
			name string
			is   func(*ast.CallExpr) bool
		}{
			{"context-cancelled", func(c2 *ast.CallExpr) bool { return core.FieldOf(fi, c2.Fun) == cancelF }},
			{"closed-event-sent", func(c2 *ast.CallExpr) bool { return core.IsWsCallTo(fi, c2, pkgSwamp+".swamp.sendClosedEvent") }},
		} {
			pass := core.NodeHasCall(step.is)
			leaks := fl.ExitWithout(ls, nil, false, func(n ast.Node) bool { return pass(n) || idempotent(n) })
			rCC.Check(!leaks, k+":"+step.name, store.Pos(), "reached on every path after closing=1", "a path returns after closing=1 was published without this step (an error branch that gives up): the swamp stays 'closing' forever, WaitForGracefulClose never returns and every later summon of the swamp fails after its timeout")
		}
	}

	rLock := c.Rule("C17.cond-lock", "a write to wait-predicate state happens under the cond's lock, or a Broadcast/Signal issued under that lock follows it on every path (otherwise a waiter between its test and Wait misses the wake-up forever)", 3)
	rSig := c.Rule("C17.cond-signal", "a write that can make a waiter's predicate false is followed by Broadcast/Signal on every path to exit", 2)
	seenOwner := map[string]bool{}
	for _, w := range waits {
		c.Touch(w.Fn)
		condWaitShape(c, w, rShape)
		if w.Owner == nil || w.CondField == nil || len(w.Pred) == 0 {
			continue
		}
		if seenOwner[w.name()] {
			continue
		}
		seenOwner[w.name()] = true
		condWriterRules(c, w, rLock, rSig)
	}

	// C17.order: the vigil drain must not be entered while a lock of the swamp is (possibly) held.
	rOrder := c.Rule("C17.order", "no call that reaches Vigil.WaitForActiveVigilsClosed is made while a sync lock may be held by the caller (in-flight operations need those locks to reach CeaseVigil: lock-order deadlock)", 1)
	cg := c.CG()
	vigilIface := p.Named(pkgVigil, "Vigil")
	var waitObj *types.Func
	for i := 0; i < vigilIface.Underlying().(*types.Interface).NumMethods(); i++ {
		m := vigilIface.Underlying().(*types.Interface).Method(i)
		if m.Name() == "WaitForActiveVigilsClosed" {
			waitObj = m
		}
	}
	if waitObj == nil {
		core.Failf("unresolved anchor: Vigil.WaitForActiveVigilsClosed")
	}
	isDrain := func(s *core.Site) bool {
		return s.Callee != nil && s.Callee.Name() == "WaitForActiveVigilsClosed" &&
			s.Callee.Pkg() != nil && core.Short(s.Callee.Pkg().Path()) == pkgVigil
	}
	// functions (app/core) that may reach the drain
	reach := map[*core.Func]bool{}
	for _, f := range p.FuncsUnder("app/core/") {
		if cg.ReachVia(f, isDrain, func(s *core.Site, t *core.Func) bool { return !s.Dynamic || isSwampLifecycle(s) }) != nil {
			reach[f] = true
		}
	}
	for _, f := range p.FuncsUnder("app/") {
		if f.Decl.Body == nil {
			continue
		}
		info := f.Info()
		for _, body := range core.Bodies(f.Decl) {
			var fl *core.Flow
			var lk *core.Locks
			core.Calls(body, false, func(call *ast.CallExpr) {
				site := cg.SiteOf(f, call)
				if site == nil {
					return
				}
				hit := isDrain(site)
				if !hit {
					// only statically resolved edges: CHA edges through unrelated interfaces would be spurious
					for _, t := range site.Targets {
						if reach[t] && (!site.Dynamic || isSwampLifecycle(site)) {
							hit = true
						}
					}
				}
				if !hit {
					return
				}
				if fl == nil {
					fl = core.NewFlow(p, info, body)
					lk = fl.MayLockAnalysis(nil)
				}
				c.Touch(f)
				held, ok := lk.HeldAtNode(call)
				name := "?"
				if site.Callee != nil {
					name = core.Short(core.QName(site.Callee))
				}
				construct := f.Key + "->" + name
				if !ok {
					return // dead code
				}
				rOrder.Check(len(held) == 0, construct, call.Pos(), "no lock may be held at the call",
					"lock(s) possibly held while waiting for vigils to drain: "+held.String())
			})
		}
	}

	// C17.ctx: unbounded wait loops have a context exit.
	// C17.slot: summoners of one name park in cond.Wait() while another summoner owns the name (ready == true);
	// they are woken only by the owner's release. Every exit of the owner must pass that release.
	rSl := c.Rule("C17.slot", "once SummonSwamp has made itself the owner of a swamp name (it stored true into the waiter's ready flag, the predicate the other summoners wait on), every path to a function exit clears the flag again - directly, through a helper, or through a defer registered before any return can be taken: an owner that leaves without releasing parks every later summoner of that name forever, and their LockSystem holds block shutdown", 1)
	{
		sum := c.Fn(pkgHydra + ".hydra.SummonSwamp")
		info := sum.Info()
		readyF := p.MustField(pkgHydra, "SwampWaiter", "ready")
		// functions (other than SummonSwamp) that clear the flag
		clearers := map[*core.Func]bool{}
		for _, g := range p.FuncsIn(pkgHydra) {
			if g == sum || g.Decl.Body == nil {
				continue
			}
			for _, a := range core.Accesses(g.Info(), g.Decl.Body, map[*types.Var]bool{readyF: true}, true) {
				if a.Write && a.Form == "assign-false" {
					clearers[g] = true
				}
			}
		}
		clears := func(n ast.Node) bool {
			found := false
			ast.Inspect(n, func(x ast.Node) bool {
				switch v := x.(type) {
				case *ast.AssignStmt:
					for i, l := range v.Lhs {
						if core.FieldOf(info, l) == readyF && i < len(v.Rhs) {
							if b, isB := core.BoolLit(info, v.Rhs[i]); isB && !b {
								found = true
							}
						}
					}
				case *ast.CallExpr:
					if t := p.ByObj[core.Callee(info, v)]; t != nil && clearers[t] {
						found = true
					}
				}
				return true
			})
			return found
		}
		fl := core.NewFlow(p, info, sum.Decl.Body)
		n := 0
		for _, a := range core.Accesses(info, sum.Decl.Body, map[*types.Var]bool{readyF: true}, false) {
			if !a.Write || a.Form != "assign-true" {
				continue
			}
			n++
			loc, ok := fl.Locate(a.Node)
			if !ok {
				rSl.Undecided(sum.Key+":owner-releases", a.Node.Pos(), "cannot locate the statement that takes the slot")
				continue
			}
			leak := fl.ExitWithout(loc, nil, false, clears)
			rSl.Check(!leak, sum.Key+":owner-releases", a.Node.Pos(), "every path from taking the slot to an exit passes the release (or the defer that registers it)",
				"after this caller became the owner of the name there is a path to a return that neither clears the ready flag nor has registered the deferred release: the summoners parked behind it are never woken")
		}
		if n == 0 {
			rSl.Ok(sum.Key+":no-owner-flag", sum.Decl.Pos(), "SummonSwamp does not use an owner flag")
		}
	}

	// C17.lockorder: the swamp's mutex and the chronicler's mutex are always taken in the same order.
	rLO := c.Rule("C17.lockorder", "the swamp mutex and the chronicler mutex are acquired in one order only: if some function calls into the chronicler (which locks its mutex) while it holds the swamp mutex, then nothing that runs while the chronicler mutex is held - including the callbacks the chronicler invokes through function values - may acquire the swamp mutex. Destroy waits for the chronicler with the swamp mutex held; a flush that calls back into a swamp method taking that mutex then never finishes, Destroy never returns, summons of the name spin and shutdown hangs", 1)
	{
		cg := c.CG()
		type lockID struct{ typ, field string }
		swampMu := lockID{"swamp", "mu"}
		chronMu := lockID{"chroniclerV2", "mu"}
		lockOf := func(info *types.Info, call *ast.CallExpr) (lockID, bool) {
			fo := core.Callee(info, call)
			if fo == nil || (fo.Name() != "Lock" && fo.Name() != "RLock") || fo.Pkg() == nil || fo.Pkg().Path() != "sync" {
				return lockID{}, false
			}
			sel, ok := core.Unparen(core.RecvExpr(call)).(*ast.SelectorExpr)
			if !ok {
				return lockID{}, false
			}
			fld := core.FieldOf(info, sel)
			n := namedOf(info.TypeOf(sel.X))
			if fld == nil || n == nil {
				return lockID{}, false
			}
			return lockID{n.Obj().Name(), fld.Name()}, true
		}
		// acq[f]: locks f acquires itself or through anything it calls (function values resolved by signature)
		acq := map[*core.Func]map[lockID]*ast.CallExpr{}
		var funcs []*core.Func
		funcs = append(funcs, p.FuncsIn(pkgSwamp)...)
		funcs = append(funcs, p.FuncsIn(pkgChron)...)
		for _, f := range funcs {
			if f.Decl.Body == nil {
				continue
			}
			acq[f] = map[lockID]*ast.CallExpr{}
			core.Calls(f.Decl.Body, true, func(call *ast.CallExpr) {
				if id, ok := lockOf(f.Info(), call); ok && (id == swampMu || id == chronMu) {
					acq[f][id] = call
				}
			})
		}
		for changed := true; changed; {
			changed = false
			for _, f := range funcs {
				for _, site := range cg.Out[f] {
					for _, t := range site.Targets {
						for id, at := range acq[t] {
							if _, has := acq[f][id]; !has && acq[f] != nil {
								acq[f][id] = at
								changed = true
							}
						}
					}
				}
			}
		}
		// edges: a call made with one of the two locks held whose targets acquire the other
		type edge struct {
			f    *core.Func
			call *ast.CallExpr
			via  string
		}
		var sToC, cToS []edge
		for _, f := range funcs {
			if f.Decl.Body == nil || f.Decl.Recv == nil || len(f.Decl.Recv.List) == 0 || len(f.Decl.Recv.List[0].Names) == 0 {
				continue
			}
			rt := namedOf(f.Obj.Type().(*types.Signature).Recv().Type())
			if rt == nil {
				continue
			}
			var own lockID
			switch rt.Obj().Name() {
			case "swamp":
				own = swampMu
			case "chroniclerV2":
				own = chronMu
			default:
				continue
			}
			other := chronMu
			if own == chronMu {
				other = swampMu
			}
			key := f.Decl.Recv.List[0].Names[0].Name + "." + own.field
			info := f.Info()
			for _, body := range core.Bodies(f.Decl) {
				fl := core.NewFlow(p, info, body)
				lk := fl.LockAnalysis(nil)
				core.Calls(body, false, func(call *ast.CallExpr) {
					held, ok := lk.HeldAtNode(call)
					if !ok || held[key] == 0 {
						return
					}
					site := cg.SiteOf(f, call)
					if site == nil {
						return
					}
					for _, t := range site.Targets {
						if _, takes := acq[t][other]; takes {
							e := edge{f, call, t.Key}
							if own == swampMu {
								sToC = append(sToC, e)
							} else {
								cToS = append(cToS, e)
							}
						}
					}
				})
			}
		}
		switch {
		case len(sToC) > 0 && len(cToS) > 0:
			for _, e := range cToS {
				rLO.Bad(e.f.Key+"->"+e.via+":chronicler-then-swamp", e.call.Pos(), "this call is made with the chronicler mutex held and reaches an acquisition of the swamp mutex (through "+e.via+"), while "+sToC[0].f.Key+" calls into the chronicler ("+sToC[0].via+") with the swamp mutex held: the two orders deadlock when a flush and that call overlap")
			}
		default:
			rLO.Ok(pkgSwamp+"+chronicler:one-order", token.NoPos, "swamp.mu -> chronicler.mu sites: "+itoa(len(sToC))+", chronicler.mu -> swamp.mu sites: "+itoa(len(cToS)))
		}
	}

	rCtx := c.Rule("C17.ctx", "condition-less wait loops in WaitForGracefulClose and SummonSwamp contain a select with a ctx.Done() case that returns; SummonSwamp bounds its wait for a closing swamp with a timeout context", 3)
	for _, key := range []string{pkgSwamp + ".swamp.WaitForGracefulClose", pkgHydra + ".hydra.SummonSwamp"} {
		f := c.Fn(key)
		info := f.Info()
		ast.Inspect(f.Decl.Body, func(x ast.Node) bool {
			fs, ok := x.(*ast.ForStmt)
			if !ok {
				return true
			}
			// loops that block: contain a select (without default they block; with default they spin on a predicate)
			var sel *ast.SelectStmt
			for _, st := range fs.Body.List {
				if s, ok := st.(*ast.SelectStmt); ok {
					sel = s
				}
			}
			if sel == nil {
				return true
			}
			rCtx.Check(selectHasCtxExit(info, sel), f.Key+":for-select", fs.Pos(),
				"select has a ctx.Done() case ending in return", "wait loop has no ctx.Done() exit")
			return true
		})
	}
	{
		f := c.Fn(pkgHydra + ".hydra.SummonSwamp")
		info := f.Info()
		n := 0
		core.Calls(f.Decl.Body, true, func(call *ast.CallExpr) {
			if !core.MethodNamed(info, call, pkgSwamp, []string{"Swamp", "swamp"}, "WaitForGracefulClose") {
				return
			}
			n++
			// the argument must be a context produced by context.WithTimeout/WithDeadline in this function
			ok := false
			if len(call.Args) == 1 {
				if obj := core.ObjOf(info, call.Args[0]); obj != nil {
					ast.Inspect(f.Decl.Body, func(x ast.Node) bool {
						as, isAs := x.(*ast.AssignStmt)
						if !isAs || len(as.Rhs) != 1 {
							return true
						}
						if rc, isCall := as.Rhs[0].(*ast.CallExpr); isCall &&
							core.IsCallTo(info, rc, "context.WithTimeout", "context.WithDeadline") {
							if len(as.Lhs) > 0 && core.ObjOf(info, as.Lhs[0]) == obj {
								ok = true
							}
						}
						return true
					})
				}
			}
			rCtx.Check(ok, f.Key+"->WaitForGracefulClose", call.Pos(), "bounded by context.WithTimeout", "wait for a closing swamp is not bounded by a timeout context")
		})
		if n == 0 {
			rCtx.Bad(f.Key+"->WaitForGracefulClose", f.Decl.Pos(), "SummonSwamp no longer waits for a closing swamp")
		}
	}

	// C17.balance
	balanceRules(c, "C17.balance")
}

// isSwampLifecycle accepts CHA edges through the swamp.Swamp interface (one implementer).
func isSwampLifecycle(s *core.Site) bool {
	if s.Callee == nil || s.Callee.Pkg() == nil {
		return false
	}
	return core.Short(s.Callee.Pkg().Path()) == pkgSwamp
}

// balanceRules: LockSystem / BeginVigil are immediately paired with a deferred release.
func balanceRules(c *core.Ctx, prefix string) {
	p := c.P
	rSys := c.Rule(prefix+".locksystem", "every Safeops.LockSystem() is followed, before any other call can panic or return, by defer UnlockSystem() in the same function body (shutdown waits for the counter to reach zero)", 30)
	rVig := c.Rule(prefix+".vigil", "every gateway-level BeginVigil() on a summoned swamp is followed immediately by defer CeaseVigil() on the same swamp in the same function body", 30)
	for _, f := range p.FuncsUnder("app/") {
		if f.Decl.Body == nil || strings.HasPrefix(core.Short(f.Pkg.PkgPath), pkgVigil) || core.Short(f.Pkg.PkgPath) == pkgSafeops {
			continue
		}
		info := f.Info()
		for _, body := range core.Bodies(f.Decl) {
			var fl *core.Flow
			core.Calls(body, false, func(call *ast.CallExpr) {
				var rule *core.Rule
				var release string
				switch {
				case core.MethodNamed(info, call, pkgSafeops, []string{"Safeops", "safeops"}, "LockSystem"):
					rule, release = rSys, "UnlockSystem"
				case isVigilCall(info, call, "BeginVigil") && core.Short(f.Pkg.PkgPath) == pkgGateway:
					rule, release = rVig, "CeaseVigil"
				default:
					return
				}
				if fl == nil {
					fl = core.NewFlow(p, info, body)
				}
				c.Touch(f)
				recv := core.ExprStr(core.RecvExpr(call))
				construct := f.Key + ":" + recv + "." + release
				loc, ok := fl.Locate(call)
				if !ok {
					return
				}
				isRelease := func(n ast.Node) bool {
					d, ok := n.(*ast.DeferStmt)
					if !ok {
						return false
					}
					found := false
					// defer x.Release() or defer func(){ ... x.Release() ... }()
					core.Calls(d, true, func(c2 *ast.CallExpr) {
						callee := core.Callee(info, c2)
						if callee != nil && callee.Name() == release && core.ExprStr(core.RecvExpr(c2)) == recv {
							found = true
						}
					})
					return found
				}
				// no exit (return or panic) between acquire and the deferred release; nothing but the defer in between
				leaks := fl.ExitWithout(loc, nil, true, isRelease)
				// and no call in between that could panic before the defer is registered
				risky := false
				fl.Walk(loc, nil, true, func(l core.Loc, n ast.Node) bool {
					if isRelease(n) {
						return false
					}
					core.Calls(n, false, func(*ast.CallExpr) { risky = true })
					return true
				})
				rule.Check(!leaks && !risky, construct, call.Pos(), "deferred "+release+" registered right after acquire",
					"acquire is not immediately followed by a deferred "+release+" (leaks on some exit or on a panic in between)")
			})
		}
	}
}

func isVigilCall(info *types.Info, call *ast.CallExpr, name string) bool {
	f := core.Callee(info, call)
	if f == nil || f.Name() != name || f.Pkg() == nil {
		return false
	}
	sp := core.Short(f.Pkg().Path())
	return sp == pkgVigil || sp == pkgSwamp
}
