package rules

import (
	"go/token"
	"go/ast"
	"go/types"
	"sort"
	"strings"

	"hv/core"
)

func init() { register("C24", c24) }

const pkgCompressor = "app/core/compressor"

// libsUsed lists the non-workspace, non-trivial packages whose functions/types a function uses.
func libsUsed(f *core.Func) []string {
	set := map[string]bool{}
	info := f.Info()
	ast.Inspect(f.Decl.Body, func(x ast.Node) bool {
		if id, ok := x.(*ast.Ident); ok {
			if obj := info.Uses[id]; obj != nil && obj.Pkg() != nil {
				p := obj.Pkg().Path()
				if strings.Contains(p, "gzip") || strings.Contains(p, "lz4") || strings.Contains(p, "snappy") || strings.Contains(p, "zstd") || strings.Contains(p, "flate") || strings.Contains(p, "zlib") {
					set[p] = true
				}
			}
		}
		return true
	})
	var out []string
	for k := range set {
		out = append(out, k)
	}
	sort.Strings(out)
	return out
}

// switchCases maps each constant of a named type to the workspace callee of `return recv.m(...)` in its case.
func switchCases(c *core.Ctx, f *core.Func, enum *types.Named) (map[string]*core.Func, bool) {
	info := f.Info()
	out := map[string]*core.Func{}
	found := false
	ast.Inspect(f.Decl.Body, func(x ast.Node) bool {
		sw, ok := x.(*ast.SwitchStmt)
		if !ok || sw.Tag == nil {
			return true
		}
		if tv, ok := info.Types[sw.Tag]; !ok || !types.Identical(tv.Type, enum) {
			return true
		}
		found = true
		for _, cl := range sw.Body.List {
			cc := cl.(*ast.CaseClause)
			var callee *core.Func
			for _, st := range cc.Body {
				core.Calls(st, false, func(call *ast.CallExpr) {
					if fo := core.Callee(info, call); fo != nil {
						if t := c.P.ByObj[fo]; t != nil && callee == nil {
							callee = t
						}
					}
				})
			}
			for _, e := range cc.List {
				if o := core.ObjOf(info, e); o != nil {
					if k, ok := o.(*types.Const); ok {
						out[k.Name()] = callee
					}
				}
			}
		}
		return false
	})
	return out, found
}

func enumConsts(pkg *types.Package, enum *types.Named) []*types.Const {
	var out []*types.Const
	for _, n := range pkg.Scope().Names() {
		if k, ok := pkg.Scope().Lookup(n).(*types.Const); ok && types.Identical(k.Type(), enum) {
			out = append(out, k)
		}
	}
	return out
}

func c24(c *core.Ctx) {
	p := c.P
	c.Explain = "Static necessary conditions for 'compression never hides corruption': no compress/decompress function returns a nil error (or a never-assigned error variable) on a path where a library error was observed; no error result of a library call is discarded; Compress and Decompress dispatch exhaustively over the Type constants and pair the same library per constant; an unknown type yields an error."
	c.NotCovered = []string{"round-trip equality for all inputs (library behaviour)", "silent mis-decoding inside the third-party decoders", "corruption that the format's own checksum does not catch"}
	pk := p.Pkg(pkgCompressor)
	typeT := p.Named(pkgCompressor, "Type")

	rSw := c.Rule("C24.swallow", "a function that observed a non-nil error never returns a nil error (or an error variable that was never assigned) on that branch", 8)
	rDrop := c.Rule("C24.dropped", "no error result of a call inside the compressor package is discarded", 8)
	for _, f := range p.FuncsIn(pkgCompressor) {
		if f.Decl.Body == nil {
			continue
		}
		c.Touch(f)
		info := f.Info()
		sig := f.Obj.Type().(*types.Signature)
		sw := core.SwallowedErrors(p, info, sig, f.Decl.Body)
		if core.ReturnsError(sig) {
			if len(sw) == 0 {
				rSw.Ok(f.Key, f.Decl.Pos(), "every error branch propagates a possibly non-nil error")
			}
			for _, s := range sw {
				rSw.Bad(f.Key+":"+s.Checked.Name(), s.Ret.Pos(), s.Why+": corrupt input is reported as success with empty output")
			}
		}
		dr := core.DroppedErrors(info, f.Decl.Body, true)
		if len(dr) == 0 {
			rDrop.Ok(f.Key, f.Decl.Pos(), "no discarded error results")
		}
		for _, d := range dr {
			rDrop.Bad(f.Key+"->"+core.QName(core.Callee(info, d.Call)), d.Call.Pos(), "error result discarded ("+d.How+")")
		}
	}

	rTab := c.Rule("C24.tables", "Compress and Decompress switch over every compressor.Type constant, each case dispatches to a function using the same compression library on both sides, and the fall-through returns a non-nil error", 6)
	comp := c.Fn(pkgCompressor + ".compressor.Compress")
	deco := c.Fn(pkgCompressor + ".compressor.Decompress")
	cm, ok1 := switchCases(c, comp, typeT)
	dm, ok2 := switchCases(c, deco, typeT)
	if !ok1 || !ok2 {
		rTab.Bad(pkgCompressor+":dispatch", comp.Decl.Pos(), "Compress/Decompress no longer switch over compressor.Type")
	}
	for _, k := range enumConsts(pk.Types, typeT) {
		cf, df := cm[k.Name()], dm[k.Name()]
		construct := pkgCompressor + ".Type." + k.Name()
		if cf == nil || df == nil {
			rTab.Bad(construct, k.Pos(), "constant has no case in Compress or Decompress")
			continue
		}
		c.Touch(cf, df)
		cl, dl := libsUsed(cf), libsUsed(df)
		rTab.Check(len(cl) > 0 && strings.Join(cl, ",") == strings.Join(dl, ","), construct, k.Pos(),
			"both sides use "+strings.Join(cl, ","), "compress side uses ["+strings.Join(cl, ",")+"] but decompress side uses ["+strings.Join(dl, ",")+"]")
	}
	for _, f := range []*core.Func{comp, deco} {
		// last statement: return nil, <non-nil error>
		n := len(f.Decl.Body.List)
		ok := false
		if n > 0 {
			if ret, isRet := f.Decl.Body.List[n-1].(*ast.ReturnStmt); isRet && len(ret.Results) == 2 && !core.IsNilIdent(f.Info(), ret.Results[1]) {
				if _, isCall := core.Unparen(ret.Results[1]).(*ast.CallExpr); isCall {
					ok = true
				}
			}
		}
		rTab.Check(ok, f.Key+":unknown-type", f.Decl.Pos(), "unknown type returns an error", "unknown compressor type does not return an error")
	}

	// C24.ownresult: the caller owns what Compress / Decompress returned.
	rOwn := c.Rule("C24.ownresult", "a byte slice returned by a compress or decompress function is not a window into a buffer the package keeps for reuse: when a result is taken with (*bytes.Buffer).Bytes(), the buffer is a local allocated in the same function, not one reached through a sync.Pool, a package variable or a field. A later call that reuses the buffer would otherwise overwrite a result the caller still holds, and Decompress would return other data without an error", 2)
	{
		n := 0
		for _, f := range p.FuncsIn(pkgCompressor) {
			if f.Decl.Body == nil {
				continue
			}
			sig := f.Obj.Type().(*types.Signature)
			if sig.Results().Len() == 0 {
				continue
			}
			if sl, ok := sig.Results().At(0).Type().Underlying().(*types.Slice); !ok || sl.Elem().String() != "byte" {
				continue
			}
			info := f.Info()
			// fresh local buffers
			fresh := map[types.Object]bool{}
			ast.Inspect(f.Decl.Body, func(x ast.Node) bool {
				switch v := x.(type) {
				case *ast.ValueSpec:
					if len(v.Values) == 0 {
						for _, nm := range v.Names {
							fresh[info.Defs[nm]] = true
						}
					}
				case *ast.AssignStmt:
					if v.Tok != token.DEFINE || len(v.Lhs) != len(v.Rhs) {
						return true
					}
					for i, r := range v.Rhs {
						r = core.Unparen(r)
						ok := false
						if u, isU := r.(*ast.UnaryExpr); isU && u.Op == token.AND {
							_, ok = core.Unparen(u.X).(*ast.CompositeLit)
						}
						if call, isCall := r.(*ast.CallExpr); isCall {
							if isBuiltinCall(info, call, "new") || core.IsCallTo(info, call, "bytes.NewBuffer", "bytes.NewBufferString") {
								ok = true
							}
						}
						if _, isLit := r.(*ast.CompositeLit); isLit {
							ok = true
						}
						if ok {
							if id, isId := v.Lhs[i].(*ast.Ident); isId {
								fresh[info.Defs[id]] = true
							}
						}
					}
				}
				return true
			})
			var check func(e ast.Expr, depth int) (string, bool)
			check = func(e ast.Expr, depth int) (string, bool) {
				e = core.Unparen(e)
				if sl, ok := e.(*ast.SliceExpr); ok {
					e = core.Unparen(sl.X)
				}
				if call, ok := e.(*ast.CallExpr); ok {
					if core.IsCallTo(info, call, "bytes.Buffer.Bytes") {
						root := core.RecvExpr(call)
						for {
							root = core.Unparen(root)
							if sel, isSel := root.(*ast.SelectorExpr); isSel {
								root = sel.X // a buffer inside a struct: what matters is where the struct comes from
								continue
							}
							break
						}
						if o := core.ObjOf(info, root); o != nil && fresh[o] {
							return "", true
						}
						return core.ExprStr(call), false
					}
					return "", true
				}
				if id, ok := e.(*ast.Ident); ok && depth < 2 {
					if def := localDef(info, f.Decl.Body, info.Uses[id]); def != nil {
						return check(def, depth+1)
					}
				}
				return "", true
			}
			bad := ""
			var badPos token.Pos
			k := 0
			ast.Inspect(f.Decl.Body, func(x ast.Node) bool {
				if _, isLit := x.(*ast.FuncLit); isLit {
					return false
				}
				ret, ok := x.(*ast.ReturnStmt)
				if !ok || len(ret.Results) == 0 {
					return true
				}
				k++
				if how, good := check(ret.Results[0], 0); !good && bad == "" {
					bad, badPos = how, ret.Pos()
				}
				return true
			})
			if k == 0 {
				continue
			}
			n++
			c.Touch(f)
			if bad != "" {
				rOwn.Bad(f.Key+":result-owned-by-caller", badPos, "the result is "+bad+", a view of a buffer that was not allocated by this call (pooled, package-level or held in a field): the next call that reuses the buffer overwrites bytes the caller still holds")
			} else {
				rOwn.Ok(f.Key+":result-owned-by-caller", f.Decl.Pos(), "results are fresh slices or views of buffers allocated in the call")
			}
		}
		if n == 0 {
			rOwn.Bad(pkgCompressor+":byte-results", token.NoPos, "no function of the compressor returns bytes (rule needs review)")
		}
	}

	rI := c.Rule("C24.integrity", "no compressor or decompressor is configured to drop the integrity check of its frame format: no library struct field or option whose name mentions a checksum / CRC is set to the value that disables it (NoChecksum: true, IgnoreChecksum(true), WithEncoderCRC(false), ...)", 1)
	{
		isLib := func(o types.Object) bool {
			if o == nil || o.Pkg() == nil {
				return false
			}
			pp := o.Pkg().Path()
			return strings.Contains(pp, "lz4") || strings.Contains(pp, "zstd") || strings.Contains(pp, "snappy") || strings.Contains(pp, "gzip") || strings.Contains(pp, "flate") || strings.Contains(pp, "zlib") || strings.Contains(pp, "compress")
		}
		mentions := func(name string) bool {
			l := strings.ToLower(name)
			return strings.Contains(l, "checksum") || strings.Contains(l, "crc") || strings.Contains(l, "hash") || strings.Contains(l, "verify")
		}
		negative := func(name string) bool {
			for _, pfx := range []string{"No", "Ignore", "Skip", "Disable", "Without"} {
				if strings.HasPrefix(name, pfx) {
					return true
				}
			}
			return false
		}
		n := 0
		for _, f := range p.FuncsIn(pkgCompressor) {
			if f.Decl.Body == nil {
				continue
			}
			info := f.Info()
			disabling := func(name string, val ast.Expr) (bool, bool) {
				v, isB := core.BoolLit(info, val)
				if !isB {
					return false, false // not a constant: cannot decide
				}
				return v == negative(name), true
			}
			ast.Inspect(f.Decl.Body, func(x ast.Node) bool {
				switch v := x.(type) {
				case *ast.KeyValueExpr:
					if id, ok := v.Key.(*ast.Ident); ok {
						if fld, isF := info.Uses[id].(*types.Var); isF && fld.IsField() && isLib(fld) && mentions(fld.Name()) {
							n++
							bad, decided := disabling(fld.Name(), v.Value)
							if !decided {
								rI.Undecided(f.Key+":"+fld.Name(), v.Pos(), "integrity option set from a non-constant value")
							} else {
								rI.Check(!bad, f.Key+":"+fld.Name(), v.Pos(), "integrity check kept", "the "+fld.Pkg().Name()+" frame is written or read without its checksum ("+fld.Name()+" disables it): a damaged payload decompresses with a nil error to different data")
							}
						}
					}
				case *ast.AssignStmt:
					for i, lhs := range v.Lhs {
						if sel, ok := lhs.(*ast.SelectorExpr); ok && i < len(v.Rhs) {
							if fld := core.FieldOf(info, sel); fld != nil && isLib(fld) && mentions(fld.Name()) {
								n++
								bad, decided := disabling(fld.Name(), v.Rhs[i])
								if !decided {
									rI.Undecided(f.Key+":"+fld.Name(), v.Pos(), "integrity option set from a non-constant value")
								} else {
									rI.Check(!bad, f.Key+":"+fld.Name(), v.Pos(), "integrity check kept", "the "+fld.Pkg().Name()+" frame is written or read without its checksum ("+fld.Name()+" disables it)")
								}
							}
						}
					}
				case *ast.CallExpr:
					if fo := core.Callee(info, v); fo != nil && isLib(fo) && mentions(fo.Name()) && len(v.Args) == 1 {
						n++
						bad, decided := disabling(fo.Name(), v.Args[0])
						if !decided {
							rI.Undecided(f.Key+":"+fo.Name(), v.Pos(), "integrity option set from a non-constant value")
						} else {
							rI.Check(!bad, f.Key+":"+fo.Name(), v.Pos(), "integrity check kept", "the "+fo.Pkg().Name()+" option "+fo.Name()+" disables the frame checksum: a damaged payload decompresses with a nil error to different data")
						}
					}
				}
				return true
			})
		}
		// positive evidence even when no option is touched at all
		rI.Ok(pkgCompressor+":integrity-options-scanned", token.NoPos, "all library struct fields, assignments and option calls of the package scanned")
		_ = n

	}
}
