package hydrex

// DEMONSTRATION for property C27 (place in sdk/go/hydraidego/hydrex/ and run
// `go test -run TestDemoC27 -count=1 ./hydrex/` from sdk/go/hydraidego).
//
// Hydrex is driven against an in-memory stand-in for the SDK client (only the seven methods
// hydrex uses are implemented; the swamp semantics are the obvious ones: save = upsert by key,
// delete = remove key, destroy = drop swamp) and compared with the reference model of the
// property: after any sequence of Save/Destroy, a domain reads back exactly its last saved items
// and a key lookup returns exactly the domains whose current core data contains the key.

import (
	"context"
	"sort"
	"testing"

	"github.com/hydraide/hydraide/sdk/go/hydraidego/v3"
	"github.com/hydraide/hydraide/sdk/go/hydraidego/v3/name"
)

type demoFakeSDK struct {
	hydraidego.Hydraidego                                // nil: any method hydrex does not use panics
	swamps                map[string]map[string]any // swamp -> key -> *CoreData | *IndexedData
}

func (f *demoFakeSDK) RegisterSwamp(ctx context.Context, r *hydraidego.RegisterSwampRequest) []error {
	return nil
}

func (f *demoFakeSDK) CatalogReadMany(ctx context.Context, n name.Name, index *hydraidego.Index, model any, it hydraidego.CatalogReadManyIteratorFunc) error {
	keys := make([]string, 0)
	for k := range f.swamps[n.Get()] {
		keys = append(keys, k)
	}
	sort.Strings(keys)
	for _, k := range keys {
		switch v := f.swamps[n.Get()][k].(type) {
		case *CoreData:
			c := *v
			if err := it(&c); err != nil {
				return err
			}
		case *IndexedData:
			c := *v
			if err := it(&c); err != nil {
				return err
			}
		}
	}
	return nil
}

func (f *demoFakeSDK) put(n name.Name, m any) {
	if f.swamps[n.Get()] == nil {
		f.swamps[n.Get()] = map[string]any{}
	}
	switch v := m.(type) {
	case *CoreData:
		c := *v
		f.swamps[n.Get()][v.Key] = &c
	case *IndexedData:
		c := *v
		f.swamps[n.Get()][v.Domain] = &c
	}
}

func (f *demoFakeSDK) CatalogSaveMany(ctx context.Context, n name.Name, models []any, it hydraidego.CatalogSaveManyIteratorFunc) error {
	for _, m := range models {
		f.put(n, m)
	}
	return nil
}

func (f *demoFakeSDK) CatalogSaveManyToMany(ctx context.Context, reqs []*hydraidego.CatalogManyToManyRequest, it hydraidego.CatalogSaveManyToManyIteratorFunc) error {
	for _, r := range reqs {
		for _, m := range r.Models {
			f.put(r.SwampName, m)
		}
	}
	return nil
}

func (f *demoFakeSDK) CatalogDeleteMany(ctx context.Context, n name.Name, keys []string, it hydraidego.CatalogDeleteIteratorFunc) error {
	for _, k := range keys {
		delete(f.swamps[n.Get()], k)
	}
	return nil
}

func (f *demoFakeSDK) CatalogDeleteManyFromMany(ctx context.Context, reqs []*hydraidego.CatalogDeleteManyFromManyRequest, it hydraidego.CatalogDeleteIteratorFunc) error {
	for _, r := range reqs {
		for _, k := range r.Keys {
			delete(f.swamps[r.SwampName.Get()], k)
		}
	}
	return nil
}

func (f *demoFakeSDK) Destroy(ctx context.Context, n name.Name) error {
	delete(f.swamps, n.Get())
	return nil
}

func demoC27Check(t *testing.T, h Hydrex, step string, ref map[string]map[string]string, keys []string) {
	t.Helper()
	ctx := context.Background()
	for domain, want := range ref {
		got := map[string]string{}
		for _, cd := range h.GetCoreData(ctx, "idx", domain) {
			got[cd.Key] = cd.Value
		}
		if len(got) != len(want) {
			t.Fatalf("%s: domain %s reads back %v, last saved items are %v", step, domain, got, want)
		}
		for k, v := range want {
			if got[k] != v {
				t.Fatalf("%s: domain %s reads back %v, last saved items are %v", step, domain, got, want)
			}
		}
	}
	for _, k := range keys {
		var want []string
		for domain, items := range ref {
			if _, ok := items[k]; ok {
				want = append(want, domain)
			}
		}
		var got []string
		for _, d := range h.GetIndexData(ctx, "idx", k) {
			got = append(got, d.Domain)
		}
		sort.Strings(want)
		sort.Strings(got)
		if len(got) != len(want) {
			t.Fatalf("%s: key %s is indexed for %v, but the domains holding it are %v", step, k, got, want)
		}
		for i := range want {
			if got[i] != want[i] {
				t.Fatalf("%s: key %s is indexed for %v, but the domains holding it are %v", step, k, got, want)
			}
		}
	}
}

func TestDemoC27_SaveDestroySequenceAgainstReference(t *testing.T) {
	ctx := context.Background()
	h := New(&demoFakeSDK{swamps: map[string]map[string]any{}})
	ref := map[string]map[string]string{}
	keys := []string{"k1", "k2", "k3"}
	save := func(step, domain string, items map[string]string) {
		m := map[string]*CoreData{}
		for k, v := range items {
			m[k] = &CoreData{Key: k, Value: v}
		}
		h.Save(ctx, "idx", domain, m)
		ref[domain] = items
		demoC27Check(t, h, step, ref, keys)
	}
	save("1 save d1 {k1,k2}", "d1", map[string]string{"k1": "a", "k2": "b"})
	save("2 save d2 {k2,k3}", "d2", map[string]string{"k2": "x", "k3": "y"})
	save("3 save d1 {k2,k3} (k1 removed, k3 added)", "d1", map[string]string{"k2": "b", "k3": "c"})
	h.Destroy(ctx, "idx", "d2")
	ref["d2"] = map[string]string{}
	demoC27Check(t, h, "4 destroy d2", ref, keys)
	// the step that needs something specific: an existing key saved again with a new value
	save("5 save d1 {k2 with a new value}", "d1", map[string]string{"k2": "b-changed", "k3": "c"})
}
