package c09demo

// DEMONSTRATION for property C09 (place at app/core/hydra/swamp/c09demo/ and run
// `go test -vet=off -count=1 -run TestDemoC09_FirstSaveWindow ./app/core/hydra/swamp/c09demo/`).
//
// Two clients increment the same, not yet existing key. Each does what the gateway does:
// CreateTreasure(key) -> StartTreasureGuard -> counter+1 -> Save -> ReleaseTreasureGuard.
// Both writes are acknowledged, so the counter must end at 2.
//
// Defect (before the fix): CreateTreasure looks the key up in beaconKey (miss), then in the
// in-flight tracker creatingTreasures. The first writer's SaveFunction publishes the record with
// beaconKey.Add(t) and then removes it from the tracker, without createMu. A second CreateTreasure
// whose beaconKey lookup ran just before the Add and whose tracker lookup ran just after the
// Delete misses both, builds a second record object for the key, and the second increment starts
// from zero: one acknowledged update is lost.
//
// The window cannot be forced through any interface of the swamp (beacon, sync.Map and mutex are
// private concrete fields), so the scenario is repeated with fresh keys for a bounded time and the
// test stops at the first lost update. On the pinned tree it typically fails within a few seconds.

import (
	"fmt"
	"runtime"
	"sync"
	"testing"
	"time"

	"github.com/hydraide/hydraide/app/core/hydra/swamp"
	"github.com/hydraide/hydraide/app/core/hydra/swamp/metadata"
	"github.com/hydraide/hydraide/app/name"
)

func TestDemoC09_FirstSaveWindow(t *testing.T) {
	const workers = 4
	swampName := name.New().Sanctuary("c09demo").Realm("first-save").Swamp("window")
	s := swamp.New(swampName, time.Hour, nil,
		func(e *swamp.Event) {}, func(i *swamp.Info) {}, func(n name.Name) {},
		metadata.NewNoop())
	s.BeginVigil()
	defer s.CeaseVigil()

	deadline := time.Now().Add(20 * time.Second)
	for round := 0; time.Now().Before(deadline); round++ {
		key := fmt.Sprintf("counter-%d", round)
		start := make(chan struct{})
		var done sync.WaitGroup
		done.Add(workers)
		for w := 0; w < workers; w++ {
			go func(w int) {
				defer done.Done()
				<-start
				// stagger the writers a little so that some CreateTreasure calls overlap the
				// first writer's Save
				for i := 0; i < w*(round%7); i++ {
					runtime.Gosched()
				}
				tr := s.CreateTreasure(key)
				guardID := tr.StartTreasureGuard(true)
				current, err := tr.GetContentInt64()
				if err != nil {
					current = 0
				}
				tr.SetContentInt64(guardID, current+1)
				tr.Save(guardID)
				tr.ReleaseTreasureGuard(guardID)
			}(w)
		}
		close(start)
		done.Wait()

		stored, err := s.GetTreasure(key)
		if err != nil {
			t.Fatalf("round %d: key %s missing after %d acknowledged writes: %v", round, key, workers, err)
		}
		final, err := stored.GetContentInt64()
		if err != nil {
			t.Fatalf("round %d: %v", round, err)
		}
		if final != workers {
			t.Fatalf("LOST UPDATE in round %d: %d clients each added 1 to fresh key %s under the record guard and were acknowledged, but the stored counter is %d",
				round, workers, key, final)
		}
	}
}
