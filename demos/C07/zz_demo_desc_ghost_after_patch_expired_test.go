package c11demo

import (
	"sync/atomic"
	"testing"
	"time"

	"github.com/hydraide/hydraide/app/core/hydra/swamp"
	"github.com/hydraide/hydraide/app/core/hydra/swamp/metadata"
	"github.com/hydraide/hydraide/app/core/hydra/swamp/treasure"
	"github.com/hydraide/hydraide/app/core/hydra/swamp/treasure/msgpackpatch"
	"github.com/hydraide/hydraide/app/name"
	"github.com/vmihailenco/msgpack/v5"
)

// wrapped msgpack body: 0xC7 0x00 magic prefix + msgpack map
func body(t *testing.T, v any) []byte {
	t.Helper()
	b, err := msgpack.Marshal(v)
	if err != nil {
		t.Fatal(err)
	}
	return append([]byte{0xC7, 0x00}, b...)
}

func enc(t *testing.T, v any) []byte {
	t.Helper()
	b, err := msgpack.Marshal(v)
	if err != nil {
		t.Fatal(err)
	}
	return b
}

type rig struct {
	s  swamp.Swamp
	cb atomic.Value // func(*swamp.Event)
}

// newRig builds an in-memory swamp (no chronicler) whose event callback can be
// swapped by the test. The callback is the deterministic stand-in for "another
// client's Delete RPC lands while a PatchExpired batch is half way through".
func newRig(t *testing.T, swampName string) *rig {
	t.Helper()
	r := &rig{}
	r.cb.Store(func(*swamp.Event) {})
	n := name.New().Sanctuary("c11demo").Realm("claims").Swamp(swampName)
	r.s = swamp.New(n, time.Hour, nil,
		func(e *swamp.Event) { r.cb.Load().(func(*swamp.Event))(e) },
		func(*swamp.Info) {}, func(name.Name) {},
		metadata.NewNoop())
	r.s.BeginVigil()
	t.Cleanup(func() {
		r.s.CeaseVigil()
		r.s.Destroy()
	})
	return r
}

func (r *rig) seed(t *testing.T, key string, exp time.Time) {
	t.Helper()
	tr := r.s.CreateTreasure(key)
	gid := tr.StartTreasureGuard(true)
	tr.SetContentByteArray(gid, body(t, map[string]any{"claimedBy": "", "n": int8(0)}))
	tr.SetExpirationTime(gid, exp)
	if st := tr.Save(gid); st != treasure.StatusNew {
		t.Fatalf("seed %s: status %v", key, st)
	}
	tr.ReleaseTreasureGuard(gid)
}

func keysOf(ts []treasure.Treasure) []string {
	out := make([]string, 0, len(ts))
	for _, x := range ts {
		out = append(out, x.GetKey())
	}
	return out
}

// claimWithInterleavedDelete runs one PatchExpired batch over {r-old, r-mid}.
// While the batch is busy with r-mid (r-old has already been patched and its
// guard released, the batch has not re-indexed yet), r-old is deleted.
var warmDesc bool

func claimWithInterleavedDelete(t *testing.T, r *rig) {
	t.Helper()
	now := time.Now().UTC()
	r.seed(t, "r-old", now.Add(-2*time.Hour))
	r.seed(t, "r-mid", now.Add(-1*time.Hour))
	r.seed(t, "keeper", now.Add(24*time.Hour)) // keeps the swamp from auto-destroying

	// warm the expiration index the way any earlier claim would
	if got, _ := r.s.CloneAndDeleteExpiredTreasures(0); len(got) != 0 {
		t.Fatalf("warm-up shifted %v", keysOf(got))
	}

	if warmDesc {
		if _, err := r.s.GetTreasuresByBeacon(swamp.BeaconTypeExpirationTime, swamp.IndexOrderDesc, 0, 10, nil, nil); err != nil {
			t.Fatal(err)
		}
	}

	var fired int32
	r.cb.Store(func(e *swamp.Event) {
		if e.StatusType != treasure.StatusModified || e.Treasure == nil || e.Treasure.GetKey() != "r-mid" {
			return
		}
		if !atomic.CompareAndSwapInt32(&fired, 0, 1) {
			return
		}
		if err := r.s.DeleteTreasure("r-old", false); err != nil {
			t.Errorf("delete r-old: %v", err)
		}
	})
	r.s.StartSendingEvents()

	entries, _, err := r.s.PatchExpired(10,
		[]msgpackpatch.Op{{Kind: msgpackpatch.OpSet, Path: "claimedBy", Value: enc(t, "w1")}},
		nil, nil, nil, nil, 0)
	if err != nil {
		t.Fatal(err)
	}
	r.s.StopSendingEvents()
	r.cb.Store(func(*swamp.Event) {})

	if len(entries) != 2 || entries[0].Key != "r-old" || entries[1].Key != "r-mid" {
		t.Fatalf("unexpected claim result: %+v", entries)
	}
	if atomic.LoadInt32(&fired) != 1 {
		t.Fatalf("the interleaved delete did not run")
	}
	if r.s.TreasureExists("r-old") {
		t.Fatalf("r-old must be gone after the delete")
	}
}

// A record deleted by someone else must never be handed out by a later claim.
func TestC11_DeletedRecordIsNotShiftedAfterPatchExpired(t *testing.T) {
	r := newRig(t, "shift-after-delete")
	claimWithInterleavedDelete(t, r)

	got, err := r.s.CloneAndDeleteExpiredTreasures(10)
	if err != nil {
		t.Fatal(err)
	}
	for _, k := range keysOf(got) {
		if k == "r-old" {
			t.Fatalf("C11 violated: ShiftExpired returned the deleted record r-old (got %v)", keysOf(got))
		}
	}
	if len(got) != 1 || got[0].GetKey() != "r-mid" {
		t.Fatalf("expected exactly [r-mid], got %v", keysOf(got))
	}
}

// A record deleted by someone else must never be brought back to life by a claim.
func TestC11_DeletedRecordIsNotRevivedByNextPatchExpired(t *testing.T) {
	r := newRig(t, "patch-after-delete")
	claimWithInterleavedDelete(t, r)

	entries, _, err := r.s.PatchExpired(10,
		[]msgpackpatch.Op{{Kind: msgpackpatch.OpSet, Path: "claimedBy", Value: enc(t, "w2")}},
		nil, &swamp.PatchFieldsMeta{SetExpiredAt: time.Now().UTC().Add(time.Hour)}, nil, nil, 0)
	if err != nil {
		t.Fatal(err)
	}
	for _, e := range entries {
		if e.Key == "r-old" {
			t.Errorf("C11 violated: second PatchExpired claimed the deleted record r-old (status %v)", e.Status)
		}
	}
	if r.s.TreasureExists("r-old") {
		t.Fatalf("C11 violated: deleted record r-old is alive again after a PatchExpired claim")
	}
}

// An expiry-ordered DESC read after the batch must not list the deleted record.
func TestC07_DeletedRecordNotInDescExpiryIndex(t *testing.T) {
	warmDesc = true
	defer func() { warmDesc = false }()
	r := newRig(t, "desc-ghost")
	claimWithInterleavedDelete(t, r)
	got, err := r.s.GetTreasuresByBeacon(swamp.BeaconTypeExpirationTime, swamp.IndexOrderDesc, 0, 10, nil, nil)
	if err != nil {
		t.Fatal(err)
	}
	for _, k := range keysOf(got) {
		if k == "r-old" {
			t.Fatalf("expiry DESC read lists the deleted record r-old: %v", keysOf(got))
		}
	}
	asc, _ := r.s.GetTreasuresByBeacon(swamp.BeaconTypeExpirationTime, swamp.IndexOrderAsc, 0, 10, nil, nil)
	t.Logf("asc=%v desc=%v", keysOf(asc), keysOf(got))
}
