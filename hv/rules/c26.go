package rules

import (
	"go/ast"
	"go/types"
	"strings"

	"hv/core"
)

func init() { register("C26", c26) }

// hasRootRecover: the body defers, at its top level, a call that recovers (handlePanic, a literal
// calling recover(), or any workspace function whose body calls recover()).
func hasRootRecover(p *core.Prog, info *types.Info, body *ast.BlockStmt) bool {
	isRecoverer := func(call *ast.CallExpr) bool {
		if lit, ok := core.Unparen(call.Fun).(*ast.FuncLit); ok {
			return containsRecover(info, lit.Body)
		}
		if t := p.ByObj[core.Callee(info, call)]; t != nil && t.Decl.Body != nil {
			return containsRecover(t.Info(), t.Decl.Body)
		}
		return false
	}
	for _, st := range body.List {
		if d, ok := st.(*ast.DeferStmt); ok && isRecoverer(d.Call) {
			return true
		}
	}
	return false
}

func containsRecover(info *types.Info, n ast.Node) bool {
	found := false
	ast.Inspect(n, func(x ast.Node) bool {
		if call, ok := x.(*ast.CallExpr); ok {
			if id, ok := core.Unparen(call.Fun).(*ast.Ident); ok && id.Name == "recover" {
				if _, isB := info.Uses[id].(*types.Builtin); isB {
					found = true
				}
			}
		}
		return !found
	})
	return found
}

func c26(c *core.Ctx) {
	p := c.P
	c.Explain = "Static necessary conditions for 'malformed requests fail cleanly': every RPC method of the gateway defers a recover at its root (grpc-go does not recover handler panics; the interceptors of this server do not either), except handlers that provably touch no swamp state and contain no index/slice/type-assertion panic site; every goroutine started inside the gateway recovers at its root or per processed item (a handler's recover does not cover goroutines it starts); LockSystem and BeginVigil are released by defers registered immediately (also on panic); entries the storage format cannot encode are rejected by the writer (C01.narrow)."
	c.NotCovered = []string{"all protobuf messages (no fuzzing in this family)", "semantic validation of field values", "partial effects of a request that panics half-way (released by defers, not rolled back)"}

	rR := c.Rule("C26.recover", "each method of Gateway that implements hydrapb.HydraideServiceServer defers a recovering call at the top level of its body", 45)
	iface := p.Named(pkgPB, "HydraideServiceServer")
	it := iface.Underlying().(*types.Interface)
	exempt := map[string]string{}
	n := 0
	for i := 0; i < it.NumMethods(); i++ {
		m := it.Method(i)
		if !m.Exported() {
			continue
		}
		f := p.FnOpt(pkgGateway + ".Gateway." + m.Name())
		if f == nil || f.Decl.Body == nil {
			rR.Bad("Gateway."+m.Name(), it.Method(i).Pos(), "RPC method not implemented by Gateway")
			continue
		}
		n++
		c.Touch(f)
		info := f.Info()
		if hasRootRecover(p, info, f.Decl.Body) {
			rR.Ok(f.Key, f.Decl.Pos(), "defers a recover")
			continue
		}
		// no recover: acceptable only when the handler cannot panic on request data: no call into hydra/swamp,
		// no unchecked type assertion, all index/slice expressions discharged
		reason := ""
		core.Calls(f.Decl.Body, true, func(call *ast.CallExpr) {
			if fo := core.Callee(info, call); fo != nil {
				sp := core.Short(pkgPathOf(fo))
				if strings.HasPrefix(sp, "app/core/") || sp == pkgName {
					reason = "calls " + core.Short(core.QName(fo))
				}
			}
		})
		ast.Inspect(f.Decl.Body, func(x ast.Node) bool {
			if ta, ok := x.(*ast.TypeAssertExpr); ok && ta.Type != nil {
				// v.(T) without comma-ok
				commaOk := false
				for _, pn := range core.PathTo(f.Decl.Body, ta) {
					if as, ok := pn.(*ast.AssignStmt); ok && len(as.Lhs) == 2 && len(as.Rhs) == 1 && core.Unparen(as.Rhs[0]) == ast.Expr(ta) {
						commaOk = true
					}
				}
				if !commaOk {
					reason = "unchecked type assertion"
				}
			}
			return true
		})
		if reason == "" {
			for _, o := range core.CheckBounds(p, f, nil) {
				if !o.OK {
					reason = "possible out-of-range " + o.Kind
				}
			}
		}
		rR.Check(reason == "", f.Key, f.Decl.Pos(), "no recover, but no panic site on request data and no engine call", "RPC handler without recover: "+reason+" (a panic terminates the server process)")
		exempt[m.Name()] = reason
	}
	if n < 45 {
		rR.Bad("Gateway:rpc-methods", iface.Obj().Pos(), "fewer RPC methods found than the service defines")
	}

	rG := c.Rule("C26.goroutine", "every goroutine started in the gateway (go statement or function literal passed to a Go helper) recovers at its root, or wraps each processed item in a function literal that recovers; a worker that consumes a channel in a loop must recover per item (a root recover ends the worker and strands the queue)", 2)
	for _, f := range p.FuncsIn(pkgGateway) {
		if f.Decl.Body == nil {
			continue
		}
		info := f.Info()
		idx := 0
		ast.Inspect(f.Decl.Body, func(x ast.Node) bool {
			gs, ok := x.(*ast.GoStmt)
			if !ok {
				return true
			}
			idx++
			c.Touch(f)
			construct := f.Key + ":go#" + itoaN(idx)
			lit, isLit := core.Unparen(gs.Call.Fun).(*ast.FuncLit)
			if !isLit {
				if t := p.ByObj[core.Callee(info, gs.Call)]; t != nil && t.Decl.Body != nil {
					rG.Check(hasRootRecover(p, t.Info(), t.Decl.Body), construct, gs.Pos(), "started function recovers", "goroutine runs "+t.Key+" without a recover: a panic terminates the server")
				}
				return true
			}
			ok2 := hasRootRecover(p, info, lit.Body)
			// a worker - a goroutine that consumes a channel in a loop - must survive a bad item: a recover at
			// its root ends the worker, the rest of the queue is never consumed (the response under-reports,
			// and a producer with a full queue blocks forever with the system lock held)
			isWorker := false
			ast.Inspect(lit.Body, func(y ast.Node) bool {
				if inner, isInner := y.(*ast.FuncLit); isInner && inner != lit {
					return false
				}
				if rs, isRange := y.(*ast.RangeStmt); isRange {
					if _, isChan := info.TypeOf(rs.X).Underlying().(*types.Chan); isChan {
						isWorker = true
					}
				}
				return true
			})
			if isWorker {
				ok2 = false
			}
			if !ok2 {
				// per-item recover: every statement list of a loop body consists of immediately invoked literals that recover,
				// and nothing outside such literals calls into the engine
				risky := false
				var scan func(n ast.Node)
				scan = func(n ast.Node) {
					ast.Inspect(n, func(y ast.Node) bool {
						switch v := y.(type) {
						case *ast.FuncLit:
							if hasRootRecover(p, info, v.Body) {
								return false // protected region
							}
							return true
						case *ast.CallExpr:
							if fo := core.Callee(info, v); fo != nil {
								sp := core.Short(pkgPathOf(fo))
								if strings.HasPrefix(sp, "app/core/") || sp == pkgName {
									risky = true
								}
							}
						case *ast.IndexExpr, *ast.SliceExpr, *ast.TypeAssertExpr:
							if ta, isTA := v.(*ast.TypeAssertExpr); isTA && (ta.Type == nil || atomicValueAssertSafe(info, f.Decl.Body, ta)) {
								return true
							}
							if _, isIdx := v.(*ast.IndexExpr); isIdx {
								// generic instantiations are not index operations
								if tv, ok := info.Types[v.(*ast.IndexExpr).X]; ok {
									if _, isSig := tv.Type.Underlying().(*types.Signature); isSig {
										return true
									}
								}
							}
							risky = true
						}
						return true
					})
				}
				scan(lit.Body)
				ok2 = !risky
			}
			rG.Check(ok2, construct, gs.Pos(), "recovers (at root or per item) or has no panic site", "goroutine started by an RPC handler calls into the engine / indexes request data without any recover: a malformed request crashes the whole server process")
			return true
		})
	}

	balanceRules(c, "C26.balance")

	rO := c.Rule("C26.oversize", "entries the storage format cannot encode are rejected before they are buffered (shared with C01.narrow)", 1)
	validators := entryValidators(c)
	addFn := c.Fn(pkgV2 + ".WriteBuffer.Add")
	for _, f := range p.FuncsIn(pkgV2) {
		if f.Decl.Body == nil {
			continue
		}
		info := f.Info()
		core.Calls(f.Decl.Body, false, func(call *ast.CallExpr) {
			if !core.IsWsCallTo(info, call, addFn.Key) {
				return
			}
			c.Touch(f)
			// a validator call on the same entry precedes the Add in the same function
			ok := false
			ent := core.ObjOf(info, call.Args[0])
			fl := core.NewFlow(p, info, f.Decl.Body)
			core.Calls(f.Decl.Body, false, func(c2 *ast.CallExpr) {
				if fo := core.Callee(info, c2); fo != nil && validators[fo] && core.ObjOf(info, core.RecvExpr(c2)) == ent {
					if good, _ := fl.OnlyAfterSuccess(f.Decl.Body, c2, call); good {
						ok = true
					}
				}
			})
			rO.Check(ok, f.Key+":validate-before-Add", call.Pos(), "validated", "oversized keys reach the write buffer")
		})
	}
}


// atomicValueAssertSafe: x.Load().(T) on a sync/atomic.Value whose every Store in the function stores a T.
func atomicValueAssertSafe(info *types.Info, body ast.Node, ta *ast.TypeAssertExpr) bool {
	call, ok := core.Unparen(ta.X).(*ast.CallExpr)
	if !ok || !core.IsCallTo(info, call, "sync/atomic.Value.Load") {
		return false
	}
	obj := core.ObjOf(info, core.RecvExpr(call))
	want := info.TypeOf(ta.Type)
	if obj == nil || want == nil {
		return false
	}
	n, good := 0, true
	core.Calls(body, true, func(c2 *ast.CallExpr) {
		if core.IsCallTo(info, c2, "sync/atomic.Value.Store") && core.ObjOf(info, core.RecvExpr(c2)) == obj && len(c2.Args) == 1 {
			n++
			if !types.Identical(info.TypeOf(c2.Args[0]), want) {
				good = false
			}
		}
	})
	return n > 0 && good
}
