package rules

import (
	"go/ast"
	"go/constant"
	"go/token"
	"go/types"
	"sort"
	"strings"

	"hv/core"
)

func init() { register("C08", c08) }

const pkgCanon = "app/core/hydra/swamp/bucket/valuecanon"

// trueReturns lists the return statements whose last result is the constant true.
func trueReturns(info *types.Info, body *ast.BlockStmt) []*ast.ReturnStmt {
	var out []*ast.ReturnStmt
	ast.Inspect(body, func(x ast.Node) bool {
		if _, isLit := x.(*ast.FuncLit); isLit {
			return false
		}
		if r, ok := x.(*ast.ReturnStmt); ok && len(r.Results) > 0 {
			if v, isB := core.BoolLit(info, r.Results[len(r.Results)-1]); isB && v {
				out = append(out, r)
			}
		}
		return true
	})
	return out
}

// stringLitsComparedWith collects the string constants an identifier-typed string is tested
// against in a function: x == "lit", strings.HasSuffix(x, "lit"), strings.HasPrefix, strings.Contains.
func specialTokens(f *core.Func) []string {
	info := f.Info()
	set := map[string]bool{}
	lit := func(e ast.Expr) (string, bool) {
		tv, ok := info.Types[e]
		if !ok || tv.Value == nil || tv.Value.Kind() != constant.String {
			return "", false
		}
		return constant.StringVal(tv.Value), true
	}
	ast.Inspect(f.Decl.Body, func(x ast.Node) bool {
		switch v := x.(type) {
		case *ast.BinaryExpr:
			if v.Op == token.EQL || v.Op == token.NEQ {
				if s, ok := lit(v.Y); ok && s != "" {
					set[s] = true
				}
				if s, ok := lit(v.X); ok && s != "" {
					set[s] = true
				}
			}
		case *ast.CallExpr:
			if core.IsCallTo(info, v, "strings.HasSuffix", "strings.HasPrefix", "strings.Contains") && len(v.Args) == 2 {
				if s, ok := lit(v.Args[1]); ok {
					set[s] = true
				}
			}
		}
		return true
	})
	var out []string
	for s := range set {
		out = append(out, s)
	}
	sort.Strings(out)
	return out
}

// wrapperCases lists the protobuf oneof wrapper types of the cases of a type switch in f.
func wrapperCases(f *core.Func) []string {
	info := f.Info()
	set := map[string]bool{}
	ast.Inspect(f.Decl.Body, func(x ast.Node) bool {
		ts, ok := x.(*ast.TypeSwitchStmt)
		if !ok {
			return true
		}
		for _, cl := range ts.Body.List {
			for _, e := range cl.(*ast.CaseClause).List {
				if t := info.TypeOf(e); t != nil {
					if n := namedOf(t); n != nil && strings.HasPrefix(n.Obj().Name(), "TreasureFilter_") {
						set[n.Obj().Name()] = true
					}
				}
			}
		}
		return true
	})
	var out []string
	for s := range set {
		out = append(out, s)
	}
	sort.Strings(out)
	return out
}

func c08(c *core.Ctx) {
	p := c.P
	c.Explain = "Static necessary conditions for 'accelerated and full-scan query routes agree': EQUAL and integer IN on body fields are decided through valuecanon.Equal over canonicalised operands on the scan route, and the index route collects every slot whose key is valuecanon.Equal to the wanted key (the cross-kind walk is on every path); a leg is offered to the index only if its path has none of the special tokens the scan-route extractor recognises and it carries no label; the index route is taken only for unpaged requests (From == 0 and Limit == 0 as passed from the same request) and for index types the candidate sort handles; candidates that are not members of the requested time index are dropped and the time window is half-open [from,to) with the getter of the index type; the literal-to-value table of the planner covers the same oneof wrappers as the scan route's type switch."
	c.NotCovered = []string{"equality of the streamed result on concrete swamp contents", "non-prefixed msgpack bodies (the index accepts them, the scan route requires the magic prefix)", "ties in the sort order", "operators other than EQUAL / IN (never routed through the index)", "staleness of the auto-built index relative to concurrent writes"}

	eval := c.Fn(pkgGateway + ".evaluateBytesFieldFilterAgainstMap")
	toAny := c.Fn(pkgGateway + ".compareValueToAny")
	hint := c.Fn(pkgGateway + ".indexableHint")
	pre := c.Fn(pkgGateway + ".bucketExecPreconditions")
	canonEqual := pkgCanon + ".Equal"
	canonize := pkgCanon + ".Canonicalize"

	isCanonEqualOfCanon := func(info *types.Info, e ast.Expr) bool {
		call, ok := core.Unparen(e).(*ast.CallExpr)
		if !ok || !core.IsWsCallTo(info, call, canonEqual) || len(call.Args) != 2 {
			return false
		}
		for _, a := range call.Args {
			ok2 := false
			if ac, isCall := core.Unparen(a).(*ast.CallExpr); isCall && core.IsWsCallTo(info, ac, canonize) {
				ok2 = true
			}
			if id, isId := core.Unparen(a).(*ast.Ident); isId {
				if o := info.Uses[id]; o != nil && o.Type().String() == p.Named(pkgCanon, "Key").String() {
					ok2 = true
				}
			}
			if !ok2 {
				return false
			}
		}
		return true
	}

	rC := c.Rule("C08.canon", "body-field EQUAL on the scan route returns valuecanon.Equal(Canonicalize(field), Canonicalize(literal)) before the typed comparison switch can be reached with that operator; the integer IN evaluators compare through valuecanon.Equal; the index route's matchers visit every slot whose key is valuecanon.Equal to the wanted key on every path and the lookups canonicalise their argument", 8)
	{
		info := eval.Info()
		fl := core.NewFlow(p, info, eval.Decl.Body)
		eqConst := p.Pkg(pkgPB).Types.Scope().Lookup("Relational_EQUAL")
		// the typed switch
		var typed *ast.TypeSwitchStmt
		ast.Inspect(eval.Decl.Body, func(x ast.Node) bool {
			if ts, ok := x.(*ast.TypeSwitchStmt); ok && typed == nil {
				typed = ts
			}
			return true
		})
		// canonical return guarded by op == EQUAL
		var canonRet *ast.ReturnStmt
		fl.Nodes(func(l core.Loc, n ast.Node) {
			r, ok := n.(*ast.ReturnStmt)
			if !ok || len(r.Results) != 1 || !isCanonEqualOfCanon(info, r.Results[0]) {
				return
			}
			for _, ft := range fl.FactsAt(l) {
				// the guard is the operator test alone: a conjunct would send part of the EQUAL
				// comparisons on to the typed conversion switch
				if be, isB := ft.Expr.(*ast.BinaryExpr); isB && be.Op == token.EQL && ft.Truth && core.ObjOf(info, be.Y) == eqConst && core.Unparen(fl.CondOf(ft.Edge.From)) == ast.Expr(be) {
					canonRet = r
				}
			}
		})
		ok := false
		if canonRet != nil && typed != nil {
			// the canonical decision comes first: its guarding test dominates the typed switch
			lr := fl.MustLocate(canonRet)
			if lt, found := fl.Locate(typed.Assign); found {
				for _, ft := range fl.FactsAt(lr) {
					if be, isB := ft.Expr.(*ast.BinaryExpr); isB && be.Op == token.EQL && core.ObjOf(info, be.Y) == eqConst {
						if fl.BlockDom(ft.Edge.From, lt.B) {
							ok = true
						}
					}
				}
			}
		}
		rC.Check(ok, eval.Key+":EQUAL", eval.Decl.Pos(), "EQUAL decided by valuecanon.Equal ahead of the typed switch", "body-field EQUAL on the scan route is not decided by valuecanon.Equal over canonicalised operands (or the typed conversion switch comes first): a float field equals a truncated integer literal on the scan route but not on the index route")
		// the literal used there comes from the planner's literal table
		usesToAny := false
		core.Calls(eval.Decl.Body, false, func(call *ast.CallExpr) {
			if core.IsWsCallTo(info, call, toAny.Key) {
				usesToAny = true
			}
		})
		rC.Check(usesToAny, eval.Key+":literal-table", eval.Decl.Pos(), "scan route converts the literal with the planner's compareValueToAny", "the scan route converts the literal differently from the planner")
		for _, k := range []string{".evaluateInt32In", ".evaluateInt64In"} {
			f := c.Fn(pkgGateway + k)
			fi := f.Info()
			viaCanon, rawEq := false, false
			ast.Inspect(f.Decl.Body, func(x ast.Node) bool {
				if e, isE := x.(ast.Expr); isE && isCanonEqualOfCanon(fi, e) {
					viaCanon = true
				}
				if be, isB := x.(*ast.BinaryExpr); isB && be.Op == token.EQL {
					if tx := fi.TypeOf(be.X); tx != nil {
						if b, isBasic := tx.Underlying().(*types.Basic); isBasic && b.Info()&types.IsInteger != 0 && !core.IsNilIdent(fi, be.Y) {
							if _, isLen := core.Unparen(be.X).(*ast.CallExpr); !isLen {
								rawEq = true
							}
						}
					}
				}
				return true
			})
			rC.Check(viaCanon && !rawEq, f.Key, f.Decl.Pos(), "compares through valuecanon.Equal", "the IN evaluator compares converted integers instead of canonical keys: a float field 5.7 is IN [5] on the scan route only")
		}
		// index route matchers
		byValue := p.MustField(pkgBucket, "bucket", "byValue")
		for _, k := range []string{".collectMatchingLocked", ".countMatchingLocked"} {
			f := c.Fn(pkgBucket + k)
			fi := f.Info()
			ffl := core.NewFlow(p, fi, f.Decl.Body)
			var walk *ast.RangeStmt
			ast.Inspect(f.Decl.Body, func(x ast.Node) bool {
				if rs, isR := x.(*ast.RangeStmt); isR && core.FieldOf(fi, rs.X) == byValue {
					has := false
					core.Calls(rs.Body, false, func(call *ast.CallExpr) {
						if core.IsWsCallTo(fi, call, canonEqual) {
							has = true
						}
					})
					if has {
						walk = rs
					}
				}
				return true
			})
			okW := false
			if walk != nil {
				// no exit without passing the walk's range header
				okW = !ffl.ExitWithout(ffl.Entry(), nil, false, func(n ast.Node) bool {
					return n.Pos() >= walk.Pos() && n.End() <= walk.End()
				})
			}
			rC.Check(okW, f.Key+":cross-kind-walk", f.Decl.Pos(), "every path walks all slots with valuecanon.Equal", "the matcher can return without walking the slots with valuecanon.Equal: records that store the same number under another msgpack kind (uint32(5), float64(5) vs int64(5)) are dropped by the index route but matched by the scan")
		}
		for _, k := range []string{".bucket.LookupEqual", ".bucket.LookupIn", ".bucket.CountForValue"} {
			f := c.Fn(pkgBucket + k)
			fi := f.Info()
			canon := false
			core.Calls(f.Decl.Body, false, func(call *ast.CallExpr) {
				if core.IsWsCallTo(fi, call, canonize) {
					canon = true
				}
			})
			rC.Check(canon, f.Key+":canonicalises", f.Decl.Pos(), "argument canonicalised", "the lookup does not canonicalise its argument")
		}
	}

	rP := c.Rule("C08.planner", "indexableHint reports a leg indexable only when its path has none of the special tokens the scan-route extractor recognises (the planner's token test knows exactly those tokens) and its label is empty", 4)
	{
		info := hint.Info()
		fl := core.NewFlow(p, info, hint.Decl.Body)
		scanEx := c.Fn(pkgGateway + ".extractFieldByPath")
		var tokFn *core.Func
		core.Calls(hint.Decl.Body, false, func(call *ast.CallExpr) {
			if t := p.ByObj[core.Callee(info, call)]; t != nil && len(call.Args) == 1 {
				sig := t.Obj.Type().(*types.Signature)
				if sig.Results().Len() == 1 && sig.Results().At(0).Type().String() == "bool" && sig.Params().Len() == 1 && sig.Params().At(0).Type().String() == "string" {
					tokFn = t
				}
			}
		})
		scanToks := specialTokens(scanEx)
		var planToks []string
		if tokFn != nil {
			c.Touch(tokFn)
			planToks = specialTokens(tokFn)
		}
		missing := []string{}
		for _, s := range scanToks {
			found := false
			for _, q := range planToks {
				if q == s {
					found = true
				}
			}
			if !found {
				missing = append(missing, s)
			}
		}
		rP.Check(tokFn != nil && len(scanToks) >= 2 && len(missing) == 0, hint.Key+":special-tokens", hint.Decl.Pos(), "planner knows "+strings.Join(scanToks, " "), "the scan-route extractor gives the path tokens ["+strings.Join(missing, " ")+"] a special meaning that the planner does not exclude: the index looks them up as literal keys and returns nothing")
		trues := trueReturns(info, hint.Decl.Body)
		rP.Check(len(trues) >= 2, hint.Key+":indexable-returns", hint.Decl.Pos(), "indexable returns found", "indexableHint never reports a leg indexable")
		for i, r := range trues {
			l := fl.MustLocate(r)
			special, label := false, false
			for _, ft := range fl.FactsAt(l) {
				if call, isCall := core.Unparen(ft.Expr).(*ast.CallExpr); isCall && !ft.Truth && tokFn != nil && p.ByObj[core.Callee(info, call)] == tokFn {
					special = true
				}
				if be, isB := ft.Expr.(*ast.BinaryExpr); isB {
					if call, isCall := core.Unparen(be.X).(*ast.CallExpr); isCall {
						if fo := core.Callee(info, call); fo != nil && fo.Name() == "GetLabel" {
							if tv := info.Types[be.Y]; tv.Value != nil && constant.StringVal(tv.Value) == "" && ((be.Op == token.NEQ && !ft.Truth) || (be.Op == token.EQL && ft.Truth)) {
								label = true
							}
						}
					}
				}
			}
			n := string(rune('0' + i))
			rP.Check(special, hint.Key+":indexable#"+n+":no-special-path", r.Pos(), "only for plain paths", "a leg whose path uses [*] or #len can be reported indexable")
			rP.Check(label, hint.Key+":indexable#"+n+":no-label", r.Pos(), "only for unlabelled legs", "a labelled leg can be reported indexable: it is removed from the residual and its label never reaches MatchedLabels")
		}
	}

	rPC := c.Rule("C08.plancompose", "a plan built from a sub-group's plan uses that sub-plan's hints as the candidate set only when the sub-plan is an OR-union (the hints are then the whole meaning of the sub-group; any other mode has a residual that would never be evaluated once the sub-group is removed from the residual)", 1)
	{
		n := 0
		orUnion := p.Const(pkgGateway, "PlanModeOrUnion")
		for _, f := range p.FuncsIn(pkgGateway) {
			if f.Decl.Body == nil {
				continue
			}
			fi := f.Info()
			// composite literals Plan{... Hints: X.Hints ...} where X is a local of type Plan
			var fl *core.Flow
			ast.Inspect(f.Decl.Body, func(x ast.Node) bool {
				cl, ok := x.(*ast.CompositeLit)
				if !ok {
					return true
				}
				if tn := namedOf(fi.TypeOf(cl)); tn == nil || tn.Obj().Name() != "Plan" {
					return true
				}
				h := litField(cl, "Hints")
				sel, isSel := core.Unparen(h).(*ast.SelectorExpr)
				if h == nil || !isSel {
					return true
				}
				subObj := core.ObjOf(fi, sel.X)
				if subObj == nil {
					return true
				}
				if tn := namedOf(subObj.Type()); tn == nil || tn.Obj().Name() != "Plan" {
					return true
				}
				n++
				c.Touch(f)
				if fl == nil {
					fl = core.NewFlow(p, fi, f.Decl.Body)
				}
				l, located := fl.Locate(cl)
				okMode := false
				if located {
					for _, ft := range fl.FactsAt(l) {
						be, isB := ft.Expr.(*ast.BinaryExpr)
						if !isB {
							continue
						}
						ms, isMS := core.Unparen(be.X).(*ast.SelectorExpr)
						if !isMS || core.ObjOf(fi, ms.X) != subObj || ms.Sel.Name != "Mode" {
							continue
						}
						if core.ObjOf(fi, be.Y) == types.Object(orUnion) && ((be.Op == token.EQL && ft.Truth) || (be.Op == token.NEQ && !ft.Truth)) {
							okMode = true
						}
					}
				}
				rPC.Check(okMode, f.Key+":sub-plan-hints", cl.Pos(), "only an OR-union sub-plan is consumed", "the hints of a sub-group's plan are used as the candidate set although the sub-plan may not be an OR-union: its residual (the sub-group's other legs) is dropped together with the sub-group, so the index route streams records the full scan rejects")
				return true
			})
		}
		if n == 0 {
			rPC.Ok(pkgGateway+":no-sub-plan-composition", token.NoPos, "no plan is built from a sub-plan's hints")
		}
	}

	rG := c.Rule("C08.route", "the index route is entered only under bucketExecPreconditions(indexType, From, Limit) with From/Limit read from the same request, the precondition is true only for From == 0 and Limit == 0 and for index types the candidate sort handles, and on that route candidates outside the requested time index are dropped before the time window and the sort", 4)
	{
		info := pre.Info()
		fl := core.NewFlow(p, info, pre.Decl.Body)
		sig := pre.Obj.Type().(*types.Signature)
		okSig := sig.Params().Len() == 3
		rG.Check(okSig, pre.Key+":signature", pre.Decl.Pos(), "(indexType, from, limit)", "the precondition no longer sees the paging parameters")
		if okSig {
			for i, r := range trueReturns(info, pre.Decl.Body) {
				l := fl.MustLocate(r)
				z := map[types.Object]bool{}
				for _, ft := range fl.FactsAt(l) {
					be, isB := ft.Expr.(*ast.BinaryExpr)
					if !isB {
						continue
					}
					if v, isC := core.ConstInt(info, be.Y); isC && v == 0 && ((be.Op == token.NEQ && !ft.Truth) || (be.Op == token.EQL && ft.Truth)) {
						z[core.ObjOf(info, be.X)] = true
					}
				}
				rG.Check(z[sig.Params().At(1)] && z[sig.Params().At(2)], pre.Key+":true#"+string(rune('0'+i))+":unpaged", r.Pos(), "true only when from == 0 and limit == 0", "the index route can be taken for a paged request: From/Limit are applied to the candidates of the indexed leg there, but to the index before any filter on the scan route")
			}
			// index types accepted ⊆ types the candidate sort handles
			sortF := c.Fn(pkgGateway + ".sortCandidates")
			caseConsts := func(f *core.Func) map[string]bool {
				out := map[string]bool{}
				ast.Inspect(f.Decl.Body, func(x ast.Node) bool {
					if cc, isCC := x.(*ast.CaseClause); isCC {
						for _, e := range cc.List {
							if k, isK := core.ObjOf(f.Info(), e).(*types.Const); isK && strings.HasPrefix(k.Name(), "BeaconType") {
								out[k.Name()] = true
							}
						}
					}
					return true
				})
				return out
			}
			acc, srt := caseConsts(pre), caseConsts(sortF)
			for k := range acc {
				rG.Check(srt[k], pre.Key+":"+k+":sortable", pre.Decl.Pos(), "sorted by sortCandidates", "index type "+k+" is accepted for the index route but sortCandidates leaves such candidates unsorted")
			}
		}
		// call sites in the gateway
		n := 0
		for _, f := range p.FuncsIn(pkgGateway) {
			if f.Decl.Body == nil {
				continue
			}
			fi := f.Info()
			for _, body := range core.Bodies(f.Decl) {
				var ffl *core.Flow
				core.Calls(body, false, func(call *ast.CallExpr) {
					if !core.IsWsCallTo(fi, call, pkgGateway+".collectBucketCandidates") {
						return
					}
					// only the streaming read handlers sort and page; the claim flows use the key set as a fast reject
					sorts := false
					core.Calls(body, false, func(c2 *ast.CallExpr) {
						if core.IsWsCallTo(fi, c2, pkgGateway+".sortCandidates") {
							sorts = true
						}
					})
					if !sorts {
						return
					}
					n++
					c.Touch(f)
					if ffl == nil {
						ffl = core.NewFlow(p, fi, body)
					}
					l := ffl.MustLocate(call)
					guarded := false
					var preCall *ast.CallExpr
					for _, ft := range ffl.FactsAt(l) {
						if pc, isCall := core.Unparen(ft.Expr).(*ast.CallExpr); isCall && ft.Truth && core.IsWsCallTo(fi, pc, pre.Key) {
							guarded = true
							preCall = pc
						}
					}
					construct := f.Key + ":index-route"
					rG.Check(guarded, construct+":guarded", call.Pos(), "entered under the precondition", "the index route is entered without bucketExecPreconditions")
					if preCall != nil && len(preCall.Args) == 3 {
						getter := func(e ast.Expr, name string) (types.Object, bool) {
							gc, isCall := core.Unparen(e).(*ast.CallExpr)
							if !isCall {
								return nil, false
							}
							fo := core.Callee(fi, gc)
							if fo == nil || fo.Name() != name {
								return nil, false
							}
							return core.ObjOf(fi, core.RecvExpr(gc)), true
						}
						r1, ok1 := getter(preCall.Args[1], "GetFrom")
						r2, ok2 := getter(preCall.Args[2], "GetLimit")
						rG.Check(ok1 && ok2 && r1 == r2 && r1 != nil, construct+":paging-args", preCall.Pos(), "From and Limit of the request", "the precondition is not given the request's From and Limit")
					}
					// membership drop before window and sort
					var drop, window, srt *ast.CallExpr
					core.Calls(body, false, func(c2 *ast.CallExpr) {
						switch {
						case core.IsWsCallTo(fi, c2, pkgGateway+".dropUnindexed"):
							drop = c2
						case core.IsWsCallTo(fi, c2, pkgGateway+".applyTimeRange"):
							window = c2
						case core.IsWsCallTo(fi, c2, pkgGateway+".sortCandidates"):
							srt = c2
						}
					})
					okOrder := drop != nil && window != nil && srt != nil
					if okOrder {
						ld, lw, ls := ffl.MustLocate(drop), ffl.MustLocate(window), ffl.MustLocate(srt)
						okOrder = ffl.Dominates(l, ld) && ffl.Dominates(ld, ls) && ffl.Dominates(lw, ls)
					}
					rG.Check(okOrder, construct+":membership-window-sort", call.Pos(), "candidates: drop non-members, apply window, sort", "the index route does not drop records that are not members of the requested time index (time 0) before it sorts and streams them: the beacon walk never returns such records")
				})
			}
		}
		if n == 0 {
			rG.Bad(pkgGateway+":index-route", token.NoPos, "no index-route call site found")
		}
	}

	rM := c.Rule("C08.members", "dropUnindexed removes exactly the candidates whose time (through beaconTimeOf) is 0 for the three time index types; beaconTimeOf reads the getter of the index type; applyTimeRange skips ts < from and ts >= to (half-open window)", 5)
	{
		du := p.FnOpt(pkgGateway + ".dropUnindexed")
		bt := c.Fn(pkgGateway + ".beaconTimeOf")
		tr := c.Fn(pkgGateway + ".applyTimeRange")
		// beaconTimeOf: case type -> getter
		info := bt.Info()
		ast.Inspect(bt.Decl.Body, func(x ast.Node) bool {
			cc, ok := x.(*ast.CaseClause)
			if !ok {
				return true
			}
			got := ""
			for _, st := range cc.Body {
				core.Calls(st, false, func(call *ast.CallExpr) {
					if fo := core.Callee(info, call); fo != nil && strings.HasPrefix(fo.Name(), "Get") {
						got = fo.Name()
					}
				})
			}
			for _, e := range cc.List {
				if k, isK := core.ObjOf(info, e).(*types.Const); isK {
					rM.Check(got == wantGetter(k.Name()), bt.Key+":"+k.Name(), cc.Pos(), "reads "+got, "beaconTimeOf reads "+got+" for "+k.Name()+" (the index is ordered by "+wantGetter(k.Name())+")")
				}
			}
			return true
		})
		// dropUnindexed: keeps on beaconTimeOf(...) != 0
		if du == nil {
			rM.Bad(pkgGateway+".dropUnindexed:keeps-nonzero", token.NoPos, "the index route has no step that drops candidates outside the requested time index (time 0): the beacon walk never returns such records")
			du = bt
		} else {
			c.Touch(du)
		}
		di := du.Info()
		keep := false
		ast.Inspect(du.Decl.Body, func(x ast.Node) bool {
			if is, ok := x.(*ast.IfStmt); ok {
				if be, isB := core.Unparen(is.Cond).(*ast.BinaryExpr); isB && be.Op == token.NEQ {
					if call, isCall := core.Unparen(be.X).(*ast.CallExpr); isCall && core.IsWsCallTo(di, call, bt.Key) {
						if v, isC := core.ConstInt(di, be.Y); isC && v == 0 {
							for _, st := range is.Body.List {
								if l, _ := appendTo(di, st); l != nil {
									keep = true
								}
							}
						}
					}
				}
			}
			return true
		})
		if du != bt {
			rM.Check(keep, du.Key+":keeps-nonzero", du.Decl.Pos(), "keeps candidates with time != 0", "dropUnindexed no longer keeps exactly the candidates whose index time is not 0")
		}
		types3 := map[string]bool{}
		ast.Inspect(du.Decl.Body, func(x ast.Node) bool {
			if cc, ok := x.(*ast.CaseClause); ok {
				for _, e := range cc.List {
					if k, isK := core.ObjOf(di, e).(*types.Const); isK {
						types3[k.Name()] = true
					}
				}
			}
			return true
		})
		rM.Check(du == bt || (types3["BeaconTypeCreationTime"] && types3["BeaconTypeUpdateTime"] && types3["BeaconTypeExpirationTime"]), du.Key+":time-types", du.Decl.Pos(), "applies to the three time index types", "dropUnindexed does not cover creation, update and expiration time")
		// half-open window
		ti := tr.Info()
		lower, upper := false, false
		ast.Inspect(tr.Decl.Body, func(x ast.Node) bool {
			is, ok := x.(*ast.IfStmt)
			if !ok || len(is.Body.List) != 1 {
				return true
			}
			if br, isBr := is.Body.List[0].(*ast.BranchStmt); !isBr || br.Tok != token.CONTINUE {
				return true
			}
			ast.Inspect(is.Cond, func(y ast.Node) bool {
				if be, isB := y.(*ast.BinaryExpr); isB {
					if tx := ti.TypeOf(be.X); tx != nil && tx.String() == "int64" {
						if be.Op == token.LSS {
							lower = true
						}
						if be.Op == token.GEQ {
							upper = true
						}
						if be.Op == token.LEQ || be.Op == token.GTR {
							lower, upper = false, false
						}
					}
				}
				return true
			})
			return true
		})
		rM.Check(lower && upper, tr.Key+":half-open", tr.Decl.Pos(), "skips ts < from and ts >= to", "the time window of the index route is not [from,to)")
	}

	// C08.early: what the shared send loop does with the request (result cap, key lists, projection) it does
	// for both routes; a route that consumes one of those request fields before the loop applies it on
	// its own rows only, and in a different order with respect to the loop's other skips.
	rE := c.Rule("C08.early", "a request field that the code after the route split consumes for both routes (MaxResults, the key lists, ...) is not read inside one route's branch: a cap or key list applied to the index route's candidates before the shared loop is applied before the loop's other skips on that route only, so the two routes return different rows for the same request", 2)
	{
		n := 0
		for _, f := range p.FuncsIn(pkgGateway) {
			if f.Decl.Body == nil {
				continue
			}
			info := f.Info()
			var splits []*ast.IfStmt
			ast.Inspect(f.Decl.Body, func(x ast.Node) bool {
				is, ok := x.(*ast.IfStmt)
				if !ok {
					return true
				}
				hit := false
				ast.Inspect(is.Cond, func(y ast.Node) bool {
					if call, isCall := y.(*ast.CallExpr); isCall && core.IsWsCallTo(info, call, pkgGateway+".bucketExecPreconditions") {
						hit = true
					}
					return true
				})
				if hit {
					splits = append(splits, is)
				}
				return true
			})
			for _, is := range splits {
				n++
				c.Touch(f)
				// the enclosing block of the split
				var encl *ast.BlockStmt
				for _, nd := range core.PathTo(f.Decl.Body, is) {
					if b, ok := nd.(*ast.BlockStmt); ok && b.Pos() <= is.Pos() && is.End() <= b.End() && b != is.Body {
						encl = b
					}
				}
				if encl == nil {
					encl = f.Decl.Body
				}
				isReqGetter := func(call *ast.CallExpr) *types.Func {
					fo := core.Callee(info, call)
					if fo == nil || !strings.HasPrefix(fo.Name(), "Get") || fo.Pkg() == nil || !strings.HasSuffix(fo.Pkg().Path(), "hydraidepbgo") {
						return nil
					}
					sig := fo.Type().(*types.Signature)
					if sig.Recv() == nil || sig.Params().Len() != 0 {
						return nil
					}
					return fo
				}
				after := map[*types.Func]bool{}
				for _, st := range encl.List {
					if st.Pos() <= is.End() {
						continue
					}
					core.Calls(st, true, func(call *ast.CallExpr) {
						if fo := isReqGetter(call); fo != nil {
							after[fo] = true
						}
					})
				}
				// locals that carry a request field (defined from a request getter anywhere in the function) and are used after the split
				carrier := map[types.Object]bool{}
				ast.Inspect(f.Decl.Body, func(x ast.Node) bool {
					as, ok := x.(*ast.AssignStmt)
					if !ok || len(as.Lhs) != len(as.Rhs) {
						return true
					}
					for i, r := range as.Rhs {
						from := false
						reqVars := map[types.Object]bool{}
						core.Calls(r, false, func(call *ast.CallExpr) {
							if isReqGetter(call) != nil {
								from = true
								if o := core.ObjOf(info, core.RecvExpr(call)); o != nil {
									reqVars[o] = true
								}
							}
						})
						// nothing but the request itself feeds the value
						ast.Inspect(r, func(y ast.Node) bool {
							if id, isId := y.(*ast.Ident); isId {
								if v, isVar := info.Uses[id].(*types.Var); isVar && !v.IsField() && !reqVars[v] {
									from = false
								}
							}
							return true
						})
						if from {
							if o := core.ObjOf(info, as.Lhs[i]); o != nil {
								carrier[o] = true
							}
						}
					}
					return true
				})
				afterObj := map[types.Object]bool{}
				for _, st := range encl.List {
					if st.Pos() <= is.End() {
						continue
					}
					ast.Inspect(st, func(y ast.Node) bool {
						if id, isId := y.(*ast.Ident); isId && carrier[info.Uses[id]] {
							afterObj[info.Uses[id]] = true
						}
						return true
					})
				}
				var bad ast.Expr
				check := func(branch ast.Node) {
					if branch == nil {
						return
					}
					core.Calls(branch, true, func(call *ast.CallExpr) {
						if fo := isReqGetter(call); fo != nil && after[fo] && bad == nil {
							bad = call.Fun
						}
					})
					ast.Inspect(branch, func(y ast.Node) bool {
						if id, isId := y.(*ast.Ident); isId && afterObj[info.Uses[id]] && bad == nil {
							bad = id
						}
						return true
					})
				}
				check(is.Body)
				check(is.Else)
				construct := f.Key + ":route-branches-leave-shared-fields-to-the-loop"
				if len(splits) > 1 {
					construct += "#" + itoa(n)
				}
				if bad != nil {
					rE.Bad(construct, bad.Pos(), "one route's branch reads "+core.ExprStr(bad)+", which the code after the split applies to both routes: that route caps or filters its rows before the shared loop's other skips, the other route after them")
				} else {
					rE.Ok(construct, is.Pos(), "no request field consumed after the split is read inside a route branch ("+itoa(len(after)+len(afterObj))+" such fields)")
				}
			}
		}
		if n == 0 {
			rE.Bad(pkgGateway+":route-split", token.NoPos, "no route split (bucketExecPreconditions test) found")
		}
	}

	rO := c.Rule("C08.oneof", "the planner's literal table (compareValueToAny) and the scan route's typed switch cover the same CompareValue wrappers", 1)
	{
		a, b := wrapperCases(toAny), wrapperCases(eval)
		rO.Check(len(a) >= 10 && strings.Join(a, ",") == strings.Join(b, ","), pkgGateway+":CompareValue-wrappers", toAny.Decl.Pos(), strings.Join(a, ","), "planner handles ["+strings.Join(a, ",")+"] but the scan route handles ["+strings.Join(b, ",")+"]")
	}
}
