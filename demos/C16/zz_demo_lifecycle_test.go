package swamp

// DEMONSTRATION tests for two swamp life-cycle defects. They FAIL on the current
// code because of the defect and would PASS on code that never loses a write that
// was acknowledged to the caller (Save returned StatusNew).
//
//   L1  auto-destroy (DeleteTreasure -> Destroy) wipes a record that a concurrent,
//       already-in-flight request created while Destroy was waiting for the vigils.
//   L2  Close() (what the idle close listener calls) flushes once and never waits
//       for / re-checks in-flight requests, so a record saved after the flush is
//       acknowledged but never written.
//
// Both tests only use the public Swamp API and assert on observable state: the
// content of the swamp after it is re-opened from disk.

import (
	"os"
	"testing"
	"time"

	"github.com/hydraide/hydraide/app/core/filesystem"
	"github.com/hydraide/hydraide/app/core/hydra/swamp/chronicler"
	"github.com/hydraide/hydraide/app/core/hydra/swamp/metadata"
	"github.com/hydraide/hydraide/app/core/hydra/swamp/treasure"
	"github.com/hydraide/hydraide/app/core/settings"
	"github.com/hydraide/hydraide/app/name"
	"github.com/stretchr/testify/require"
)

type demoEngine string

const (
	demoEngineV1 demoEngine = "v1"
	demoEngineV2 demoEngine = "v2"
)

// demoSwampOpener opens (and re-opens) a persistent swamp over one folder the same
// way hydra.createNewSwamp does: a fresh chronicler + swamp.New (which Loads).
type demoSwampOpener struct {
	engine         demoEngine
	swampName      name.Name
	hashPath       string
	writeInterval  time.Duration
	closeAfterIdle time.Duration
}

func newDemoSwampOpener(t *testing.T, engine demoEngine, realm, swampN string, writeInterval, closeAfterIdle time.Duration) *demoSwampOpener {
	t.Helper()
	settingsInterface := settings.New(testMaxDepth, testMaxFolderPerLevel)
	swampName := name.New().Sanctuary(sanctuaryForQuickTest).Realm(realm).Swamp(swampN + "-" + string(engine))
	hashPath := swampName.GetFullHashPath(settingsInterface.GetHydraAbsDataFolderPath(), testAllServers, testMaxDepth, testMaxFolderPerLevel)
	o := &demoSwampOpener{engine: engine, swampName: swampName, hashPath: hashPath, writeInterval: writeInterval, closeAfterIdle: closeAfterIdle}
	o.wipe()
	t.Cleanup(o.wipe)
	return o
}

func (o *demoSwampOpener) wipe() {
	_ = os.RemoveAll(o.hashPath)
	_ = os.Remove(o.hashPath + ".hyd")
}

func (o *demoSwampOpener) open() Swamp {
	var chroniclerInterface chronicler.Chronicler
	var metadataInterface metadata.Metadata
	if o.engine == demoEngineV2 {
		metadataInterface = metadata.NewNoop()
		chroniclerInterface = chronicler.NewV2WithName(o.hashPath, testMaxDepth, o.swampName.Get())
	} else {
		metadataInterface = metadata.New(o.hashPath)
		metadataInterface.LoadFromFile()
		chroniclerInterface = chronicler.New(o.hashPath, 8192, testMaxDepth, filesystem.New(), metadataInterface)
	}
	metadataInterface.SetSwampName(o.swampName)
	chroniclerInterface.CreateDirectoryIfNotExists()
	fss := &FilesystemSettings{ChroniclerInterface: chroniclerInterface, WriteInterval: o.writeInterval}
	return New(o.swampName, o.closeAfterIdle, fss,
		func(e *Event) {}, func(i *Info) {}, func(n name.Name) {}, metadataInterface)
}

// demoSetString is what a Set request does once it holds the swamp and its vigil.
func demoSetString(s Swamp, key, value string) treasure.TreasureStatus {
	tr := s.CreateTreasure(key)
	gid := tr.StartTreasureGuard(true)
	defer tr.ReleaseTreasureGuard(gid)
	tr.SetContentString(gid, value)
	return tr.Save(gid)
}

func demoWaitUntil(t *testing.T, what string, cond func() bool) {
	t.Helper()
	deadline := time.Now().Add(10 * time.Second)
	for !cond() {
		if time.Now().After(deadline) {
			t.Fatalf("timeout while waiting for: %s", what)
		}
		time.Sleep(time.Millisecond)
	}
}

// L1 -------------------------------------------------------------------------------
//
// Interleaving (fully forced, no timing involved):
//
//	W: BeginVigil()                        (a Set request already holds the swamp)
//	D: BeginVigil(); DeleteTreasure("a")   -> swamp empty -> CeaseVigil(); Destroy():
//	                                          closing=1, blocks in WaitForActiveVigilsClosed (W's vigil)
//	W: CreateTreasure("b"); Save -> StatusNew (acknowledged); CeaseVigil()
//	D: Destroy resumes and deletes the whole swamp WITHOUT re-checking that it is still empty
func TestDemoL1_AutoDestroyLosesAcknowledgedWrite(t *testing.T) {
	for _, engine := range []demoEngine{demoEngineV1, demoEngineV2} {
		t.Run(string(engine), func(t *testing.T) {

			// write interval 1h / idle 1h: neither the write ticker nor the idle closer take part
			opener := newDemoSwampOpener(t, engine, "demo-l1", "auto-destroy", time.Hour, time.Hour)
			s := opener.open()

			// seed the only record "a" and flush it, so the swamp really exists on disk
			s.BeginVigil()
			require.Equal(t, treasure.StatusNew, demoSetString(s, "a", "value-a"))
			s.WriteTreasuresToFilesystem()
			s.CeaseVigil()

			// W: a Set request is in flight: it summoned the swamp (IsClosing()==false) and began its vigil
			require.False(t, s.IsClosing())
			s.BeginVigil()

			// D: a Delete request removes the last record -> auto-destroy
			deleteDone := make(chan error, 1)
			go func() {
				s.BeginVigil() // as the gateway does; DeleteTreasure ceases it itself before Destroy
				deleteDone <- s.DeleteTreasure("a", false)
			}()

			// Destroy has started (closing=1) and cannot get past W's vigil
			demoWaitUntil(t, "Destroy to set closing", func() bool { return s.IsClosing() })
			select {
			case <-deleteDone:
				t.Fatal("Destroy did not wait for the in-flight vigil")
			case <-time.After(50 * time.Millisecond):
			}

			// W continues on the swamp object it legitimately holds
			status := demoSetString(s, "b", "value-b")
			s.CeaseVigil()

			require.NoError(t, <-deleteDone)

			if status != treasure.StatusNew {
				// a correct implementation may refuse the write; then nothing was acknowledged
				t.Logf("write of b was not acknowledged (status=%v): no lost write", status)
				return
			}
			t.Logf("write of b acknowledged with StatusNew while Destroy was pending")

			// A correct implementation may have aborted the destroy; let it persist normally.
			if !s.IsClosing() {
				s.Close()
			}

			// Observable state: re-open the swamp from disk.
			reopened := opener.open()
			reopened.BeginVigil()
			existsB := reopened.TreasureExists("b")
			count := reopened.CountTreasures()
			reopened.CeaseVigil()
			reopened.Destroy()

			require.Truef(t, existsB,
				"LOST WRITE: Save(b) returned StatusNew, but after re-opening the swamp has %d records and b is missing "+
					"(auto-destroy deleted a non-empty swamp)", count)
		})
	}
}

// L2 -------------------------------------------------------------------------------
//
// The idle close listener (startCloseListener) does, once per second:
//
//	if isFilesystemWritingActive==0 && !HasActiveVigils() && closing==0 && idle { s.Close() }
//
// Nothing makes that check atomic with a request's "SummonSwamp saw IsClosing()==false,
// then BeginVigil()": the request can begin its vigil right after the listener evaluated
// HasActiveVigils() (the listener sampled lastInteractionTime even earlier). From then on
// the listener just runs s.Close(), and Close() neither waits for vigils nor re-checks.
// The test enters exactly at that point: the request holds its vigil, and we call the
// s.Close() the listener is committed to.
//
// Interleaving:
//
//	R: SummonSwamp -> IsClosing()==false; BeginVigil()
//	L: (check already passed) Close(): closing=1, flush pending, chronicler.Close(), closed event
//	R: CreateTreasure("late"); Save -> StatusNew (acknowledged); CeaseVigil()   -> never flushed
func TestDemoL2_IdleCloseLosesAcknowledgedWrite(t *testing.T) {
	for _, engine := range []demoEngine{demoEngineV1, demoEngineV2} {
		t.Run(string(engine), func(t *testing.T) {

			// 10 s write interval: the write ticker plays no role during the test;
			// idle 1h: the real close listener does not interfere, we play its part.
			opener := newDemoSwampOpener(t, engine, "demo-l2", "idle-close", 10*time.Second, time.Hour)
			s := opener.open()

			s.BeginVigil()
			require.Equal(t, treasure.StatusNew, demoSetString(s, "early", "value-early"))
			s.CeaseVigil()

			// R: request in flight
			require.False(t, s.IsClosing())
			s.BeginVigil()

			// L: the close listener, past its check, closes the swamp
			s.Close()

			// R: continues on the swamp object it legitimately holds
			var status treasure.TreasureStatus
			var panicked any
			func() {
				defer func() { panicked = recover() }()
				status = demoSetString(s, "late", "value-late")
			}()
			s.CeaseVigil()

			if panicked != nil {
				t.Logf("Save after Close panicked (%v): write not acknowledged", panicked)
				return
			}
			if status != treasure.StatusNew {
				t.Logf("write of late was not acknowledged (status=%v): no lost write", status)
				return
			}
			t.Logf("write of late acknowledged with StatusNew after Close(); waiting-for-writer=%d", s.CountTreasuresWaitingForWriter())

			// give any (non-existing) background flush a generous chance
			time.Sleep(1500 * time.Millisecond)

			reopened := opener.open()
			reopened.BeginVigil()
			existsEarly := reopened.TreasureExists("early")
			existsLate := reopened.TreasureExists("late")
			count := reopened.CountTreasures()
			reopened.CeaseVigil()
			reopened.Destroy()

			require.True(t, existsEarly, "sanity: the record saved before Close must be on disk")
			require.Truef(t, existsLate,
				"LOST WRITE: Save(late) returned StatusNew on a swamp handed out before Close(), "+
					"but after re-opening the swamp has %d record(s) and late is missing", count)
		})
	}
}
