package core

import (
	"go/ast"
	"go/token"
	"go/types"
	"strings"
)

// Access is one read or write of a struct field.
type Access struct {
	Node  ast.Node // the statement or call performing the access
	Sel   *ast.SelectorExpr
	Field *types.Var
	Write bool
	Form  string // assign, append, reslice, incdec+, incdec-, add+, add-, add?, store, swap, cas, delete, elem, method:<name>, read, addr
}

func isAtomicPkgCall(info *types.Info, call *ast.CallExpr) (name string, ok bool) {
	f := Callee(info, call)
	if f == nil || f.Pkg() == nil || f.Pkg().Path() != "sync/atomic" {
		return "", false
	}
	sig := f.Type().(*types.Signature)
	if sig.Recv() != nil {
		return "", false
	}
	return f.Name(), true
}

// baseField strips index/slice/star/paren wrappers and returns the selector that names a field.
func baseField(info *types.Info, e ast.Expr) (*ast.SelectorExpr, *types.Var, bool) {
	wrapped := false
	for {
		switch v := e.(type) {
		case *ast.ParenExpr:
			e = v.X
		case *ast.IndexExpr:
			e = v.X
			wrapped = true
		case *ast.SliceExpr:
			e = v.X
			wrapped = true
		case *ast.StarExpr:
			e = v.X
		case *ast.SelectorExpr:
			if f := FieldOf(info, v); f != nil {
				return v, f, wrapped
			}
			return nil, nil, false
		default:
			return nil, nil, false
		}
	}
}

func signOfConst(info *types.Info, e ast.Expr) string {
	if v, ok := ConstInt(info, e); ok {
		if v > 0 {
			return "+"
		}
		if v < 0 {
			return "-"
		}
	}
	return "?"
}

// Accesses lists the accesses to the given fields (any if fields is nil) under n.
// Function literals are entered when intoLits is set.
func Accesses(info *types.Info, n ast.Node, fields map[*types.Var]bool, intoLits bool) []Access {
	var out []Access
	want := func(f *types.Var) bool { return f != nil && (fields == nil || fields[f]) }
	written := map[*ast.SelectorExpr]bool{}
	add := func(node ast.Node, sel *ast.SelectorExpr, f *types.Var, form string) {
		written[sel] = true
		out = append(out, Access{Node: node, Sel: sel, Field: f, Write: true, Form: form})
	}
	ast.Inspect(n, func(x ast.Node) bool {
		switch v := x.(type) {
		case *ast.FuncLit:
			return intoLits
		case *ast.AssignStmt:
			for i, lhs := range v.Lhs {
				sel, f, wrapped := baseField(info, lhs)
				if !want(f) {
					continue
				}
				form := "assign"
				if wrapped {
					form = "elem"
				} else if len(v.Lhs) == len(v.Rhs) {
					rhs := Unparen(v.Rhs[i])
					if c, ok := rhs.(*ast.CallExpr); ok {
						if id, ok := Unparen(c.Fun).(*ast.Ident); ok && id.Name == "append" {
							if _, isB := info.Uses[id].(*types.Builtin); isB && len(c.Args) > 0 {
								if s2, f2, _ := baseField(info, c.Args[0]); f2 == f && s2 != nil {
									form = "append"
								}
							}
						}
					}
					if sl, ok := rhs.(*ast.SliceExpr); ok {
						if _, f2, _ := baseField(info, sl.X); f2 == f {
							form = "reslice"
						}
					}
					if id, ok := rhs.(*ast.Ident); ok && v.Tok == token.ASSIGN {
						if id.Name == "true" || id.Name == "false" {
							form = "assign-" + id.Name
						}
					}
				}
				if v.Tok != token.ASSIGN && v.Tok != token.DEFINE {
					form = "opassign"
				}
				add(v, sel, f, form)
			}
		case *ast.IncDecStmt:
			sel, f, _ := baseField(info, v.X)
			if want(f) {
				if v.Tok == token.INC {
					add(v, sel, f, "incdec+")
				} else {
					add(v, sel, f, "incdec-")
				}
			}
		case *ast.CallExpr:
			if name, ok := isAtomicPkgCall(info, v); ok && len(v.Args) > 0 {
				if u, ok := Unparen(v.Args[0]).(*ast.UnaryExpr); ok && u.Op == token.AND {
					sel, f, _ := baseField(info, u.X)
					if want(f) {
						switch {
						case strings.HasPrefix(name, "Add"):
							add(v, sel, f, "add"+signOfConst(info, v.Args[1]))
						case strings.HasPrefix(name, "Store"):
							add(v, sel, f, "store")
						case strings.HasPrefix(name, "Swap"):
							add(v, sel, f, "swap")
						case strings.HasPrefix(name, "CompareAndSwap"):
							add(v, sel, f, "cas")
						case strings.HasPrefix(name, "Load"):
							written[sel] = true
							out = append(out, Access{Node: v, Sel: sel, Field: f, Form: "read"})
						}
					}
				}
			}
			if id, ok := Unparen(v.Fun).(*ast.Ident); ok {
				if b, isB := info.Uses[id].(*types.Builtin); isB && len(v.Args) > 0 {
					switch b.Name() {
					case "delete", "clear":
						sel, f, _ := baseField(info, v.Args[0])
						if want(f) {
							add(v, sel, f, "delete")
						}
					}
				}
			}
			// methods of atomic.* / sync.Map typed fields
			if s, ok := Unparen(v.Fun).(*ast.SelectorExpr); ok {
				if sel, f, _ := baseField(info, s.X); want(f) && sel != nil {
					callee := Callee(info, v)
					if callee != nil && callee.Pkg() != nil {
						switch callee.Pkg().Path() {
						case "sync/atomic", "sync":
							switch callee.Name() {
							case "Add", "Store", "Swap", "CompareAndSwap", "Delete", "LoadOrStore", "LoadAndDelete", "CompareAndDelete", "Clear", "And", "Or":
								form := "method:" + callee.Name()
								if callee.Name() == "Add" && len(v.Args) == 1 {
									form = "add" + signOfConst(info, v.Args[0])
								}
								add(v, sel, f, form)
							}
						}
					}
				}
			}
		case *ast.UnaryExpr:
			if v.Op == token.AND {
				if sel, f, _ := baseField(info, v.X); want(f) && !written[sel] {
					// address taken outside an atomic call: treated as a potential write
					written[sel] = true
					out = append(out, Access{Node: v, Sel: sel, Field: f, Write: true, Form: "addr"})
				}
			}
		}
		return true
	})
	// reads: every selector of a wanted field not already classified as the target of a write
	ast.Inspect(n, func(x ast.Node) bool {
		if _, ok := x.(*ast.FuncLit); ok {
			return intoLits
		}
		if s, ok := x.(*ast.SelectorExpr); ok {
			if f := FieldOf(info, s); want(f) && !written[s] {
				out = append(out, Access{Node: s, Sel: s, Field: f, Form: "read"})
			}
		}
		return true
	})
	return out
}

// StructFields maps field name -> object for a named struct.
func StructFields(st *types.Struct) map[string]*types.Var {
	m := map[string]*types.Var{}
	for i := 0; i < st.NumFields(); i++ {
		m[st.Field(i).Name()] = st.Field(i)
	}
	return m
}

// MustField resolves a field of a named struct (anchor).
func (p *Prog) MustField(short, typ, field string) *types.Var {
	_, st := p.StructOf(short, typ)
	f := StructFields(st)[field]
	if f == nil {
		Failf("unresolved anchor: field %s.%s.%s", short, typ, field)
	}
	return f
}

// EnclosingStmts returns the chain of nodes from root down to target (inclusive).
func PathTo(root ast.Node, target ast.Node) []ast.Node {
	var path, best []ast.Node
	ast.Inspect(root, func(x ast.Node) bool {
		if x == nil {
			path = path[:len(path)-1]
			return true
		}
		path = append(path, x)
		if x == target {
			best = append([]ast.Node{}, path...)
		}
		return true
	})
	return best
}

// AtomicCall reports whether call is a function of package sync/atomic (and its name).
func AtomicCall(info *types.Info, call *ast.CallExpr) (string, bool) { return isAtomicPkgCall(info, call) }
