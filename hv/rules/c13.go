package rules

import (
	"go/ast"
	"go/token"
	"go/types"
	"sort"
	"strings"

	"hv/core"
)

func init() { register("C13", c13) }

const pkgPatch = "app/core/hydra/swamp/treasure/msgpackpatch"

func normEnumName(s string) string {
	for _, pre := range []string{"PatchOp_", "PatchCondition_", "PatchResult_", "PatchStatus", "Cond", "Op"} {
		if strings.HasPrefix(s, pre) {
			s = strings.TrimPrefix(s, pre)
			break
		}
	}
	return strings.ToLower(strings.ReplaceAll(s, "_", ""))
}

// enumByValue lists the constants of a named integer type: value -> normalised name.
func enumByValue(pkg *types.Package, t *types.Named) map[int64]string {
	out := map[int64]string{}
	for _, k := range enumConsts(pkg, t) {
		if v, ok := core.ConstValInt(k); ok {
			out[v] = normEnumName(k.Name())
		}
	}
	return out
}

func c13(c *core.Ctx) {
	p := c.P
	c.Explain = "Static necessary conditions for patch semantics: the op dispatcher, the op namer and the condition evaluator have a case for every kind; the engine's kind/condition/status constants have the same numeric values and meanings as the wire enums they are cast from/to; client-supplied op value bytes reach the skeleton's raw leaf bytes only after a whole-value well-formedness validator succeeded (a reported success leaves a decodable body); float comparisons signal NaN as unordered and the condition evaluator, evaluated with 'unordered' set, meets only NOT_EQUAL; the condition is evaluated before any op and a failing op or condition returns no body; callers write the patched body only on the nil-error edge."
	c.NotCovered = []string{"equivalence with a reference document model for all bodies and op sequences", "byte-exact preservation of untouched values", "numeric overflow of INC"}

	rD := c.Rule("C13.dispatch", "applyOp and opName have a case for every OpKind, evaluateCondition for every CondOp; OpKind, CondOp and PatchFieldsStatus carry the same value->meaning table as hydrapb.PatchOp_Kind, PatchCondition_Op and PatchResult_StatusCode", 5)
	opT := p.Named(pkgPatch, "OpKind")
	condT := p.Named(pkgPatch, "CondOp")
	casesOf := func(f *core.Func, t *types.Named) map[string]bool {
		out := map[string]bool{}
		info := f.Info()
		ast.Inspect(f.Decl.Body, func(x ast.Node) bool {
			if cc, ok := x.(*ast.CaseClause); ok {
				for _, e := range cc.List {
					if k, ok := core.ObjOf(info, e).(*types.Const); ok && types.Identical(k.Type(), t) {
						out[k.Name()] = true
					}
				}
			}
			return true
		})
		return out
	}
	for _, it := range []struct {
		fn string
		t  *types.Named
	}{{"applyOp", opT}, {"opName", opT}, {"evaluateCondition", condT}} {
		f := c.Fn(pkgPatch + "." + it.fn)
		cs := casesOf(f, it.t)
		var missing []string
		for _, k := range enumConsts(p.Pkg(pkgPatch).Types, it.t) {
			if !cs[k.Name()] {
				missing = append(missing, k.Name())
			}
		}
		sort.Strings(missing)
		rD.Check(len(missing) == 0, f.Key, f.Decl.Pos(), "exhaustive over "+it.t.Obj().Name(), "no case for "+strings.Join(missing, ", "))
	}
	for _, it := range []struct {
		eng   *types.Named
		engP  *types.Package
		wire  string
		label string
	}{
		{opT, p.Pkg(pkgPatch).Types, "PatchOp_Kind", "OpKind"},
		{condT, p.Pkg(pkgPatch).Types, "PatchCondition_Op", "CondOp"},
		{p.Named(pkgSwamp, "PatchFieldsStatus"), p.Pkg(pkgSwamp).Types, "PatchResult_StatusCode", "PatchFieldsStatus"},
	} {
		wireT := p.Named(pkgPB, it.wire)
		a, b := enumByValue(it.engP, it.eng), enumByValue(p.Pkg(pkgPB).Types, wireT)
		diff := ""
		for v, n := range b {
			if a[v] != n {
				diff = diff + " " + itoaN(int(v)) + ":" + a[v] + "/" + n
			}
		}
		for v, n := range a {
			if _, ok := b[v]; !ok {
				diff = diff + " " + itoaN(int(v)) + ":" + n + "/-"
			}
		}
		rD.Check(diff == "", it.label+"<->"+it.wire, it.eng.Obj().Pos(), "same value->meaning table", "the engine enum and the wire enum it is cast from/to disagree:"+diff)
	}

	rV := c.Rule("C13.validate", "client op value bytes flow into a skeleton leaf (newLeaf / replaceWithLeaf / RawBytes) only in functions where a successful whole-value validator call on that op value dominates the splice", 6)
	// validators: func([]byte) error / func([]byte) (*Skeleton, error) in the package that (transitively) call Decoder.Skip and check trailing bytes
	validators := map[*types.Func]bool{}
	for _, f := range p.FuncsIn(pkgPatch) {
		if f.Decl.Body == nil {
			continue
		}
		sig := f.Obj.Type().(*types.Signature)
		if sig.Params().Len() != 1 || !core.ReturnsError(sig) {
			continue
		}
		if sl, ok := sig.Params().At(0).Type().Underlying().(*types.Slice); !ok || sl.Elem().String() != "byte" {
			continue
		}
		if !(reachesCallee(c, f, "github.com/vmihailenco/msgpack/v5.Decoder.Skip") || callsQ(f, "github.com/vmihailenco/msgpack/v5.Decoder.Skip")) {
			continue
		}
		// must look at the remaining length (trailing bytes)
		// the remaining length is compared with 0 (not merely used for offsets) and the non-zero side returns an error
		trailing := false
		ast.Inspect(f.Decl.Body, func(x ast.Node) bool {
			is, ok := x.(*ast.IfStmt)
			if !ok {
				return true
			}
			be, ok := core.Unparen(is.Cond).(*ast.BinaryExpr)
			if !ok {
				return true
			}
			isLen := func(e ast.Expr) bool {
				call, ok := core.Unparen(e).(*ast.CallExpr)
				return ok && core.IsCallTo(f.Info(), call, "bytes.Reader.Len")
			}
			var other ast.Expr
			if isLen(be.X) {
				other = be.Y
			} else if isLen(be.Y) {
				other = be.X
			}
			if other == nil || !isConst(f.Info(), other, 0) {
				return true
			}
			branch := ast.Stmt(is.Body)
			if be.Op == token.EQL {
				branch = is.Else
			} else if be.Op != token.NEQ && be.Op != token.GTR && be.Op != token.LSS {
				return true
			}
			if branch == nil {
				return true
			}
			ast.Inspect(branch, func(y ast.Node) bool {
				if ret, isRet := y.(*ast.ReturnStmt); isRet && len(ret.Results) > 0 && !core.IsNilIdent(f.Info(), ret.Results[len(ret.Results)-1]) {
					trailing = true
				}
				return true
			})
			return true
		})
		if trailing {
			validators[f.Obj] = true
			c.Touch(f)
		}
	}
	opValue := p.MustField(pkgPatch, "Op", "Value")
	isOpValue := func(info *types.Info, e ast.Expr) bool {
		found := false
		ast.Inspect(e, func(x ast.Node) bool {
			if s, ok := x.(*ast.SelectorExpr); ok && core.FieldOf(info, s) == opValue {
				found = true
			}
			return true
		})
		return found
	}
	nSplice := 0
	for _, f := range p.FuncsIn(pkgPatch) {
		if f.Decl.Body == nil {
			continue
		}
		info := f.Info()
		var fl *core.Flow
		core.Calls(f.Decl.Body, false, func(call *ast.CallExpr) {
			isSplice := core.IsWsCallTo(info, call, pkgPatch+".newLeaf", pkgPatch+".replaceWithLeaf", pkgPatch+".insertIntoArray")
			if !isSplice {
				return
			}
			// a splice helper that validates its own byte parameter before it splices needs no validation at the call
			if t2 := p.ByObj[core.Callee(info, call)]; t2 != nil && t2.Decl.Body != nil && selfValidating(p, t2, validators) {
				for _, a := range call.Args {
					if isOpValue(info, a) {
						nSplice++
						c.Touch(f)
						rV.Ok(f.Key+":"+core.ExprStr(call.Fun)+"("+core.ExprStr(a)+")", call.Pos(), "validated inside "+t2.Obj.Name()+" before it splices")
					}
				}
				return
			}
			var tainted ast.Expr
			for _, a := range call.Args {
				if isOpValue(info, a) {
					tainted = a
				}
			}
			if tainted == nil {
				return
			}
			nSplice++
			c.Touch(f)
			if fl == nil {
				fl = core.NewFlow(p, info, f.Decl.Body)
			}
			loc, ok := fl.Locate(call)
			if !ok {
				return
			}
			validated := false
			core.Calls(f.Decl.Body, false, func(vc *ast.CallExpr) {
				callee := core.Callee(info, vc)
				if callee == nil || !validators[callee] || len(vc.Args) != 1 || !isOpValue(info, vc.Args[0]) {
					return
				}
				if good, _ := fl.OnlyAfterSuccess(f.Decl.Body, vc, call); good {
					validated = true
				}
			})
			_ = loc
			rV.Check(validated, f.Key+":"+core.ExprStr(call.Fun)+"("+core.ExprStr(tainted)+")", call.Pos(), "op value validated before it is spliced",
				"client bytes are spliced into the body without a well-formedness check: a truncated or trailing-byte value yields a 'successful' patch whose body no longer decodes")
		})
	}
	if nSplice == 0 {
		rV.Bad(pkgPatch+":splice-sites", token.NoPos, "no splice of op values found (rule needs review)")
	}

	rN := c.Rule("C13.nan", "the float branch of compareLeafBytes tests both operands for NaN before the ordered comparison and reports 'unordered'; evaluateCondition with unordered=true meets exactly NOT_EQUAL", 7)
	{
		f := c.Fn(pkgPatch + ".compareLeafBytes")
		info := f.Info()
		fl := core.NewFlow(p, info, f.Decl.Body)
		var cmpCall *ast.CallExpr
		core.Calls(f.Decl.Body, false, func(call *ast.CallExpr) {
			if t := p.ByObj[core.Callee(info, call)]; t != nil {
				sig := t.Obj.Type().(*types.Signature)
				if sig.Params().Len() == 2 && sig.Params().At(0).Type().String() == "float64" {
					cmpCall = call
				}
			}
		})
		ok := false
		if cmpCall != nil && len(cmpCall.Args) == 2 {
			loc := fl.MustLocate(cmpCall)
			isNaNTest := func(ft core.Fact, arg ast.Expr) bool {
				if ft.Truth {
					return false // we need "is NaN" to be false on the path
				}
				be, isB := core.Unparen(ft.Expr).(*ast.BinaryExpr)
				if isB && be.Op == token.NEQ && core.ExprStr(be.X) == core.ExprStr(arg) && core.ExprStr(be.Y) == core.ExprStr(arg) {
					return true
				}
				if call, isC := core.Unparen(ft.Expr).(*ast.CallExpr); isC && core.IsCallTo(info, call, "math.IsNaN") && core.ExprStr(call.Args[0]) == core.ExprStr(arg) {
					return true
				}
				return false
			}
			a := holdsAt(fl, f.Decl.Body, loc, func(ft core.Fact) bool { return isNaNTest(ft, cmpCall.Args[0]) })
			b := holdsAt(fl, f.Decl.Body, loc, func(ft core.Fact) bool { return isNaNTest(ft, cmpCall.Args[1]) })
			ok = a && b
		}
		rN.Check(ok, f.Key+":float-branch", f.Decl.Pos(), "ordered comparison only when neither operand is NaN", "floats are compared with < and > only: with a NaN operand both are false and the values are reported equal")
		// no comparison result is produced before the numeric class of both operands is known:
		// every success return (nil error) is dominated by the successful decoding of both operands
		{
			var decoders []*ast.CallExpr
			core.Calls(f.Decl.Body, false, func(call *ast.CallExpr) {
				if t := p.ByObj[core.Callee(info, call)]; t != nil {
					sig := t.Obj.Type().(*types.Signature)
					// the numeric leaf reader: returns (.., float64, class, error)
					hasFloat := false
					for i := 0; i < sig.Results().Len(); i++ {
						if sig.Results().At(i).Type().String() == "float64" {
							hasFloat = true
						}
					}
					if hasFloat && sig.Results().Len() >= 3 {
						decoders = append(decoders, call)
					}
				}
			})
			early := ""
			if len(decoders) >= 2 {
				fl.Nodes(func(l core.Loc, n ast.Node) {
					ret, isRet := n.(*ast.ReturnStmt)
					if !isRet || len(ret.Results) != 2 || !core.IsNilIdent(info, ret.Results[1]) {
						return
					}
					for _, d := range decoders {
						if good, _ := fl.OnlyAfterSuccess(f.Decl.Body, d, ret); !good {
							early = p.Pos(ret.Pos())
						}
					}
				})
			} else {
				early = "(numeric decoding of the operands not found)"
			}
			rN.Check(early == "", f.Key+":result-after-classification", f.Decl.Pos(), "every result is produced after both operands were classified", "a comparison result is returned at "+early+" before both operands were decoded and classified: two bit-identical NaN floats are reported equal, so EQUAL / >= / <= conditions on a NaN field are met and the ops are applied")
		}
		ev := c.Fn(pkgPatch + ".evaluateCondition")
		einfo := ev.Info()
		// the local that holds errors.Is(err, <unordered sentinel>)
		var unorderedObj types.Object
		ast.Inspect(ev.Decl.Body, func(x ast.Node) bool {
			if as, isAs := x.(*ast.AssignStmt); isAs && len(as.Lhs) == 1 && len(as.Rhs) == 1 {
				if call, isC := core.Unparen(as.Rhs[0]).(*ast.CallExpr); isC && core.IsCallTo(einfo, call, "errors.Is") {
					unorderedObj = core.ObjOf(einfo, as.Lhs[0])
				}
			}
			return true
		})
		metByOp := map[string]ast.Expr{}
		ast.Inspect(ev.Decl.Body, func(x ast.Node) bool {
			cc, isCC := x.(*ast.CaseClause)
			if !isCC || len(cc.List) != 1 || len(cc.Body) != 1 {
				return true
			}
			k, isK := core.ObjOf(einfo, cc.List[0]).(*types.Const)
			as, isAs := cc.Body[0].(*ast.AssignStmt)
			if isK && isAs && len(as.Rhs) == 1 {
				metByOp[k.Name()] = as.Rhs[0]
			}
			return true
		})
		for _, op := range []string{"CondEqual", "CondNotEqual", "CondGreaterThan", "CondGreaterThanOrEqual", "CondLessThan", "CondLessThanOrEqual"} {
			e := metByOp[op]
			if e == nil || unorderedObj == nil {
				rN.Bad(ev.Key+":"+op, ev.Decl.Pos(), "no 'met' expression for "+op+" or no unordered flag: NaN is not distinguished")
				continue
			}
			v, known := core.EvalBool(einfo, e, func(a ast.Expr) (bool, bool) {
				if id, isId := core.Unparen(a).(*ast.Ident); isId && einfo.Uses[id] == unorderedObj {
					return true, true
				}
				return false, false
			})
			want := op == "CondNotEqual"
			rN.Check(known && v == want, ev.Key+":"+op+":unordered", e.Pos(), "met="+b2s(v), "with a NaN operand "+op+" evaluates to known="+b2s(known)+" met="+b2s(v)+" (specified: "+b2s(want)+")")
		}
	}

	rO := c.Rule("C13.offsets", "the byte offsets of a leaf into the original document (Skeleton.LeafStart / LeafEnd) are read only where the same node is known not to have been rewritten (RawBytes == nil on that path): a node written by an earlier op of the same patch carries its bytes in RawBytes and its offsets are stale", 2)
	{
		_, sst := p.StructOf(pkgPatch, "Skeleton")
		sf := core.StructFields(sst)
		offs := map[*types.Var]bool{sf["LeafStart"]: true, sf["LeafEnd"]: true}
		rawF := sf["RawBytes"]
		if rawF == nil || sf["LeafStart"] == nil || sf["LeafEnd"] == nil {
			core.Failf("Skeleton.LeafStart/LeafEnd/RawBytes not found")
		}
		n := 0
		for _, f := range p.FuncsIn(pkgPatch) {
			if f.Decl.Body == nil {
				continue
			}
			fi := f.Info()
			for _, body := range core.Bodies(f.Decl) {
				var fl *core.Flow
				for _, a := range core.Accesses(fi, body, offs, false) {
					if a.Write {
						continue
					}
					n++
					c.Touch(f)
					if fl == nil {
						fl = core.NewFlow(p, fi, body)
					}
					base := core.ExprStr(a.Sel.X)
					l, ok := fl.Locate(a.Node)
					fresh := false
					if ok {
						for _, ft := range fl.FactsAt(l) {
							be, isB := ft.Expr.(*ast.BinaryExpr)
							if !isB || !core.IsNilIdent(fi, be.Y) {
								continue
							}
							sx, isSel := core.Unparen(be.X).(*ast.SelectorExpr)
							if !isSel || core.FieldOf(fi, sx) != rawF || core.ExprStr(sx.X) != base {
								continue
							}
							if (be.Op == token.NEQ && !ft.Truth) || (be.Op == token.EQL && ft.Truth) {
								fresh = true
							}
						}
					}
					rO.Check(fresh, f.Key+":"+base+"."+a.Field.Name(), a.Node.Pos(), "read only for a node that still lives in the original document", "Skeleton."+a.Field.Name()+" of "+base+" is read without knowing that the node was not rewritten (RawBytes == nil): after an earlier op of the same patch appended or rewrote the element its offsets are stale, so a decision based on them (width, position) is wrong - e.g. REMOVE_VAL skips the element it should remove and still reports success")
				}
			}
		}
		if n == 0 {
			rO.Bad(pkgPatch+":leaf-offsets", token.NoPos, "no read of the leaf offsets found")
		}
	}

	rA := c.Rule("C13.atomic", "ApplyWithCondition evaluates the condition before the first op and returns a nil body with every error; PatchFields and applyPatchExpiredOne store the patched body only after ApplyWithCondition returned nil", 4)
	{
		f := c.Fn(pkgPatch + ".ApplyWithCondition")
		info := f.Info()
		fl := core.NewFlow(p, info, f.Decl.Body)
		var evalCall, opCall *ast.CallExpr
		core.Calls(f.Decl.Body, false, func(call *ast.CallExpr) {
			if core.IsWsCallTo(info, call, pkgPatch+".evaluateCondition") {
				evalCall = call
			}
			if core.IsWsCallTo(info, call, pkgPatch+".applyOp") {
				opCall = call
			}
		})
		ok := false
		if evalCall != nil && opCall != nil {
			// every path from the condition evaluation to an op passes an edge establishing err == nil
			bad, _ := fl.RunsWithoutSuccess(f.Decl.Body, evalCall, opCall)
			ok = !bad
			// and the condition is not evaluated after an op ran
			lo := fl.MustLocate(opCall)
			if r, _ := fl.CanReach(lo, nil, nil, core.ContainsNode(evalCall)); r {
				ok = false
			}
		}
		rA.Check(ok, f.Key+":condition-first", f.Decl.Pos(), "no op runs when the condition failed", "ops can run although the condition was not met (or before it is evaluated)")
		nilBody := true
		ast.Inspect(f.Decl.Body, func(x ast.Node) bool {
			if ret, isRet := x.(*ast.ReturnStmt); isRet && len(ret.Results) == 2 {
				if !core.IsNilIdent(info, ret.Results[1]) && !core.IsNilIdent(info, ret.Results[0]) {
					nilBody = false
				}
			}
			return true
		})
		rA.Check(nilBody, f.Key+":error-returns-no-body", f.Decl.Pos(), "error => nil body", "an error is returned together with a (partially patched) body")
		for _, k := range []string{pkgSwamp + ".swamp.PatchFields", pkgSwamp + ".swamp.applyPatchExpiredOne"} {
			g := c.Fn(k)
			ginfo := g.Info()
			gfl := core.NewFlow(p, ginfo, g.Decl.Body)
			var apply, write *ast.CallExpr
			core.Calls(g.Decl.Body, false, func(call *ast.CallExpr) {
				if core.IsWsCallTo(ginfo, call, pkgPatch+".ApplyWithCondition") {
					apply = call
				}
				if fo := core.Callee(ginfo, call); fo != nil && fo.Name() == "SetContentByteArray" {
					write = call
				}
			})
			good, why := false, "apply or write not found"
			if apply != nil && write != nil {
				good, why = gfl.OnlyAfterSuccess(g.Decl.Body, apply, write)
			}
			rA.Check(good, k+":write-after-success", g.Decl.Pos(), "body stored only after a successful patch", "the record body is written although the patch failed ("+why+")")
		}
	}
}

// selfValidating: the function passes one of its []byte parameters to a whole-value validator and every use of
// that parameter in a splice (newLeaf / append into a node) happens only after the validator succeeded.
func selfValidating(p *core.Prog, f *core.Func, validators map[*types.Func]bool) bool {
	info := f.Info()
	sig := f.Obj.Type().(*types.Signature)
	var vcall *ast.CallExpr
	var param types.Object
	core.Calls(f.Decl.Body, false, func(call *ast.CallExpr) {
		callee := core.Callee(info, call)
		if callee == nil || !validators[callee] || len(call.Args) != 1 {
			return
		}
		o := core.ObjOf(info, call.Args[0])
		for i := 0; i < sig.Params().Len(); i++ {
			if sig.Params().At(i) == o {
				vcall, param = call, o
			}
		}
	})
	if vcall == nil {
		return false
	}
	fl := core.NewFlow(p, info, f.Decl.Body)
	ok := true
	fl.Nodes(func(l core.Loc, nd ast.Node) {
		if nd == ast.Node(vcall) || !core.Mentions(info, nd, param) {
			return
		}
		contains := false
		ast.Inspect(nd, func(y ast.Node) bool {
			if y == ast.Node(vcall) {
				contains = true
			}
			return true
		})
		if contains {
			return
		}
		if good, _ := fl.OnlyAfterSuccess(f.Decl.Body, vcall, nd); !good {
			ok = false
		}
	})
	return ok
}
