#!/bin/sh
# Builds the checker from files on disk only (offline).
set -e
cd /verif/hv
env GOTOOLCHAIN=local GOFLAGS=-mod=mod GOPROXY=off GOSUMDB=off GOWORK=off \
  /opt/veriftools/go1.26.8/bin/go build -o /verif/bin/hv ./cmd/hv
