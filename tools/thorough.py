#!/usr/bin/env python3
"""Thorough tier of one property:  thorough.py Cnn
1. runs the static rules on /repo's working tree (`hv check -prop Cnn -tier thorough`): this alone decides the
   exit code and the VIOLATION / KNOWN-FINDING lines;
2. measures how sensitive those rules are on THIS tree: every registered source mutation of the property
   (selftest/mutations.json, selftest/patches/*.diff) and every kept seeded change (seeded/*/patch.diff) is applied to a
   private scratch copy of /repo (created with mkdtemp, removed afterwards), the mutant is type-checked with
   `go build` (never run), and the same static rules are run on it. 'break' mutants must be reported, 'benign'
   ones must stay silent. The tally is merged into the evidence file (coverage.sensitivity); it never changes
   the verdict about /repo.
Nothing here executes HydrAIDE code or its tests."""
import concurrent.futures, json, os, shutil, subprocess, sys, tempfile, time
prop = sys.argv[1]
V = "/verif"
t0 = time.time()
r = subprocess.run([f"{V}/bin/hv", "check", "-prop", prop, "-tier", "thorough"], capture_output=True, text=True)
sys.stdout.write(r.stdout); sys.stderr.write(r.stderr)
ev_path = f"{V}/evidence/{prop}.json"
if r.returncode == 2 or not os.path.exists(ev_path):
    sys.exit(r.returncode)
muts = [m for m in json.load(open(f"{V}/selftest/mutations.json")) if m["prop"] == prop]
for d in sorted(os.listdir(f"{V}/seeded")) if os.path.isdir(f"{V}/seeded") else []:
    mp = f"{V}/seeded/{d}/meta.json"
    if os.path.exists(mp) and json.load(open(mp)).get("property") == prop:
        muts.append({"name": "seeded-" + d, "prop": prop, "kind": "break", "abs_patch": f"{V}/seeded/{d}/patch.diff"})
# one generated benign variant: dozens of locals/parameters renamed with gofmt -r (rules must not depend on local names)
import re as _re
_src = open(f"{V}/selftest/rename_variant.py").read()
RENAMES = json.loads("[" + _re.search(r"RENAMES = \[(.*?)\]", _src, _re.S).group(1).replace("\n", " ") + "]")
muts.append({"name": "benign-rename-locals", "prop": prop, "kind": "benign", "renames": RENAMES})
env_go = {k: v for k, v in os.environ.items() if k not in ("GOFLAGS", "GOWORK", "GOTOOLCHAIN", "GOSUMDB")}
base = tempfile.mkdtemp(prefix="hvthorough_")
def one(m):
    d = tempfile.mkdtemp(prefix="m_", dir=base)
    repo, verif = os.path.join(d, "repo"), os.path.join(d, "verif")
    os.makedirs(verif)
    try:
        subprocess.check_call(["rsync", "-a", "--exclude", ".git", "/repo/", repo + "/"])
        shutil.copy(f"{V}/known_findings.json", verif)
        patch = m.get("abs_patch") or (f"{V}/selftest/patches/" + m["patch"] if m.get("patch") else None)
        if patch:
            pr = subprocess.run(["patch", "-p1", "-s", "--no-backup-if-mismatch", "-i", patch], cwd=repo, capture_output=True, text=True)
            if pr.returncode != 0:
                return {"name": m["name"], "result": "not-applicable (patch does not apply to this tree)"}
        for pair in m.get("renames", []):
            a, b = pair.split(":")
            files = subprocess.run(f"grep -rlw '{a}' --include=*.go app sdk | grep -v _test.go | grep -v '\\.pb\\.go'", shell=True, cwd=repo, capture_output=True, text=True).stdout.split()
            if files:
                subprocess.run(["gofmt", "-r", f"{a} -> {b}", "-w"] + files, cwd=repo, capture_output=True, env=env_go)
        for e in m.get("edits", []):
            path = os.path.join(repo, e["file"])
            src = open(path).read()
            if e["old"] not in src:
                return {"name": m["name"], "result": "not-applicable (pattern not in this tree)"}
            open(path, "w").write(src.replace(e["old"], e["new"], 1))
        b = subprocess.run(["go", "build", "./..."], cwd=repo, capture_output=True, text=True, env=env_go)
        b2 = subprocess.run(["go", "build", "./..."], cwd=os.path.join(repo, "sdk/go/hydraidego"), capture_output=True, text=True, env=env_go)
        if b.returncode != 0 or b2.returncode != 0:
            return {"name": m["name"], "result": "not-applicable (mutant does not compile)"}
        h = subprocess.run([f"{V}/bin/hv", "check", "-prop", prop], capture_output=True, text=True, env=dict(os.environ, HV_REPO=repo, HV_VERIF=verif))
        rules = sorted({l.split("rule=")[1].split()[0] for l in h.stdout.splitlines() if l.strip().startswith("rule=")})
        kind = m.get("kind", "break")
        if kind == "break":
            ok = h.returncode == 1 and (not m.get("expect_rule") or m["expect_rule"] in rules)
            return {"name": m["name"], "kind": kind, "result": "reported" if ok else "MISSED", "rules": rules}
        return {"name": m["name"], "kind": kind, "result": "silent" if h.returncode == 0 else "FALSE-ALARM", "rules": rules}
    finally:
        shutil.rmtree(d, ignore_errors=True)
try:
    with concurrent.futures.ThreadPoolExecutor(max_workers=6) as ex:
        results = list(ex.map(one, muts))
finally:
    shutil.rmtree(base, ignore_errors=True)
ev = json.load(open(ev_path))
brk = [x for x in results if x.get("kind") == "break"]
ben = [x for x in results if x.get("kind") == "benign"]
ev["coverage"]["sensitivity"] = {
    "what": "source mutants of this property applied to scratch copies of the current tree and re-analysed by the same static rules (mutants are compiled, never run)",
    "break_mutants": len(brk), "break_reported": sum(1 for x in brk if x["result"] == "reported"),
    "benign_variants": len(ben), "benign_silent": sum(1 for x in ben if x["result"] == "silent"),
    "not_applicable": [x["name"] for x in results if x["result"].startswith("not-applicable")],
    "missed": [x["name"] for x in brk if x["result"] == "MISSED"], "false_alarms": [x["name"] for x in ben if x["result"] == "FALSE-ALARM"],
    "details": results,
}
ev["wall_s"] = round(time.time() - t0, 1)
json.dump(ev, open(ev_path, "w"), indent=1)
s = ev["coverage"]["sensitivity"]
print(f"SENSITIVITY property={prop} break_mutants={s['break_mutants']} reported={s['break_reported']} benign={s['benign_variants']} silent={s['benign_silent']} missed={s['missed']} false_alarms={s['false_alarms']}")
sys.exit(r.returncode)
