package core

import (
	"go/ast"
	"go/token"
	"go/types"
)

// ErrObjOfCall finds the variable that receives the error result of a call
// (`x, err := f()`, `err = f()`, `if err := f(); ...`, `var err = f()`).
func ErrObjOfCall(info *types.Info, body ast.Node, call *ast.CallExpr) types.Object {
	var obj types.Object
	ast.Inspect(body, func(x ast.Node) bool {
		if obj != nil {
			return false
		}
		switch v := x.(type) {
		case *ast.AssignStmt:
			if len(v.Rhs) == 1 && Unparen(v.Rhs[0]) == ast.Expr(call) && len(v.Lhs) > 0 {
				last := v.Lhs[len(v.Lhs)-1]
				if id, ok := last.(*ast.Ident); ok && id.Name != "_" {
					if o := info.Defs[id]; o != nil {
						obj = o
					} else {
						obj = info.Uses[id]
					}
				}
			}
		case *ast.ValueSpec:
			if len(v.Values) == 1 && Unparen(v.Values[0]) == ast.Expr(call) && len(v.Names) > 0 {
				obj = info.Defs[v.Names[len(v.Names)-1]]
			}
		}
		return true
	})
	if obj != nil && !IsErrorType(obj.Type()) {
		return nil
	}
	return obj
}

// FailEdgesOfCall returns the conditional edges taken when the call's error is non-nil:
// the nearest tests of the receiving variable that the call dominates.
// directCond is set when the call itself is the tested expression, e.g. `if !ok()`/`if f() != nil`.
func (fl *Flow) FailEdgesOfCall(body ast.Node, call *ast.CallExpr) (edges map[Edge]bool, ok bool) {
	loc, found := fl.Locate(call)
	if !found {
		return nil, false
	}
	obj := ErrObjOfCall(fl.Info, body, call)
	if obj == nil {
		return nil, false
	}
	all := fl.FailureEdges(obj)
	edges = map[Edge]bool{}
	// candidate condition blocks dominated by the call
	var cands []int
	seen := map[int]bool{}
	for e := range all {
		blk := fl.G.Blocks[e.From]
		condLoc := Loc{e.From, len(blk.Nodes) - 1}
		if fl.Dominates(loc, condLoc) && !seen[e.From] {
			seen[e.From] = true
			cands = append(cands, e.From)
		}
	}
	for _, b := range cands {
		nearest := true
		for _, o := range cands {
			if o != b && fl.BlockDom(o, b) {
				nearest = false
			}
		}
		if nearest {
			for e := range all {
				if e.From == b {
					edges[e] = true
				}
			}
		}
	}
	return edges, len(edges) > 0
}

// ReachFromEdge reports whether a node satisfying target is reachable after taking the edge,
// without passing a node satisfying avoid.
func (fl *Flow) ReachFromEdge(e Edge, avoid, target func(ast.Node) bool) bool {
	tgt := int(fl.G.Blocks[e.From].Succs[e.Succ].Index)
	ok, _ := fl.CanReach(Loc{tgt, -1}, nil, avoid, target)
	return ok
}

// SuccessEdgesOfCall returns the conditional edges on which the call's error is known to be nil
// (the edge establishes the atomic fact `err == nil`), taken from the nearest tests of the
// receiving variable that the call dominates. An edge of a compound test such as the false edge
// of `err != nil && x` establishes nothing and is therefore not a success edge.
func (fl *Flow) SuccessEdgesOfCall(body ast.Node, call *ast.CallExpr) (edges map[Edge]bool, ok bool) {
	loc, found := fl.Locate(call)
	if !found {
		return nil, false
	}
	obj := ErrObjOfCall(fl.Info, body, call)
	if obj == nil {
		return nil, false
	}
	all := map[Edge]bool{}
	for _, bi := range fl.rpo {
		c := fl.CondOf(bi)
		if c == nil {
			continue
		}
		for si := 0; si < 2; si++ {
			var fs []Fact
			splitFacts(c, si == 0, Edge{bi, si}, &fs)
			for _, f := range fs {
				be, isBin := f.Expr.(*ast.BinaryExpr)
				if !isBin || (be.Op != token.NEQ && be.Op != token.EQL) {
					continue
				}
				var other ast.Expr
				if ObjOf(fl.Info, be.X) == obj {
					other = be.Y
				} else if ObjOf(fl.Info, be.Y) == obj {
					other = be.X
				} else {
					continue
				}
				if IsNilIdent(fl.Info, other) && (be.Op == token.EQL) == f.Truth {
					all[Edge{bi, si}] = true
				}
			}
		}
	}
	edges = map[Edge]bool{}
	var cands []int
	seen := map[int]bool{}
	for e := range all {
		blk := fl.G.Blocks[e.From]
		condLoc := Loc{e.From, len(blk.Nodes) - 1}
		if fl.Dominates(loc, condLoc) && !seen[e.From] {
			seen[e.From] = true
			cands = append(cands, e.From)
		}
	}
	for _, b := range cands {
		nearest := true
		for _, o := range cands {
			if o != b && fl.BlockDom(o, b) {
				nearest = false
			}
		}
		if nearest {
			for e := range all {
				if e.From == b {
					edges[e] = true
				}
			}
		}
	}
	return edges, len(edges) > 0
}

// RunsWithoutSuccess reports whether node b can execute after call a on a path that does not
// take an edge establishing that a's error is nil (and does not pass a again).
func (fl *Flow) RunsWithoutSuccess(body ast.Node, a *ast.CallExpr, b ast.Node) (bool, string) {
	la, ok1 := fl.Locate(a)
	if !ok1 {
		return true, "not located"
	}
	edges, ok := fl.SuccessEdgesOfCall(body, a)
	if !ok {
		return true, "the error of the earlier call is not tested for nil"
	}
	isA := func(n ast.Node) bool { return n.Pos() <= a.Pos() && a.End() <= n.End() }
	isB := func(n ast.Node) bool { return n.Pos() <= b.Pos() && b.End() <= n.End() }
	if r, _ := fl.CanReach(la, edges, isA, isB); r {
		return true, "reachable after the earlier call without passing a branch that established a nil error"
	}
	return false, ""
}

// OnlyAfterSuccess reports whether node b can execute only after call a returned a nil error:
// a dominates b, a's error is tested, and every path from a to b takes an edge that establishes
// `err == nil` (so b is unreachable from the failure branches, including the undecided edge of a
// compound test), without going through a again.
func (fl *Flow) OnlyAfterSuccess(body ast.Node, a *ast.CallExpr, b ast.Node) (bool, string) {
	la, ok1 := fl.Locate(a)
	lb, ok2 := fl.Locate(b)
	if !ok1 || !ok2 {
		return false, "not located"
	}
	if !fl.Dominates(la, lb) {
		return false, "the earlier call does not dominate the later one"
	}
	if bad, why := fl.RunsWithoutSuccess(body, a, b); bad {
		return false, why
	}
	return true, ""
}

// ContainsNode builds a predicate matching the CFG node that contains n.
func ContainsNode(n ast.Node) func(ast.Node) bool {
	return func(x ast.Node) bool { return x.Pos() <= n.Pos() && n.End() <= x.End() }
}

// NodeHasCall builds a predicate matching CFG nodes that contain a call satisfying pred
// (function literals and defers excluded).
func NodeHasCall(pred func(*ast.CallExpr) bool) func(ast.Node) bool {
	return func(x ast.Node) bool {
		if _, ok := x.(*ast.DeferStmt); ok {
			return false
		}
		found := false
		Calls(x, false, func(c *ast.CallExpr) {
			if pred(c) {
				found = true
			}
		})
		return found
	}
}

// Unbalanced is one function exit reached with a non-zero counter balance.
type Unbalanced struct {
	Pos token.Pos
	Why string
}

// PathBalance checks a counter discipline over every path of the body: delta(n) gives the net
// change a CFG node applies directly (+1/-1) and tells whether n registers the deferred release;
// deferredDec is the number of decrements that deferred release performs when it runs (at every
// exit reached after its registration). Every exit must be reached with direct balance -
// (registered ? deferredDec : 0) == 0. The abstract state per block is the finite set of
// (balance, registered) pairs, balance clipped to [-4,4]; reaching the clip (an increment that
// can repeat in a loop) is reported as unbalanced.
func PathBalance(fl *Flow, delta func(ast.Node) (int, bool), deferredDec int) []Unbalanced {
	return PathBalanceInit(fl, delta, deferredDec, 0)
}

// PathBalanceInit is PathBalance with an initial balance at the function entry.
func PathBalanceInit(fl *Flow, delta func(ast.Node) (int, bool), deferredDec int, init int) []Unbalanced {
	type st struct {
		bal int
		reg bool
	}
	in := make([]map[st]bool, len(fl.G.Blocks))
	in[0] = map[st]bool{{init, false}: true}
	work := []int{0}
	var out []Unbalanced
	seenOut := map[string]bool{}
	report := func(pos token.Pos, why string) {
		k := fl.P.Pos(pos) + why
		if !seenOut[k] {
			seenOut[k] = true
			out = append(out, Unbalanced{pos, why})
		}
	}
	for len(work) > 0 {
		b := work[len(work)-1]
		work = work[:len(work)-1]
		blk := fl.G.Blocks[b]
		for s0 := range in[b] {
			s := s0
			returned := false
			for _, n := range blk.Nodes {
				d, reg := delta(n)
				s.bal += d
				if reg {
					s.reg = true
				}
				if s.bal > 4 || s.bal < -4 {
					report(n.Pos(), "the count changes an unbounded number of times (inside a loop)")
					returned = true
					break
				}
				if _, isRet := n.(*ast.ReturnStmt); isRet {
					final := s.bal
					if s.reg {
						final -= deferredDec
					}
					if final != 0 {
						report(n.Pos(), "net change "+itoa(final)+" at this return")
					}
					returned = true
					break
				}
			}
			if returned {
				continue
			}
			if len(blk.Succs) == 0 && len(blk.Nodes) > 0 {
				// falling off the end of the body (implicit return) or a no-return call
				last := blk.Nodes[len(blk.Nodes)-1]
				isPanic := false
				Calls(last, false, func(c *ast.CallExpr) {
					if NoReturnCall(fl.Info, c) {
						isPanic = true
					}
				})
				if !isPanic {
					final := s.bal
					if s.reg {
						final -= deferredDec
					}
					if final != 0 {
						report(last.End(), "net change "+itoa(final)+" at the end of the function")
					}
				}
			}
			for _, sc := range blk.Succs {
				t := int(sc.Index)
				if in[t] == nil {
					in[t] = map[st]bool{}
				}
				if !in[t][s] {
					in[t][s] = true
					work = append(work, t)
				}
			}
		}
	}
	return out
}

func itoa(v int) string {
	if v < 0 {
		return "-" + itoa(-v)
	}
	if v < 10 {
		return string(rune('0' + v))
	}
	return itoa(v/10) + string(rune('0'+v%10))
}

// ErrObjOfCallAny is ErrObjOfCall without the restriction to error-typed results: the variable
// bound to the last result of the call (`x := f()`, `if x := f(); ...`, `x, y := f()`).
func ErrObjOfCallAny(info *types.Info, body ast.Node, call *ast.CallExpr) types.Object {
	var obj types.Object
	ast.Inspect(body, func(x ast.Node) bool {
		if obj != nil {
			return false
		}
		switch v := x.(type) {
		case *ast.AssignStmt:
			if len(v.Rhs) == 1 && Unparen(v.Rhs[0]) == ast.Expr(call) && len(v.Lhs) > 0 {
				if id, ok := v.Lhs[len(v.Lhs)-1].(*ast.Ident); ok && id.Name != "_" {
					if o := info.Defs[id]; o != nil {
						obj = o
					} else {
						obj = info.Uses[id]
					}
				}
			}
		case *ast.ValueSpec:
			if len(v.Values) == 1 && Unparen(v.Values[0]) == ast.Expr(call) && len(v.Names) > 0 {
				obj = info.Defs[v.Names[len(v.Names)-1]]
			}
		}
		return true
	})
	return obj
}
