package swamp

import (
	"testing"

	"github.com/hydraide/hydraide/app/core/hydra/swamp/treasure"
)

// A save that changes nothing must be classified "same" (no event, NOTHING_CHANGED) - C19 / C06.
// The treasure's change flags are set by the setters and never cleared after a save, so once a
// record was modified every later identical save is reported (and published) as a modification.
func TestDemoNoOpSaveAfterModificationIsReportedAsModified(t *testing.T) {
	s := patchTestSwamp(t, "c19", "sticky-flags")
	set := func(v int64) treasure.TreasureStatus {
		tr := s.CreateTreasure("k")
		g := tr.StartTreasureGuard(true)
		defer tr.ReleaseTreasureGuard(g)
		tr.SetContentInt64(g, v)
		return tr.Save(g)
	}
	if st := set(1); st != treasure.StatusNew {
		t.Fatalf("first save: %v", st)
	}
	if st := set(1); st != treasure.StatusSame {
		t.Fatalf("identical save right after creation: got %v, want StatusSame", st)
	}
	if st := set(2); st != treasure.StatusModified {
		t.Fatalf("changed value: got %v, want StatusModified", st)
	}
	if st := set(2); st != treasure.StatusSame {
		t.Fatalf("identical save after a modification: got %v, want StatusSame (an event is published for a save that changes nothing)", st)
	}
}
