package rules

import (
	"strings"
	"go/ast"
	"go/token"
	"go/types"

	"hv/core"
)

func init() { register("C15", c15) }

// isIndex0Of reports whether e is <base>.<field>[0].
func isIndex0Of(info *types.Info, e ast.Expr, field *types.Var) bool {
	ix, ok := core.Unparen(e).(*ast.IndexExpr)
	if !ok || core.FieldOf(info, ix.X) != field {
		return false
	}
	v, ok := core.ConstInt(info, ix.Index)
	return ok && v == 0
}

// stripConv removes type conversions around an expression.
func stripConv(info *types.Info, e ast.Expr) ast.Expr {
	for {
		e = core.Unparen(e)
		c, ok := e.(*ast.CallExpr)
		if !ok || len(c.Args) != 1 {
			return e
		}
		if tv, ok := info.Types[c.Fun]; ok && tv.IsType() {
			e = c.Args[0]
			continue
		}
		return e
	}
}

func c15(c *core.Ctx) {
	p := c.P
	c.Explain = "Static necessary conditions for the record guard: queue and owner state only touched under the cond lock; IDs strictly increase (a released ID can never equal a later holder's ID, so duplicate/foreign releases are inert); removal only of the head and only when it equals the caller's ID; enqueue only at the tail; non-waiting acquire only on an empty queue; wait loop compares the head with the caller's own ID; cond-var discipline (no lost wake-up, signal after dequeue)."
	c.NotCovered = []string{"mutual exclusion and FIFO order over real interleavings (needs a model checker or runtime exploration)", "callers' use of the guard (C09)"}

	guardT, _ := p.StructOf(pkgGuard, "guard")
	_ = guardT
	queue := p.MustField(pkgGuard, "guard", "waitForUnlock")
	counter := p.MustField(pkgGuard, "guard", "largestGuardID")
	start := c.Fn(pkgGuard + ".guard.StartTreasureGuard")
	release := c.Fn(pkgGuard + ".guard.ReleaseTreasureGuard")
	canExec := c.Fn(pkgGuard + ".guard.CanExecute")

	// C15.lockset
	rLs := c.Rule("C15.lockset", "guard.waitForUnlock and guard.bodyAuthID are read and written only with the cond lock (g.mu / g.cond.L) held", 10)
	core.ReportGuarded(c, rLs, core.CheckGuarded(p, core.GuardSpec{
		Pkg: pkgGuard, Type: "guard", Fields: []string{"waitForUnlock", "bodyAuthID"}, Locks: []string{"mu", "cond.L"}, ReadsNeedLock: true,
	}))

	// C15.monotonic
	rMono := c.Rule("C15.monotonic", "the guard ID counter is only ever incremented: an ID handed out once is never handed out again, so a late duplicate or foreign release can never match the current holder", 1)
	for _, f := range p.FuncsIn(pkgGuard) {
		if f.Decl.Body == nil {
			continue
		}
		for _, a := range core.Accesses(f.Info(), f.Decl.Body, map[*types.Var]bool{counter: true}, true) {
			if !a.Write {
				continue
			}
			c.Touch(f)
			ok := a.Form == "add+" || a.Form == "incdec+"
			rMono.Check(ok, f.Key+":largestGuardID:"+a.Form, a.Node.Pos(), "increment",
				"the ID counter is "+a.Form+"-written: IDs restart, a stale release (e.g. the caller's deferred release after Save already released in immediate-write mode) matches a later holder's ID and releases that holder's guard")
		}
	}

	rOwn := c.Rule("C15.idowner", "a guard ID received as a parameter together with its record is only ever used on that record: guard-taking methods are called on it, and helpers that take a (record, ID) pair receive the same pair", 5)
	guardOwnerRule(c, rOwn)

	// every ID that enters the queue is fresh
	rFresh := c.Rule("C15.freshid", "every ID appended to the wait queue is the counter's value right after it was advanced in the same critical section: the result of an atomic add of a positive constant, or a read of the counter dominated by an increment statement with no other queue append in between", 2)
	{
		f := start
		info := f.Info()
		fl := core.NewFlow(p, info, f.Decl.Body)
		var appends []core.Access
		for _, a := range core.Accesses(info, f.Decl.Body, map[*types.Var]bool{queue: true}, false) {
			if a.Write && a.Form == "append" {
				appends = append(appends, a)
			}
		}
		incs := []core.Access{}
		for _, a := range core.Accesses(info, f.Decl.Body, map[*types.Var]bool{counter: true}, false) {
			if a.Write && (a.Form == "incdec+" || a.Form == "add+") {
				incs = append(incs, a)
			}
		}
		for _, a := range appends {
			as := a.Node.(*ast.AssignStmt)
			call := core.Unparen(as.Rhs[0]).(*ast.CallExpr)
			fresh, how := false, "the appended value is not derived from an advanced counter"
			if len(call.Args) == 2 {
				v := call.Args[1]
				if o := core.ObjOf(info, v); o != nil {
					if def := localDef(info, f.Decl.Body, o); def != nil {
						v = def
					}
				}
				v = core.Unparen(v)
				la := fl.MustLocate(a.Node)
				switch e := v.(type) {
				case *ast.CallExpr:
					// atomic.AddInt64(&ctr, +k)
					for _, in := range incs {
						if in.Form == "add+" && in.Node == ast.Node(e) {
							fresh, how = true, "atomic add result"
						}
					}
					// a helper of the package all of whose returns are the result of an atomic add of a
					// positive constant on the counter (`func (g *guard) nextID() int64`)
					if t := p.ByObj[core.Callee(info, e)]; t != nil && t.Decl.Body != nil && !fresh {
						ti := t.Info()
						var adds []ast.Node
						for _, a2 := range core.Accesses(ti, t.Decl.Body, map[*types.Var]bool{counter: true}, false) {
							if a2.Write && a2.Form == "add+" {
								adds = append(adds, a2.Node)
							}
						}
						nRet, okRet := 0, true
						ast.Inspect(t.Decl.Body, func(x ast.Node) bool {
							if r, isRet := x.(*ast.ReturnStmt); isRet {
								nRet++
								good := false
								if len(r.Results) == 1 {
									for _, ad := range adds {
										if ast.Node(core.Unparen(r.Results[0])) == ad {
											good = true
										}
									}
								}
								if !good {
									okRet = false
								}
							}
							return true
						})
						if nRet > 0 && okRet {
							fresh, how = true, "result of the ID helper "+t.Obj.Name()+" (atomic add)"
							c.Touch(t)
						}
					}
				case *ast.SelectorExpr:
					// plain read of the counter: needs a dominating increment statement, and no other append between it and this one
					if core.FieldOf(info, e) == counter {
						for _, in := range incs {
							if in.Form != "incdec+" {
								continue
							}
							li, ok := fl.Locate(in.Node)
							if !ok || !fl.Dominates(li, la) {
								continue
							}
							clean := true
							for _, other := range appends {
								if other.Node == a.Node {
									continue
								}
								lo := fl.MustLocate(other.Node)
								if fl.Dominates(li, lo) && fl.Dominates(lo, la) {
									clean = false
								}
							}
							if clean {
								fresh, how = true, "read after increment"
							}
						}
					}
				}
			}
			rFresh.Check(fresh, f.Key+":waitForUnlock:append:fresh-id", a.Node.Pos(), how, "an ID enters the wait queue without the counter having been advanced for it ("+how+"): the next acquire hands out the same ID, a waiter then runs together with the holder and a former holder's duplicate release frees the next holder's guard")
		}
	}

	// queue writes: tail append in Start, head reslice in Release, nothing else
	rShape := c.Rule("C15.queue", "the wait queue is changed only by tail append (acquire) and by removing the head when it equals the caller's ID (release); non-waiting acquire appends only to an empty queue; the wait loop and CanExecute compare the head with the caller's ID", 5)
	for _, f := range p.FuncsIn(pkgGuard) {
		if f.Decl.Body == nil {
			continue
		}
		info := f.Info()
		for _, body := range core.Bodies(f.Decl) {
			fl := core.NewFlow(p, info, body)
			for _, a := range core.Accesses(info, body, map[*types.Var]bool{queue: true}, false) {
				if !a.Write {
					continue
				}
				construct := f.Key + ":waitForUnlock:" + a.Form
				switch {
				case a.Form == "append" && f == start:
					// which branch? waiting==false branch must be guarded by len(queue)==0
					loc := fl.MustLocate(a.Node)
					facts := fl.FactsAt(loc)
					waitingTrue, waitingFalse, emptyChecked := false, false, false
					wParam := paramObj(f, 0)
					for _, ft := range facts {
						if id, ok := core.Unparen(ft.Expr).(*ast.Ident); ok && info.Uses[id] == wParam {
							if ft.Truth {
								waitingTrue = true
							} else {
								waitingFalse = true
							}
						}
						if be, ok := ft.Expr.(*ast.BinaryExpr); ok && ft.Truth && be.Op == token.EQL {
							if isLenOf(info, be.X, queue) && isConst(info, be.Y, 0) {
								emptyChecked = true
							}
						}
					}
					switch {
					case waitingTrue:
						rShape.Ok(construct+":waiting", a.Node.Pos(), "tail append on the waiting branch")
					case waitingFalse || !waitingTrue:
						rShape.Check(emptyChecked, construct+":nonwaiting", a.Node.Pos(), "tail append guarded by len(queue)==0",
							"non-waiting acquire appends without having established that the queue is empty: it would report success while another holder is active")
					}
				case a.Form == "reslice" && f == release:
					loc := fl.MustLocate(a.Node)
					headEq, nonEmpty := false, false
					idParam := paramObj(f, 0)
					for _, ft := range fl.FactsAt(loc) {
						be, ok := ft.Expr.(*ast.BinaryExpr)
						if !ok || !ft.Truth {
							continue
						}
						if be.Op == token.EQL {
							x, y := be.X, be.Y
							if isIndex0Of(info, y, queue) {
								x, y = y, x
							}
							if isIndex0Of(info, x, queue) && core.ObjOf(info, stripConv(info, y)) == idParam {
								headEq = true
							}
						}
						if be.Op == token.GTR && isLenOf(info, be.X, queue) && isConst(info, be.Y, 0) {
							nonEmpty = true
						}
						if be.Op == token.NEQ && isLenOf(info, be.X, queue) && isConst(info, be.Y, 0) {
							nonEmpty = true
						}
					}
					// the reslice must drop exactly the head
					dropsHead := false
					if as, ok := a.Node.(*ast.AssignStmt); ok && len(as.Rhs) == 1 {
						if sl, ok := core.Unparen(as.Rhs[0]).(*ast.SliceExpr); ok && sl.High == nil && sl.Low != nil {
							if v, ok := core.ConstInt(info, sl.Low); ok && v == 1 {
								dropsHead = true
							}
						}
					}
					rShape.Check(headEq && nonEmpty && dropsHead, construct, a.Node.Pos(), "head removed only when queue non-empty and head == caller's ID",
						"release removes from the queue without (len>0 && head == guardID) or does not drop exactly the head: a stale or foreign ID would release the current holder")
				default:
					rShape.Bad(construct, a.Node.Pos(), "unexpected mutation of the guard queue (only tail append in StartTreasureGuard and head removal in ReleaseTreasureGuard are allowed)")
				}
			}
		}
	}
	// wait loop predicate: head != own id
	{
		info := start.Info()
		found := false
		ast.Inspect(start.Decl.Body, func(x ast.Node) bool {
			fs, ok := x.(*ast.ForStmt)
			if !ok || fs.Cond == nil {
				return true
			}
			if len(core.FindCalls(fs.Body, false, func(call *ast.CallExpr) bool { return core.IsCallTo(info, call, "sync.Cond.Wait") })) == 0 {
				return true
			}
			found = true
			ok2 := false
			if be, ok := core.Unparen(fs.Cond).(*ast.BinaryExpr); ok && be.Op == token.NEQ {
				x, y := be.X, be.Y
				if isIndex0Of(info, y, queue) {
					x, y = y, x
				}
				if isIndex0Of(info, x, queue) {
					// y must be the local that was appended to the queue on this branch
					if obj := core.ObjOf(info, stripConv(info, y)); obj != nil {
						for _, a := range core.Accesses(info, start.Decl.Body, map[*types.Var]bool{queue: true}, false) {
							if a.Form != "append" {
								continue
							}
							as := a.Node.(*ast.AssignStmt)
							call := core.Unparen(as.Rhs[0]).(*ast.CallExpr)
							if len(call.Args) == 2 && core.ObjOf(info, call.Args[1]) == obj {
								ok2 = true
							}
						}
					}
				}
			}
			rShape.Check(ok2, start.Key+":wait-predicate", fs.Pos(), "waits while head != own appended ID",
				"wait loop does not compare the queue head with the caller's own ID")
			return true
		})
		if !found {
			rShape.Bad(start.Key+":wait-predicate", start.Decl.Pos(), "no cond wait loop in StartTreasureGuard")
		}
		// returned ID on the waiting branch is the appended one: covered by wait predicate + return; non-zero IDs only
	}
	// CanExecute: mismatch of head and ID returns an error
	{
		info := canExec.Info()
		idParam := paramObj(canExec, 0)
		ok := false
		ast.Inspect(canExec.Decl.Body, func(x ast.Node) bool {
			is, isIf := x.(*ast.IfStmt)
			if !isIf {
				return true
			}
			be, isB := core.Unparen(is.Cond).(*ast.BinaryExpr)
			if !isB || be.Op != token.NEQ {
				return true
			}
			xx, yy := be.X, be.Y
			if isIndex0Of(info, yy, queue) {
				xx, yy = yy, xx
			}
			if isIndex0Of(info, xx, queue) && core.ObjOf(info, stripConv(info, yy)) == idParam {
				if n := len(is.Body.List); n > 0 {
					if ret, isRet := is.Body.List[n-1].(*ast.ReturnStmt); isRet && len(ret.Results) == 1 && !core.IsNilIdent(info, ret.Results[0]) {
						ok = true
					}
				}
			}
			return true
		})
		rShape.Check(ok, canExec.Key+":head-check", canExec.Decl.Pos(), "returns an error unless head == guardID", "CanExecute no longer rejects a guard ID that is not the queue head")
	}

	// cond-var discipline for the guard's cond
	rL := c.Rule("C15.cond-shape", "the guard's cond wait is a locked predicate loop", 1)
	rLock := c.Rule("C15.cond-lock", "guard queue changes happen under the cond lock or are followed by a locked Broadcast", 1)
	rSig := c.Rule("C15.cond-signal", "removing the head is followed by Broadcast/Signal on every path (the next waiter must be woken)", 1)
	for _, w := range findCondWaits(c) {
		if w.Owner == nil || core.Short(w.Owner.Obj().Pkg().Path()) != pkgGuard {
			continue
		}
		condWaitShape(c, w, rL)
		if len(w.Pred) > 0 {
			condWriterRules(c, w, rLock, rSig)
		}
	}
}

func paramObj(f *core.Func, i int) types.Object {
	sig := f.Obj.Type().(*types.Signature)
	if i >= sig.Params().Len() {
		core.Failf("function %s has no parameter %d", f.Key, i)
	}
	return sig.Params().At(i)
}

func isLenOf(info *types.Info, e ast.Expr, field *types.Var) bool {
	c, ok := core.Unparen(e).(*ast.CallExpr)
	if !ok || len(c.Args) != 1 {
		return false
	}
	id, ok := core.Unparen(c.Fun).(*ast.Ident)
	if !ok || id.Name != "len" {
		return false
	}
	if _, isB := info.Uses[id].(*types.Builtin); !isB {
		return false
	}
	return core.FieldOf(info, c.Args[0]) == field
}

func isConst(info *types.Info, e ast.Expr, v int64) bool {
	x, ok := core.ConstInt(info, e)
	return ok && x == v
}

// guardOwnerRule: a guard ID belongs to the record it was acquired on. In a function that receives a
// (record, guard ID) pair as parameters, every guard-taking method call that uses that ID is made on
// that record, and a helper that takes such a pair is handed the same record together with the ID.
func guardOwnerRule(c *core.Ctx, r *core.Rule) {
	p := c.P
	treasureT := p.Named(pkgTreasure, "Treasure")
	isGuardID := func(t types.Type) bool { return strings.HasSuffix(t.String(), "guard.ID") }
	pairOf := func(sig *types.Signature) (rec, id *types.Var, recIx, idIx int) {
		recIx, idIx = -1, -1
		nRec, nID := 0, 0
		for i := 0; i < sig.Params().Len(); i++ {
			pv := sig.Params().At(i)
			if isGuardID(pv.Type()) {
				id, idIx = pv, i
				nID++
			}
			if types.Identical(pv.Type(), treasureT) {
				rec, recIx = pv, i
				nRec++
			}
		}
		if nRec != 1 || nID != 1 {
			return nil, nil, -1, -1
		}
		return rec, id, recIx, idIx
	}
	n := 0
	for _, pkg := range guardPkgs {
		for _, f := range p.FuncsIn(pkg) {
			if f.Decl.Body == nil {
				continue
			}
			rec, id, _, _ := pairOf(f.Obj.Type().(*types.Signature))
			if rec == nil {
				continue
			}
			info := f.Info()
			core.Calls(f.Decl.Body, true, func(call *ast.CallExpr) {
				fo := core.Callee(info, call)
				if fo == nil {
					return
				}
				sig, _ := fo.Type().(*types.Signature)
				if sig == nil {
					return
				}
				// method of the record taking the ID
				if sig.Recv() != nil && sig.Params().Len() > 0 && isGuardID(sig.Params().At(0).Type()) && len(call.Args) > 0 && core.ObjOf(info, call.Args[0]) == types.Object(id) {
					if core.Short(pkgPathOf(fo)) != pkgTreasure && core.Short(pkgPathOf(fo)) != pkgGuard {
						return
					}
					n++
					c.Touch(f)
					rx := core.RecvExpr(call)
					r.Check(rx != nil && core.ObjOf(info, rx) == types.Object(rec), f.Key+":"+fo.Name()+"("+id.Name()+"):on-own-record", call.Pos(), "the ID is used on the record it belongs to",
						"guard ID parameter "+id.Name()+" (acquired on "+rec.Name()+") is used on another record ("+core.ExprStr(rx)+"): releasing or checking it there can match the ID of an unrelated holder of that record (IDs are small per-record counters) and hands its guard to a second caller, while the caller's own guard is never released")
					return
				}
				// helper taking a (record, ID) pair
				hrec, hid, hrecIx, hidIx := pairOf(sig)
				if hrec == nil || hid == nil || p.ByObj[fo] == nil || hidIx >= len(call.Args) || hrecIx >= len(call.Args) {
					return
				}
				if core.ObjOf(info, call.Args[hidIx]) != types.Object(id) {
					return
				}
				n++
				c.Touch(f)
				r.Check(core.ObjOf(info, call.Args[hrecIx]) == types.Object(rec), f.Key+"->"+fo.Name()+":pair", call.Pos(), "record and its guard ID passed together",
					"the helper "+fo.Name()+" receives guard ID "+id.Name()+" together with "+core.ExprStr(call.Args[hrecIx])+" instead of "+rec.Name()+", the record the ID was acquired on: the guard is released on (or checked against) another record")
			})
		}
	}
	if n == 0 {
		r.Bad("guard-id-pairs", token.NoPos, "no use of a guard ID parameter found")
	}
}
