package gateway

import (
	"testing"
	"time"

	"github.com/hydraide/hydraide/app/core/hydra/swamp/treasure"
	"github.com/hydraide/hydraide/app/core/hydra/swamp/treasure/guard"
	hydrapb "github.com/hydraide/hydraide/sdk/go/hydraidego/v3/hydraidepbgo"
)

// Every path that looks at expiry must agree: a record with a non-zero expiry in the past is
// expired, also for pre-epoch times (C30). The wire conversion tested "> 0" instead of "!= 0".
func TestDemoPreEpochExpiryDisagrees(t *testing.T) {
	tr := treasure.New(nil)
	g := tr.StartTreasureGuard(true, guard.BodyAuthID)
	tr.BodySetKey(g, "k")
	tr.SetContentString(g, "v")
	tr.SetExpirationTime(g, time.Date(1960, 1, 1, 0, 0, 0, 0, time.UTC))
	tr.ReleaseTreasureGuard(g)
	if !tr.IsExpired() {
		t.Fatal("precondition: the engine treats the record as expired")
	}
	out := &hydrapb.Treasure{}
	treasureToKeyValuePair(tr, out)
	if out.ExpiredAt == nil {
		t.Fatalf("the engine says the record is expired (expiry %d) but the read path reports it as a record without expiry", tr.GetExpirationTime())
	}
	if got := out.ExpiredAt.AsTime().UnixNano(); got != tr.GetExpirationTime() {
		t.Fatalf("expiry on the wire %d != stored %d", got, tr.GetExpirationTime())
	}
}
