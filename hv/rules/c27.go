package rules

import (
	"go/ast"
	"go/token"
	"go/types"
	"strings"

	"hv/core"
)

func init() { register("C27", c27) }

const pkgHydrex = "sdk/hydrex"

// sdkMethodCall reports whether call invokes the named method of the SDK client interface.
func sdkMethodCall(info *types.Info, call *ast.CallExpr, name string) bool {
	fo := core.Callee(info, call)
	if fo == nil || fo.Name() != name || fo.Pkg() == nil || core.Short(fo.Pkg().Path()) != pkgSDK {
		return false
	}
	sig, ok := fo.Type().(*types.Signature)
	return ok && sig.Recv() != nil
}

// appendTo returns the object of list L when st is `L = append(L, elem)` and the appended element.
func appendTo(info *types.Info, st ast.Stmt) (types.Object, ast.Expr) {
	as, ok := st.(*ast.AssignStmt)
	if !ok || len(as.Lhs) != 1 || len(as.Rhs) != 1 {
		return nil, nil
	}
	call, ok := core.Unparen(as.Rhs[0]).(*ast.CallExpr)
	if !ok || len(call.Args) != 2 {
		return nil, nil
	}
	if id, isId := core.Unparen(call.Fun).(*ast.Ident); !isId || id.Name != "append" {
		return nil, nil
	}
	l := core.ObjOf(info, as.Lhs[0])
	if l == nil || core.ObjOf(info, call.Args[0]) != l {
		return nil, nil
	}
	return l, call.Args[1]
}

// litField returns the value of a named field in `&T{...}` / `T{...}`.
func litField(e ast.Expr, field string) ast.Expr {
	e = core.Unparen(e)
	if u, ok := e.(*ast.UnaryExpr); ok && u.Op == token.AND {
		e = u.X
	}
	cl, ok := e.(*ast.CompositeLit)
	if !ok {
		return nil
	}
	for _, el := range cl.Elts {
		if kv, ok := el.(*ast.KeyValueExpr); ok {
			if id, ok := kv.Key.(*ast.Ident); ok && id.Name == field {
				return kv.Value
			}
		}
	}
	return nil
}

// nameCall matches h.<builder>(a0, a1) and returns the argument objects.
func nameCall(info *types.Info, e ast.Expr, builderKey string) (a0, a1 ast.Expr, ok bool) {
	call, isCall := core.Unparen(e).(*ast.CallExpr)
	if !isCall || !core.IsWsCallTo(info, call, builderKey) || len(call.Args) != 2 {
		return nil, nil, false
	}
	return call.Args[0], call.Args[1], true
}

func c27(c *core.Ctx) {
	c.Explain = "Static necessary conditions for 'the Hydrex reverse index stays consistent with the core data': in Save, a key is removed from the core data exactly where its (key -> domain) index entry is removed, and added exactly where its index entry is added, both built from the same loop key, the domain parameter and the index name through the two name builders, and the four batches are handed to the matching SDK calls for the matching swamps; the removal guard is 'stored but not in the new items', the insertion guard is 'not stored yet', and a stored key whose value differs is written again; Destroy removes the index entry of every core item it read (same builders, same domain) and destroys the core swamp it read from; the reads that drive the diff read the whole swamp (no limit/offset)."
	c.NotCovered = []string{"consistency over real sequences against a server (no test runs here)", "failures of the SDK calls (their errors are dropped or only logged by Hydrex: a failed read makes Save treat everything as new)", "two Hydrex instances writing the same domain concurrently"}

	save := c.Fn(pkgHydrex + ".hydrex.Save")
	destroy := c.Fn(pkgHydrex + ".hydrex.Destroy")
	coreName := pkgHydrex + ".hydrex.createCoreDataName"
	indexName := pkgHydrex + ".hydrex.createIndexName"
	info := save.Info()
	sig := save.Obj.Type().(*types.Signature)
	param := func(s *types.Signature, n string) types.Object {
		for i := 0; i < s.Params().Len(); i++ {
			if s.Params().At(i).Name() == n {
				return s.Params().At(i)
			}
		}
		return nil
	}
	// parameters by position (ctx, indexName, domain, items)
	if sig.Params().Len() != 4 {
		core.Failf("hydrex.Save no longer has (ctx, indexName, domain, items)")
	}
	_ = param
	pIndex, pDomain, pItems := sig.Params().At(1), sig.Params().At(2), sig.Params().At(3)

	// which list goes to which SDK call, and with which swamp
	type sink struct {
		method string
		swamp  ast.Expr
		call   *ast.CallExpr
	}
	sinks := map[types.Object]sink{}
	core.Calls(save.Decl.Body, false, func(call *ast.CallExpr) {
		for _, m := range []string{"CatalogDeleteMany", "CatalogSaveMany"} {
			if sdkMethodCall(info, call, m) && len(call.Args) >= 3 {
				if o := core.ObjOf(info, call.Args[2]); o != nil {
					sinks[o] = sink{m, call.Args[1], call}
				}
			}
		}
		for _, m := range []string{"CatalogDeleteManyFromMany", "CatalogSaveManyToMany"} {
			if sdkMethodCall(info, call, m) && len(call.Args) >= 2 {
				if o := core.ObjOf(info, call.Args[1]); o != nil {
					sinks[o] = sink{m, nil, call}
				}
			}
		}
	})
	// the core-data swamp variable
	isCoreSwamp := func(f *core.Func, e ast.Expr, idx, dom types.Object) bool {
		fi := f.Info()
		if o := core.ObjOf(fi, e); o != nil {
			if def := localDef(fi, f.Decl.Body, o); def != nil {
				e = def
			}
		}
		a0, a1, ok := nameCall(fi, e, coreName)
		return ok && core.ObjOf(fi, a0) == idx && core.ObjOf(fi, a1) == dom
	}

	rP := c.Rule("C27.pair", "Save: inside the loop over the stored keys the key is queued for CatalogDeleteMany(core swamp) in the same block that queues {index swamp of that key, Keys: domain} for CatalogDeleteManyFromMany; inside the loop over the new items a new key is queued for CatalogSaveMany(core swamp) in the same block that queues {index swamp of that key, IndexedData{Domain: domain}} for CatalogSaveManyToMany", 8)
	rD := c.Rule("C27.diff", "the removal block runs exactly for stored keys missing from the new items, the insertion block exactly for keys not stored yet, and a stored key whose value differs from the new one is written to the core swamp again", 3)
	var existingObj types.Object
	ast.Inspect(save.Decl.Body, func(x ast.Node) bool {
		rs, ok := x.(*ast.RangeStmt)
		if !ok {
			return true
		}
		ranged := core.ObjOf(info, rs.X)
		keyObj := core.ObjOf(info, rs.Key)
		if ranged == nil || keyObj == nil {
			return true
		}
		isItems := ranged == pItems
		// collect the blocks that append to sink lists
		type blk struct {
			block   *ast.BlockStmt
			appends map[string]ast.Expr // sink method -> element
			pos     token.Pos
		}
		var blocks []*blk
		ast.Inspect(rs.Body, func(y ast.Node) bool {
			b, ok := y.(*ast.BlockStmt)
			if !ok {
				return true
			}
			bb := &blk{block: b, appends: map[string]ast.Expr{}, pos: b.Pos()}
			for _, st := range b.List {
				if l, el := appendTo(info, st); l != nil {
					if sk, ok := sinks[l]; ok {
						bb.appends[sk.method] = el
					}
				}
			}
			if len(bb.appends) > 0 {
				blocks = append(blocks, bb)
			}
			return true
		})
		if len(blocks) == 0 {
			return true
		}
		if !isItems {
			existingObj = ranged
		}
		for _, bb := range blocks {
			coreM, idxM, what := "CatalogDeleteMany", "CatalogDeleteManyFromMany", "removal"
			if isItems {
				coreM, idxM, what = "CatalogSaveMany", "CatalogSaveManyToMany", "insertion"
			}
			ce, hasCore := bb.appends[coreM]
			ie, hasIdx := bb.appends[idxM]
			construct := save.Key + ":" + what
			if isItems && hasCore && !hasIdx {
				// value-update block: core only; must be guarded by a value difference (C27.diff)
				valueGuard := false
				for _, n := range core.PathTo(rs.Body, bb.block) {
					if is, ok := n.(*ast.IfStmt); ok && is.Body == bb.block {
						ast.Inspect(is.Cond, func(z ast.Node) bool {
							if be, ok := z.(*ast.BinaryExpr); ok && be.Op == token.NEQ {
								fx, fy := core.FieldOf(info, be.X), core.FieldOf(info, be.Y)
								if fx != nil && fx == fy && fx.Name() == "Value" {
									valueGuard = true
								}
							}
							return true
						})
					}
				}
				rD.Check(valueGuard, save.Key+":value-update", bb.pos, "changed value of a stored key is written again", "a core-data write without index write that is not the 'value differs' update")
				vk := litField(ce, "Key")
				rP.Check(vk != nil && core.ObjOf(info, vk) == keyObj, save.Key+":value-update:key", bb.pos, "update keeps the key", "the value update is stored under another key")
				continue
			}
			rP.Check(hasCore && hasIdx, construct+":same-block", bb.pos, "core and index "+what+" queued together", "the core-data "+what+" and the index "+what+" of a key are not queued in the same block: one can happen without the other and lookups return domains that do not hold the key (or miss ones that do)")
			if !hasCore || !hasIdx {
				continue
			}
			// core element: the key itself (delete) or CoreData{Key: key}
			if isItems {
				vk := litField(ce, "Key")
				rP.Check(vk != nil && core.ObjOf(info, vk) == keyObj, construct+":core-key", ce.Pos(), "core item stored under the loop key", "the core item is stored under a key other than the one that is indexed")
			} else {
				rP.Check(core.ObjOf(info, ce) == keyObj, construct+":core-key", ce.Pos(), "the loop key is removed from the core data", "a key other than the loop key is removed from the core data")
			}
			// index element
			sw := litField(ie, "SwampName")
			a0, a1, okN := nameCall(info, sw, indexName)
			rP.Check(okN && core.ObjOf(info, a0) == pIndex && core.ObjOf(info, a1) == keyObj, construct+":index-swamp", ie.Pos(), "index swamp built from (indexName, loop key)", "the index entry is addressed with something other than createIndexName(indexName, key of this iteration)")
			if isItems {
				dom := ast.Expr(nil)
				if ms := litField(ie, "Models"); ms != nil {
					if cl, ok := core.Unparen(ms).(*ast.CompositeLit); ok && len(cl.Elts) == 1 {
						dom = litField(cl.Elts[0], "Domain")
					}
				}
				rP.Check(dom != nil && core.ObjOf(info, dom) == pDomain, construct+":index-domain", ie.Pos(), "index entry names the domain", "the index entry does not carry exactly the domain being saved")
			} else {
				okKeys := false
				if ks := litField(ie, "Keys"); ks != nil {
					if cl, ok := core.Unparen(ks).(*ast.CompositeLit); ok && len(cl.Elts) == 1 && core.ObjOf(info, cl.Elts[0]) == pDomain {
						okKeys = true
					}
				}
				rP.Check(okKeys, construct+":index-domain", ie.Pos(), "exactly the domain is removed from the key's index", "the index removal does not remove exactly the domain being saved")
			}
			// guard of the block
			var guard *ast.IfStmt
			for _, n := range core.PathTo(rs.Body, bb.block) {
				if is, ok := n.(*ast.IfStmt); ok && is.Body == bb.block {
					guard = is
				}
			}
			okGuard := false
			if guard != nil {
				// `if _, ok := M[key]; !ok` or a preceding `x, ok := M[key]` and `if !ok`
				var okObj types.Object
				if u, isNot := core.Unparen(guard.Cond).(*ast.UnaryExpr); isNot && u.Op == token.NOT {
					okObj = core.ObjOf(info, u.X)
				}
				if okObj != nil {
					ast.Inspect(rs.Body, func(z ast.Node) bool {
						as, ok := z.(*ast.AssignStmt)
						if !ok || len(as.Lhs) != 2 || len(as.Rhs) != 1 || core.ObjOf(info, as.Lhs[1]) != okObj {
							return true
						}
						if ix, ok := core.Unparen(as.Rhs[0]).(*ast.IndexExpr); ok && core.ObjOf(info, ix.Index) == keyObj {
							m := core.ObjOf(info, ix.X)
							if isItems && m != nil && m != pItems {
								okGuard = true
								existingObj = m
							}
							if !isItems && m == pItems {
								okGuard = true
							}
						}
						return true
					})
				}
			}
			gtxt := "stored and missing from the new items"
			if isItems {
				gtxt = "not stored yet"
			}
			rD.Check(okGuard, construct+":guard", bb.pos, "runs exactly when the key is "+gtxt, "the "+what+" block is not guarded by 'key is "+gtxt+"'")
		}
		return true
	})
	// sinks go to the right swamps
	for l, sk := range sinks {
		if sk.swamp != nil {
			rP.Check(isCoreSwamp(save, sk.swamp, pIndex, pDomain), save.Key+":"+sk.method+":swamp", sk.call.Pos(), "core swamp of (indexName, domain)", sk.method+" of list "+l.Name()+" does not address createCoreDataName(indexName, domain)")
		}
	}
	hasAll := 0
	for _, sk := range sinks {
		switch sk.method {
		case "CatalogDeleteMany", "CatalogSaveMany", "CatalogDeleteManyFromMany", "CatalogSaveManyToMany":
			hasAll++
		}
	}
	rP.Check(hasAll == 4, save.Key+":four-batches", save.Decl.Pos(), "four batches reach the SDK", "Save no longer hands four batches (core delete, index delete, core save, index save) to the SDK")
	hasUpdate := false
	for _, o := range rD.Obs {
		if strings.HasSuffix(o.Construct, ":value-update") && o.Status == "discharged" {
			hasUpdate = true
		}
	}
	rD.Check(hasUpdate, save.Key+":value-update:present", save.Decl.Pos(), "a changed value of a stored key is saved", "a key that is already stored is never written again: saving a domain with a changed value keeps the old value (reading the domain does not return its last saved items)")
	_ = existingObj

	rR := c.Rule("C27.readall", "the reads that feed the diff in Save and the cleanup in Destroy address the core swamp of (indexName, domain) and read it completely (Index.From == 0 and Index.Limit == 0)", 2)
	for _, f := range []*core.Func{save, destroy} {
		fi := f.Info()
		fs := f.Obj.Type().(*types.Signature)
		n := 0
		core.Calls(f.Decl.Body, false, func(call *ast.CallExpr) {
			if !sdkMethodCall(fi, call, "CatalogReadMany") || len(call.Args) < 3 {
				return
			}
			n++
			okSwamp := isCoreSwamp(f, call.Args[1], fs.Params().At(1), fs.Params().At(2))
			all := true
			for _, fld := range []string{"From", "Limit"} {
				if v := litField(call.Args[2], fld); v != nil {
					if k, ok := core.ConstInt(fi, v); !ok || k != 0 {
						all = false
					}
				}
			}
			rR.Check(okSwamp && all, f.Key+":CatalogReadMany", call.Pos(), "whole core swamp of (indexName, domain)", "the stored items are read from another swamp or only partially (limit/offset): keys beyond the window are neither diffed nor cleaned from the index")
		})
		if n == 0 {
			rR.Bad(f.Key+":CatalogReadMany", f.Decl.Pos(), "the function no longer reads the stored items")
		}
	}

	rY := c.Rule("C27.destroy", "Destroy queues, for every core item it reads, the removal of the domain from the index swamp of that item's key, passes the queue to CatalogDeleteManyFromMany, and destroys the core swamp of (indexName, domain)", 3)
	{
		fi := destroy.Info()
		fs := destroy.Obj.Type().(*types.Signature)
		dIndex, dDomain := fs.Params().At(1), fs.Params().At(2)
		var queue types.Object
		okElem := false
		for _, lit := range core.AllLits(destroy.Decl.Body) {
			// the iterator literal: its parameter is the model; m := model.(*CoreData)
			for _, st := range lit.Body.List {
				l, el := appendTo(fi, st)
				if l == nil {
					continue
				}
				queue = l
				sw := litField(el, "SwampName")
				a0, a1, okN := nameCall(fi, sw, indexName)
				keyOK := false
				if okN {
					if sel, ok := core.Unparen(a1).(*ast.SelectorExpr); ok {
						if fv := core.FieldOf(fi, sel); fv != nil && fv.Name() == "Key" {
							keyOK = true
						}
					}
				}
				domOK := false
				if ks := litField(el, "Keys"); ks != nil {
					if cl, ok := core.Unparen(ks).(*ast.CompositeLit); ok && len(cl.Elts) == 1 && core.ObjOf(fi, cl.Elts[0]) == dDomain {
						domOK = true
					}
				}
				okElem = okN && core.ObjOf(fi, a0) == dIndex && keyOK && domOK
			}
		}
		rY.Check(okElem, destroy.Key+":index-removal", destroy.Decl.Pos(), "{index swamp of the item's key, Keys: domain} per core item", "Destroy does not queue the removal of exactly this domain from the index swamp of every stored key: lookups keep returning a destroyed domain")
		passed, destroyed := false, false
		core.Calls(destroy.Decl.Body, false, func(call *ast.CallExpr) {
			if sdkMethodCall(fi, call, "CatalogDeleteManyFromMany") && len(call.Args) >= 2 && queue != nil && core.ObjOf(fi, call.Args[1]) == queue {
				passed = true
			}
			if sdkMethodCall(fi, call, "Destroy") && len(call.Args) == 2 && isCoreSwamp(destroy, call.Args[1], dIndex, dDomain) {
				destroyed = true
			}
		})
		rY.Check(passed, destroy.Key+":index-removal-sent", destroy.Decl.Pos(), "queue handed to CatalogDeleteManyFromMany", "the queued index removals are never sent")
		rY.Check(destroyed, destroy.Key+":core-destroyed", destroy.Decl.Pos(), "core swamp of (indexName, domain) destroyed", "Destroy does not destroy the core swamp of (indexName, domain)")
	}

	rN := c.Rule("C27.names", "the two name builders put the index name into the realm and the domain / key into the swamp part of two different sanctuaries, and every reader (GetCoreData, GetIndexData) uses the builder of the data it returns", 4)
	{
		for _, k := range []struct{ fn, sanct string }{{coreName, "sanctuaryHydraideCoreData"}, {indexName, "sanctuaryHydraideIndex"}} {
			f := c.Fn(k.fn)
			fi := f.Info()
			fs := f.Obj.Type().(*types.Signature)
			// name.New().Sanctuary(S).Realm(p0).Swamp(p1)
			okS, okR, okW := false, false, false
			core.Calls(f.Decl.Body, false, func(call *ast.CallExpr) {
				fo := core.Callee(fi, call)
				if fo == nil || len(call.Args) != 1 {
					return
				}
				switch fo.Name() {
				case "Sanctuary":
					if o, ok := core.ObjOf(fi, call.Args[0]).(*types.Const); ok && o.Name() == k.sanct {
						okS = true
					}
				case "Realm":
					okR = core.ObjOf(fi, call.Args[0]) == fs.Params().At(0)
				case "Swamp":
					okW = core.ObjOf(fi, call.Args[0]) == fs.Params().At(1)
				}
			})
			rN.Check(okS && okR && okW, f.Key, f.Decl.Pos(), "Sanctuary(const).Realm(indexName).Swamp(second argument)", "the name builder no longer maps (indexName, x) to sanctuary/indexName/x: core data and index of different index names or keys collide or are never found again")
		}
		for _, k := range []struct{ fn, builder string }{{pkgHydrex + ".hydrex.GetCoreData", coreName}, {pkgHydrex + ".hydrex.GetIndexData", indexName}} {
			f := c.Fn(k.fn)
			fi := f.Info()
			fs := f.Obj.Type().(*types.Signature)
			ok := false
			core.Calls(f.Decl.Body, false, func(call *ast.CallExpr) {
				if sdkMethodCall(fi, call, "CatalogReadMany") && len(call.Args) >= 2 {
					e := call.Args[1]
					if o := core.ObjOf(fi, e); o != nil {
						if def := localDef(fi, f.Decl.Body, o); def != nil {
							e = def
						}
					}
					a0, a1, okN := nameCall(fi, e, k.builder)
					ok = okN && core.ObjOf(fi, a0) == fs.Params().At(1) && core.ObjOf(fi, a1) == fs.Params().At(2)
				}
			})
			rN.Check(ok, f.Key+":reads-own-swamp", f.Decl.Pos(), "reads the swamp its builder names", "the reader does not read the swamp built from its (indexName, domain/key) arguments")
		}
	}
}
