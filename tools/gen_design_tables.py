#!/usr/bin/env python3
"""Rewrites the generated part of DESIGN.md (between the BEGIN/END GENERATED markers) from what the
machinery itself produced: evidence/*.json (rules and instance counts), known_findings.json (fixes and known
findings), seeded/*/meta.json (which rules catch which seeded change), selftest/mutations.json."""
import json, os, glob, collections
V = "/verif"
out = []
props = [json.loads(l) for l in open(f"{V}/properties.jsonl")]
k0 = json.load(open(f"{V}/known_findings.json"))
nfix = sum(1 for e in k0 if e["status"] == "fixed"); ncommits = len({e.get("commit") for e in k0 if e["status"] == "fixed"})
nknown = sum(1 for e in k0 if e["status"] == "known"); nseeds = len(glob.glob(f"{V}/seeded/*/meta.json"))
out.append(f"**Generated summary:** {nfix} repaired constructs in {ncommits} `fix:` commits, {nknown} known findings, {nseeds} seeded changes kept (all reported by their target property's check on the current tree unless the table says otherwise).\n")
out.append("### 9.2 Rules as built (from the last evidence files)\n")
out.append("| property | rule | instances (floor) | what is decided |")
out.append("|---|---|---|---|")
for p in props:
    ep = f"{V}/evidence/{p['id']}.json"
    if not os.path.exists(ep):
        continue
    e = json.load(open(ep))
    for r in e["coverage"].get("rules", []):
        out.append(f"| {p['id']} | {r['rule']} | {r['instances']} ({r['floor']}) | {r['text']} |")
k = json.load(open(f"{V}/known_findings.json"))
out.append("\n### 9.3 Genuine defects repaired in hydraide/hydraide (`fix:` commits)\n")
out.append("Each was first reported by a rule on the then-current tree, reproduced against the real code by a demonstration under `/verif/demos/`, repaired by one minimal commit, and is listed as `fixed` in `known_findings.json` (a fixed entry suppresses nothing).\n")
out.append("| property | rule / construct | commit | what failed |")
out.append("|---|---|---|---|")
for e in k:
    if e["status"] == "fixed":
        what = e["what"].split(" ", 3)[-1] if e["what"].startswith("fixed:") else e["what"]
        out.append(f"| {e['property']} | {e['rule']} `{e['construct']}` | {e.get('commit','')} | {what} |")
out.append("\n### 9.4 Known findings (genuine, demonstrated, not repaired)\n")
out.append("| property | rule / construct | what fails and why it is not repaired | demonstration |")
out.append("|---|---|---|---|")
for e in k:
    if e["status"] == "known":
        out.append(f"| {e['property']} | {e['rule']} `{e['construct']}` | {e['what']} | {e.get('demo','')} |")
out.append("\n### 9.5 Seeded changes (written by independent sub-agents from the property text only) and the rules that catch them\n")
out.append("Every change compiles, passes the existing suite, and comes with a demonstration that fails with it and passes without it (re-run by `tools/seed_eval.py` in a scratch copy; results in `seeded/<id>/meta.json`).\n")
out.append("| seed | property | needs, in order to manifest | caught by (target property) | also fires |")
out.append("|---|---|---|---|---|")
for mp in sorted(glob.glob(f"{V}/seeded/*/meta.json")):
    m = json.load(open(mp))
    fired = m.get("hv_fired", {})
    tgt = fired.get(m["property"], {})
    rules = ", ".join(sorted({r.split()[0] for r in tgt.get("rules", [])})) if tgt.get("exit") == 1 else "**missed**"
    also = ", ".join(f"{p}" for p, v in sorted(fired.items()) if p != m["property"] and v.get("exit") == 1)
    out.append(f"| {m['seed']} | {m['property']} | {m.get('needs','')} | {rules} | {also} |")
muts = json.load(open(f"{V}/selftest/mutations.json"))
c = collections.Counter((m["prop"], m.get("kind", "break")) for m in muts)
out.append("\n### 9.6 Checker self-test inventory (`selftest/mutations.json`)\n")
out.append("| property | breaking mutants | benign variants |")
out.append("|---|---|---|")
for p in props:
    out.append(f"| {p['id']} | {c.get((p['id'],'break'),0)} | {c.get((p['id'],'benign'),0)} |")
text = "\n".join(out) + "\n"
d = open(f"{V}/DESIGN.md").read()
B, E = "<!-- BEGIN GENERATED -->", "<!-- END GENERATED -->"
if B in d:
    d = d[:d.index(B) + len(B)] + "\n" + text + d[d.index(E):]
else:
    d += f"\n{B}\n{text}{E}\n"
open(f"{V}/DESIGN.md", "w").write(d)
print("DESIGN.md tables regenerated:", len(out), "lines")
