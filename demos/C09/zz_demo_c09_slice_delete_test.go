package gateway

// DEMONSTRATION for property C09 (place in app/server/gateway/ and run
// `go test -vet=off -count=1 -run TestDemoC09_EmptiedSetRemovalLosesPush ./app/server/gateway/`).
//
// Client A removes the only value of a uint32 set, client B pushes another value into the same
// set at the same time. Both requests are acknowledged. In every serial order the set ends up
// holding B's value. Before the fix Uint32SliceDelete decided "the set is empty, remove the record"
// inside the record guard but removed the record after releasing it: a push acknowledged in between
// was deleted with the record. The window cannot be forced, so fresh keys are tried for a bounded time
// (on the unrepaired tree the first lost update showed up after about 2 s).

import (
	"context"
	"fmt"
	"sync"
	"testing"
	"time"

	hydrapb "github.com/hydraide/hydraide/sdk/go/hydraidego/v3/hydraidepbgo"
	"github.com/stretchr/testify/require"
)

func TestDemoC09_EmptiedSetRemovalLosesPush(t *testing.T) {
	rig := newStreamVigilRig(t, "gw-c09-slice", "sets", "race")
	ctx := context.Background()
	deadline := time.Now().Add(40 * time.Second)
	for round := 0; time.Now().Before(deadline); round++ {
		key := fmt.Sprintf("set-%d", round)
		_, err := rig.gw.Uint32SlicePush(ctx, &hydrapb.AddToUint32SlicePushRequest{IslandID: rig.islandID, SwampName: rig.swampName,
			KeySlicePairs: []*hydrapb.KeySlicePair{{Key: key, Values: []uint32{1}}}})
		require.NoError(t, err)
		var wg sync.WaitGroup
		wg.Add(2)
		start := make(chan struct{})
		go func() {
			defer wg.Done()
			<-start
			_, _ = rig.gw.Uint32SliceDelete(ctx, &hydrapb.Uint32SliceDeleteRequest{IslandID: rig.islandID, SwampName: rig.swampName,
				KeySlicePairs: []*hydrapb.KeySlicePair{{Key: key, Values: []uint32{1}}}})
		}()
		go func() {
			defer wg.Done()
			<-start
			for i := 0; i < round%50; i++ {
				_ = i
			}
			_, perr := rig.gw.Uint32SlicePush(ctx, &hydrapb.AddToUint32SlicePushRequest{IslandID: rig.islandID, SwampName: rig.swampName,
				KeySlicePairs: []*hydrapb.KeySlicePair{{Key: key, Values: []uint32{2}}}})
			if perr != nil {
				t.Errorf("push: %v", perr)
			}
		}()
		close(start)
		wg.Wait()
		resp, err := rig.gw.Uint32SliceIsValueExist(ctx, &hydrapb.Uint32SliceIsValueExistRequest{IslandID: rig.islandID, SwampName: rig.swampName, Key: key, Value: 2})
		if err != nil || !resp.GetIsExist() {
			t.Fatalf("LOST UPDATE in round %d: the push of value 2 into %s was acknowledged, but afterwards the value is not in the set (err=%v): the record was removed as 'empty' after the push", round, key, err)
		}
	}
}
