// Package rules holds the per-property rule tables. Each property has one function that
// opens rules on the context and records obligations; nothing here executes HydrAIDE code.
package rules

import (
	"sort"

	"hv/core"
)

type PropFunc func(c *core.Ctx)

var registry = map[string]PropFunc{}

func register(id string, f PropFunc) { registry[id] = f }

// Lookup returns the rule function of a property.
func Lookup(id string) PropFunc { return registry[id] }

// IDs lists the implemented properties.
func IDs() []string {
	var out []string
	for k := range registry {
		out = append(out, k)
	}
	sort.Strings(out)
	return out
}
