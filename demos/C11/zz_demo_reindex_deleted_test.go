package beacon

import (
	"testing"

	"github.com/stretchr/testify/assert"
	"github.com/stretchr/testify/require"
)

// A treasure that was claimed by SelectExpiredForPatch and then deleted from
// the beacon (by a concurrent Delete) before ReindexExpiration runs must not
// be put back into the ordered index.
func TestDemoReindexExpiration_DoesNotResurrectDeleted(t *testing.T) {
	b := makeExpirationBeaconWithEntries(t, 3, 2)

	sel := b.SelectExpiredForPatch(1)
	require.Equal(t, 1, len(sel))
	deletedKey := sel[0].GetKey()

	// another client deletes the record while it is claimed for patching
	b.Delete(deletedKey)
	require.False(t, b.IsExists(deletedKey))

	b.ReindexExpiration(sel)

	assert.False(t, b.IsExists(deletedKey), "deleted key must stay deleted in the key map")
	for _, tr := range b.CloneOrderedTreasures(false) {
		assert.NotEqual(t, deletedKey, tr.GetKey(), "deleted key re-appeared in the ordered index")
	}

	// a later expired-shift must only hand out the one remaining expired record
	shifted := b.ShiftExpired(10)
	for _, tr := range shifted {
		assert.NotEqual(t, deletedKey, tr.GetKey(), "ShiftExpired handed out a deleted record")
	}
	assert.Equal(t, 1, len(shifted))
}
