package core

import (
	"go/ast"
	"go/types"
	"sort"
	"strings"
)

// Site is one call site inside a workspace function (function literals are attributed to
// the enclosing declared function).
type Site struct {
	Caller  *Func
	Call    *ast.CallExpr
	Callee  *types.Func // static callee or interface method; nil for calls through func values
	InLit   bool
	Targets []*Func // resolved workspace targets (static, CHA for interface methods, signature match for func values)
	Dynamic bool    // resolved through CHA or func-value matching
}

// CG is a class-hierarchy call graph over the workspace source.
type CG struct {
	P      *Prog
	Out    map[*Func][]*Site
	In     map[*Func][]*Site
	ByObj  map[*types.Func][]*Site // static callee (or interface method) -> sites
	named  []*types.Named
	impls  map[*types.Func][]*Func
	addrOf map[string][]*Func // signature string -> functions whose value is taken
}

func (p *Prog) buildNamed() []*types.Named {
	var out []*types.Named
	for _, pk := range p.Roots {
		sc := pk.Types.Scope()
		for _, n := range sc.Names() {
			if tn, ok := sc.Lookup(n).(*types.TypeName); ok && !tn.IsAlias() {
				if nt, ok := tn.Type().(*types.Named); ok {
					out = append(out, nt)
				}
			}
		}
	}
	return out
}

func sigKey(s *types.Signature) string {
	// parameter and result names are not part of a function type's identity
	strip := func(t *types.Tuple) *types.Tuple {
		vs := make([]*types.Var, t.Len())
		for i := 0; i < t.Len(); i++ {
			vs[i] = types.NewVar(0, nil, "", t.At(i).Type())
		}
		return types.NewTuple(vs...)
	}
	return types.TypeString(types.NewSignatureType(nil, nil, nil, strip(s.Params()), strip(s.Results()), s.Variadic()), nil)
}

// CallGraph builds (once) the workspace call graph.
func (p *Prog) CallGraph() *CG {
	if p.cg != nil {
		return p.cg
	}
	cg := &CG{P: p, Out: map[*Func][]*Site{}, In: map[*Func][]*Site{}, ByObj: map[*types.Func][]*Site{},
		impls: map[*types.Func][]*Func{}, addrOf: map[string][]*Func{}}
	cg.named = p.buildNamed()
	// address-taken functions
	for _, f := range p.Order {
		if f.Decl.Body == nil {
			continue
		}
		info := f.Info()
		callFun := map[ast.Expr]bool{}
		ast.Inspect(f.Decl.Body, func(x ast.Node) bool {
			if c, ok := x.(*ast.CallExpr); ok {
				fun := Unparen(c.Fun)
				callFun[fun] = true
				if s, ok := fun.(*ast.SelectorExpr); ok {
					callFun[s.Sel] = true // the method name of a call is not a function value
				}
			}
			return true
		})
		ast.Inspect(f.Decl.Body, func(x ast.Node) bool {
			e, ok := x.(ast.Expr)
			if !ok || callFun[e] {
				return true
			}
			var id *ast.Ident
			switch v := e.(type) {
			case *ast.Ident:
				id = v
			case *ast.SelectorExpr:
				id = v.Sel
			default:
				return true
			}
			if fo, ok := info.Uses[id].(*types.Func); ok {
				if tgt := p.ByObj[fo.Origin()]; tgt != nil {
					k := sigKey(fo.Type().(*types.Signature))
					dup := false
					for _, t := range cg.addrOf[k] {
						if t == tgt {
							dup = true
						}
					}
					if !dup {
						cg.addrOf[k] = append(cg.addrOf[k], tgt)
					}
				}
			}
			if s, ok := e.(*ast.SelectorExpr); ok {
				_ = s
				return true
			}
			return true
		})
	}
	for _, f := range p.Order {
		if f.Decl.Body == nil {
			continue
		}
		info := f.Info()
		var walk func(n ast.Node, inLit bool)
		walk = func(n ast.Node, inLit bool) {
			ast.Inspect(n, func(x ast.Node) bool {
				switch v := x.(type) {
				case *ast.FuncLit:
					walk(v.Body, true)
					return false
				case *ast.CallExpr:
					cg.addSite(f, info, v, inLit)
				}
				return true
			})
		}
		walk(f.Decl.Body, false)
	}
	p.cg = cg
	return cg
}

func (cg *CG) addSite(f *Func, info *types.Info, call *ast.CallExpr, inLit bool) {
	// conversions and builtins are not calls
	if tv, ok := info.Types[call.Fun]; ok && (tv.IsType() || tv.IsBuiltin()) {
		return
	}
	s := &Site{Caller: f, Call: call, InLit: inLit}
	callee := Callee(info, call)
	s.Callee = callee
	if callee != nil {
		if t := cg.P.ByObj[callee]; t != nil {
			s.Targets = []*Func{t}
		} else if recv := callee.Type().(*types.Signature).Recv(); recv != nil {
			if _, isIface := recv.Type().Underlying().(*types.Interface); isIface {
				s.Targets = cg.implementers(callee)
				s.Dynamic = true
			}
		}
		cg.ByObj[callee] = append(cg.ByObj[callee], s)
	} else {
		// call through a function value: match address-taken workspace functions by signature
		if tv, ok := info.Types[call.Fun]; ok {
			if sig, ok := tv.Type.Underlying().(*types.Signature); ok {
				s.Targets = cg.addrOf[sigKey(sig)]
				s.Dynamic = true
			}
		}
	}
	cg.Out[f] = append(cg.Out[f], s)
	for _, t := range s.Targets {
		cg.In[t] = append(cg.In[t], s)
	}
}

// implementers resolves an interface method to the workspace methods that may implement it.
func (cg *CG) implementers(m *types.Func) []*Func {
	if r, ok := cg.impls[m]; ok {
		return r
	}
	var out []*Func
	recv := m.Type().(*types.Signature).Recv()
	iface, _ := recv.Type().Underlying().(*types.Interface)
	if iface != nil && strings.HasPrefix(pkgPath(m), ModRoot) {
		for _, nt := range cg.named {
			if _, isI := nt.Underlying().(*types.Interface); isI {
				continue
			}
			var T types.Type = nt
			if !types.Implements(T, iface) {
				T = types.NewPointer(nt)
				if !types.Implements(T, iface) {
					continue
				}
			}
			obj, _, _ := types.LookupFieldOrMethod(T, true, m.Pkg(), m.Name())
			if fo, ok := obj.(*types.Func); ok {
				if t := cg.P.ByObj[fo.Origin()]; t != nil {
					out = append(out, t)
				}
			}
		}
	}
	sort.Slice(out, func(i, j int) bool { return out[i].Key < out[j].Key })
	cg.impls[m] = out
	return out
}

func pkgPath(f *types.Func) string {
	if f.Pkg() == nil {
		return ""
	}
	return f.Pkg().Path()
}

// Reach searches the call graph from 'from' for a site satisfying pred and returns the
// chain of sites leading to it. skip prunes callees that must not be entered.
func (cg *CG) Reach(from *Func, pred func(*Site) bool, skip func(*Func) bool) []*Site {
	return cg.ReachVia(from, pred, func(s *Site, t *Func) bool { return skip == nil || !skip(t) })
}

// ReachVia is Reach with an edge filter: follow(site, target) decides whether the edge is traversed.
func (cg *CG) ReachVia(from *Func, pred func(*Site) bool, follow func(*Site, *Func) bool) []*Site {
	type item struct {
		f    *Func
		path []*Site
	}
	seen := map[*Func]bool{from: true}
	q := []item{{from, nil}}
	for len(q) > 0 {
		it := q[0]
		q = q[1:]
		for _, s := range cg.Out[it.f] {
			if pred(s) {
				return append(append([]*Site{}, it.path...), s)
			}
		}
		for _, s := range cg.Out[it.f] {
			for _, t := range s.Targets {
				if seen[t] || (follow != nil && !follow(s, t)) {
					continue
				}
				seen[t] = true
				q = append(q, item{t, append(append([]*Site{}, it.path...), s)})
			}
		}
	}
	return nil
}

// ReachFromSite is Reach starting at the targets of one call site.
func (cg *CG) ReachFromSite(s *Site, pred func(*Site) bool, skip func(*Func) bool) []*Site {
	for _, t := range s.Targets {
		if skip != nil && skip(t) {
			continue
		}
		if p := cg.Reach(t, pred, skip); p != nil {
			return append([]*Site{s}, p...)
		}
	}
	return nil
}

// SiteOf finds the Site record of a call expression inside f.
func (cg *CG) SiteOf(f *Func, call *ast.CallExpr) *Site {
	for _, s := range cg.Out[f] {
		if s.Call == call {
			return s
		}
	}
	return nil
}

// ChainString renders a call chain.
func (cg *CG) ChainString(path []*Site) string {
	var parts []string
	for _, s := range path {
		name := "<func value>"
		if s.Callee != nil {
			name = Short(QName(s.Callee))
		}
		parts = append(parts, s.Caller.Key+" -> "+name+" @"+cg.P.Pos(s.Call.Pos()))
	}
	return strings.Join(parts, " ; ")
}

// StaticCallers lists the sites whose static callee (or interface method) is obj.
func (cg *CG) StaticCallers(obj *types.Func) []*Site { return cg.ByObj[obj] }

// CallersOf lists every site that may call f (static, CHA or func-value).
func (cg *CG) CallersOf(f *Func) []*Site { return cg.In[f] }

// ReachersOf returns every workspace function from which target is reachable through call
// edges (static edges and CHA-resolved interface edges), target itself excluded.
func (cg *CG) ReachersOf(target *Func) map[*Func]bool {
	out := map[*Func]bool{}
	work := []*Func{target}
	for len(work) > 0 {
		f := work[len(work)-1]
		work = work[:len(work)-1]
		for _, s := range cg.In[f] {
			if s.Caller != nil && !out[s.Caller] && s.Caller != target {
				out[s.Caller] = true
				work = append(work, s.Caller)
			}
		}
	}
	return out
}
