package core

import (
	"crypto/sha256"
	"encoding/json"
	"fmt"
	"go/constant"
	"go/token"
	"go/types"
	"os"
	"path/filepath"
	"sort"
	"strings"
	"time"
)

func constToInt(tv types.TypeAndValue) (int64, bool) {
	if tv.Value == nil || tv.Value.Kind() != constant.Int {
		return 0, false
	}
	return constant.Int64Val(tv.Value)
}

// VerifDir is where evidence, reports and the known-findings file live.
func VerifDir() string {
	if d := os.Getenv("HV_VERIF"); d != "" {
		return d
	}
	return "/verif"
}

type Status int

const (
	Discharged Status = iota
	Violated
	Undecided
)

// Obligation is one decided instance of a rule.
type Obligation struct {
	Rule      string `json:"rule"`
	Construct string `json:"construct"` // stable key: resolved function / callee / field, never a line number
	Pos       string `json:"pos"`
	Status    string `json:"status"`
	Detail    string `json:"detail,omitempty"`
}

// Rule groups the obligations of one structural clause.
type Rule struct {
	ID    string
	Text  string
	Floor int // minimum number of instances confirmed by hand on the pinned tree
	Obs   []*Obligation
	ctx   *Ctx
	seen  map[string]int
}

// Ctx is the per-property run context.
type Ctx struct {
	P          *Prog
	Prop       string
	Tier       string
	Rules      []*Rule
	Analysed   map[string]bool // functions looked at
	NotCovered []string
	Explain    string
	Assume     []string
	cg         *CG
	start      time.Time
}

func NewCtx(p *Prog, prop, tier string, start time.Time) *Ctx {
	return &Ctx{P: p, Prop: prop, Tier: tier, Analysed: map[string]bool{}, start: start}
}

// CG returns the lazily built call graph.
func (c *Ctx) CG() *CG {
	if c.cg == nil {
		c.cg = c.P.CallGraph()
	}
	return c.cg
}

// Fn resolves an anchor function and records it as analysed.
func (c *Ctx) Fn(key string) *Func {
	f := c.P.Fn(key)
	c.Analysed[key] = true
	return f
}

// Touch records functions as analysed.
func (c *Ctx) Touch(fs ...*Func) {
	for _, f := range fs {
		c.Analysed[f.Key] = true
	}
}

// Rule opens a rule. floor is the hand-confirmed minimum number of instances.
func (c *Ctx) Rule(id, text string, floor int) *Rule {
	r := &Rule{ID: id, Text: text, Floor: floor, ctx: c, seen: map[string]int{}}
	c.Rules = append(c.Rules, r)
	return r
}

func (r *Rule) add(construct string, pos token.Pos, st Status, detail string) {
	// keep constructs unique and stable: a repeated key gets an ordinal in source order
	r.seen[construct]++
	if n := r.seen[construct]; n > 1 {
		construct = fmt.Sprintf("%s#%d", construct, n)
	}
	s := map[Status]string{Discharged: "discharged", Violated: "violated", Undecided: "undecided"}[st]
	r.Obs = append(r.Obs, &Obligation{Rule: r.ID, Construct: construct, Pos: r.ctx.P.Pos(pos), Status: s, Detail: detail})
}

// Ok records a discharged obligation.
func (r *Rule) Ok(construct string, pos token.Pos, detail string) {
	r.add(construct, pos, Discharged, detail)
}

// Bad records a violated obligation.
func (r *Rule) Bad(construct string, pos token.Pos, detail string) {
	r.add(construct, pos, Violated, detail)
}

// Undecided records an idiom the engine does not know; it fails the check (exit 2).
func (r *Rule) Undecided(construct string, pos token.Pos, detail string) {
	r.add(construct, pos, Undecided, detail)
}

// Check records ok ? discharged : violated.
func (r *Rule) Check(ok bool, construct string, pos token.Pos, okDetail, badDetail string) {
	if ok {
		r.Ok(construct, pos, okDetail)
	} else {
		r.Bad(construct, pos, badDetail)
	}
}

// KnownFinding is one entry of /verif/known_findings.json.
type KnownFinding struct {
	Property  string `json:"property"`
	Rule      string `json:"rule"`
	Construct string `json:"construct"`
	Status    string `json:"status"` // "known" or "fixed"
	What      string `json:"what"`
	Commit    string `json:"commit,omitempty"`
	Demo      string `json:"demo,omitempty"`
}

func loadKnown() []KnownFinding {
	b, err := os.ReadFile(filepath.Join(VerifDir(), "known_findings.json"))
	if err != nil {
		if os.IsNotExist(err) {
			return nil
		}
		Failf("known_findings.json: %v", err)
	}
	var out []KnownFinding
	if err := json.Unmarshal(b, &out); err != nil {
		Failf("known_findings.json: %v", err)
	}
	return out
}

// Finish writes evidence and reports, prints the verdict lines and returns the exit code.
func (c *Ctx) Finish() int {
	known := map[string]KnownFinding{}
	for _, k := range loadKnown() {
		if k.Property == c.Prop && k.Status == "known" {
			known[k.Rule+"|"+k.Construct] = k
		}
	}
	repDir := filepath.Join(VerifDir(), "reports", c.Prop)
	os.RemoveAll(repDir)
	exit := 0
	total, discharged, violated, undecided, knownHits := 0, 0, 0, 0, 0
	type ruleSummary struct {
		Rule       string        `json:"rule"`
		Text       string        `json:"text"`
		Instances  int           `json:"instances"`
		Floor      int           `json:"floor"`
		Discharged int           `json:"discharged"`
		Violated   int           `json:"violated"`
		Sites      []*Obligation `json:"sites"`
	}
	var summaries []ruleSummary
	var samples []any
	var lines []string
	usedKnown := map[string]bool{}
	for _, r := range c.Rules {
		rs := ruleSummary{Rule: r.ID, Text: r.Text, Instances: len(r.Obs), Floor: r.Floor, Sites: r.Obs}
		if len(r.Obs) < r.Floor {
			lines = append(lines, fmt.Sprintf("CHECK-BROKEN property=%s rule=%s instances=%d below floor %d (rule would pass vacuously)", c.Prop, r.ID, len(r.Obs), r.Floor))
			if exit < 2 {
				exit = 2
			}
		}
		for i, o := range r.Obs {
			total++
			switch o.Status {
			case "discharged":
				discharged++
				rs.Discharged++
			case "undecided":
				undecided++
				lines = append(lines, fmt.Sprintf("CHECK-BROKEN property=%s rule=%s undecided construct=%s at %s: %s", c.Prop, r.ID, o.Construct, o.Pos, o.Detail))
				if exit < 2 {
					exit = 2
				}
			case "violated":
				rs.Violated++
				if k, ok := known[r.ID+"|"+o.Construct]; ok {
					knownHits++
					usedKnown[r.ID+"|"+o.Construct] = true
					o.Status = "known-finding"
					lines = append(lines, fmt.Sprintf("KNOWN-FINDING: property=%s rule=%s construct=%s at %s: %s", c.Prop, r.ID, o.Construct, o.Pos, k.What))
					continue
				}
				violated++
				os.MkdirAll(repDir, 0o755)
				h := sha256.Sum256([]byte(r.ID + "|" + o.Construct))
				path := filepath.Join(repDir, fmt.Sprintf("%s-%x.json", strings.ReplaceAll(r.ID, ".", "_"), h[:4]))
				rep := map[string]any{
					"property": c.Prop, "rule": r.ID, "rule_text": r.Text, "construct": o.Construct,
					"pos": o.Pos, "detail": o.Detail, "tier": c.Tier,
					"how_to_reproduce": fmt.Sprintf("/verif/bin/hv check -prop %s -tier %s", c.Prop, c.Tier),
				}
				b, _ := json.MarshalIndent(rep, "", " ")
				os.WriteFile(path, b, 0o644)
				lines = append(lines, fmt.Sprintf("VIOLATION property=%s replay=%s", c.Prop, path))
				lines = append(lines, fmt.Sprintf("  rule=%s construct=%s at %s: %s", r.ID, o.Construct, o.Pos, o.Detail))
				if exit < 1 {
					exit = 1
				}
			}
			if i < 3 {
				samples = append(samples, o)
			}
		}
		summaries = append(summaries, rs)
	}
	// a known entry that no longer matches is reported (informational) so the file can be cleaned
	for k := range known {
		if !usedKnown[k] {
			lines = append(lines, fmt.Sprintf("NOTE: known finding %s no longer reproduces for %s (entry can be marked fixed)", k, c.Prop))
		}
	}
	var fns []string
	for f := range c.Analysed {
		fns = append(fns, f)
	}
	sort.Strings(fns)
	expl := c.Explain
	if len(c.NotCovered) > 0 {
		expl += " NOT COVERED (behavioural clauses no static rule here decides): " + strings.Join(c.NotCovered, "; ") + "."
	}
	ev := map[string]any{
		"property_id": c.Prop,
		"tier":        c.Tier,
		"seed":        seedFromEnv(),
		"level":       "other",
		"coverage": map[string]any{
			"explanation":         expl,
			"obligations":         total,
			"discharged":          discharged,
			"violated_new":        violated,
			"known_findings":      knownHits,
			"undecided":           undecided,
			"rules":               summaries,
			"samples":             samples,
			"functions_analysed":  fns,
			"n_functions":         len(fns),
			"workspace_packages":  len(c.P.Roots),
			"workspace_files":     c.P.NumFiles(),
			"workspace_functions": len(c.P.Order),
			"not_covered":         c.NotCovered,
			"checker_cmd":         fmt.Sprintf("/verif/bin/hv check -prop %s -tier %s", c.Prop, c.Tier),
			"exhaustive":          false,
		},
		"assumptions": append([]string{
			"go/packages + go/types model of the source (linux/amd64, default build tags, non-test files)",
			"the rule is a necessary condition of the property; behavioural clauses listed under not_covered are not decided",
		}, c.Assume...),
		"wall_s":     time.Since(c.start).Seconds(),
		"violations": violated,
	}
	os.MkdirAll(filepath.Join(VerifDir(), "evidence"), 0o755)
	b, _ := json.MarshalIndent(ev, "", " ")
	if err := os.WriteFile(filepath.Join(VerifDir(), "evidence", c.Prop+".json"), b, 0o644); err != nil {
		fmt.Println("CHECK-BROKEN cannot write evidence:", err)
		return 2
	}
	if violated > 0 {
		exit = 1 // a concrete violation takes precedence over "could not decide everything"
	}
	for _, l := range lines {
		fmt.Println(l)
	}
	fmt.Printf("SUMMARY property=%s tier=%s rules=%d obligations=%d discharged=%d known=%d violated=%d undecided=%d functions=%d wall=%.1fs\n",
		c.Prop, c.Tier, len(c.Rules), total, discharged, knownHits, violated, undecided, len(fns), time.Since(c.start).Seconds())
	return exit
}

func seedFromEnv() int {
	var s int
	fmt.Sscanf(os.Getenv("VERIF_SEED"), "%d", &s)
	return s
}
