package vigil

import (
	"sync"
	"testing"
	"time"
)

// Lost wake-up: CeaseVigil decrements and broadcasts without holding cond.L, so a waiter that
// has just evaluated HasActiveVigils()==true but has not yet parked in Wait misses the broadcast.
func TestDemoLostWakeup(t *testing.T) {
	deadline := time.Now().Add(25 * time.Second)
	var wg sync.WaitGroup
	stuck := make(chan int, 64)
	for w := 0; w < 32; w++ {
		wg.Add(1)
		go func(w int) {
			defer wg.Done()
			for i := 0; time.Now().Before(deadline); i++ {
				v := New()
				v.BeginVigil()
				done := make(chan struct{})
				go func() { v.WaitForActiveVigilsClosed(); close(done) }()
				go v.CeaseVigil()
				select {
				case <-done:
				case <-time.After(3 * time.Second):
					stuck <- i
					return
				}
			}
		}(w)
	}
	wg.Wait()
	select {
	case i := <-stuck:
		t.Fatalf("WaitForActiveVigilsClosed blocked forever although the vigil count is 0 (iteration %d)", i)
	default:
	}
}
